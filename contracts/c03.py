"""C03 — PASS means no admissible input violates the test (end to end).

The end-to-end statement is a composition; what is decided here are the test-level links of the
chain, each as a contract on the real code, and the composition is written down as a lemma whose
remaining assumptions are listed (never counted as proved):

  sevm.CallOutput.is_panic_of / Exec.is_panic_of
        a frame output is recognised as Panic(k) exactly when it is a Revert carrying the 36-byte
        Panic encoding with k in the configured codes (every concrete k), any k if none configured;
        a code that is not a constant must not be dismissed while some valuation makes it a configured
        one (recorded known finding)
  __main__.is_global_fail_set
        induction on the call tree: true iff some frame of the tree ended with the assert-cheatcode
        failure — a failure at any nesting depth counts
  __main__.run_test #path-loop   (C05 pack, re-stated) every yielded path that is a Panic of a configured code or
        has the failure flag set is handed to the solver exactly once; nothing else is
  __main__.CounterexampleHandler.handle_assertion_violation
        the query handed to the solver is the serialisation of that path's constraints taken at that
        moment, submitted exactly once, with the result callback attached; executor shutdown propagates
  __main__.setup  #path-selection
        every error-free setUp path is kept unless the solver proves it infeasible; exactly one must
        remain (none / several is an error, never a silent choice)
  verdict: PASS only if every such query came back unsat, nothing stuck, no solver failure (C05 pack)

Lemma (assumptions, NOT proved here): exploration drops no admissible input without a flag (C02, C10,
under the worklist assumption of SEVM.run), every reported path is a real behaviour (C01, not
claimed), the query equals the path constraints and refinement is exact (C11), calldata is fully
general within the reported bounds (C12), assert cheatcodes mean what they say (C13).
"""
from __future__ import annotations

import ast

import z3

from pyvc import loader
from pyvc.interp import _ENGINE, Env, PathEnd, SymBytes
from contracts.common import replay_script  # noqa: E402
from pyvc.pack import Case

loader.import_repo()
import halmos.__main__ as hm  # noqa: E402
import halmos.sevm as hs  # noqa: E402
from halmos.bytevec import ByteVec  # noqa: E402
from halmos.exceptions import FailCheatcode, HalmosException, OutOfGasError, Revert  # noqa: E402
from halmos.processes import ShutdownError  # noqa: E402

PROP = "C03"


class NS:
    def __init__(self, **kw):
        self.__dict__.update(kw)


class GhostPanicData:
    """revert data of 36 bytes: 4 selector bytes + a 32-byte word (concrete-but-arbitrary, or a term)"""

    def __init__(self, selector, code):
        self.selector, self.code = selector, code

    def __len__(self):
        return 36

    def __getitem__(self, sl):
        if (sl.start, sl.stop) == (0, 4):
            return NS(unwrap=lambda: self.selector)
        if (sl.start, sl.stop) == (4, 36):
            return NS(unwrap=lambda: self.code)
        raise loader.BindingError(f"is_panic_of reads bytes [{sl.start}:{sl.stop}]")


def panic_cases():
    out = []
    fn = hs.CallOutput.__dict__["is_panic_of"]
    configured = {0x01, 0x11, 0x32}

    def harness_concrete(interp):
        ctx = interp.ctx
        code = ctx.new_int_input("panic_code", 256)
        o = NS(error=Revert(), data=GhostPanicData(hs.PANIC_SELECTOR, SymBytes(32, code)))
        r = interp.truth(interp.call(fn, [o, set(configured)], {}))
        want = z3.Or(*[code.e == k for k in configured])
        ctx.oblige("for EVERY concrete code: recognised iff the code is one of the configured ones", z3.BoolVal(bool(r)) == want, info={"r": str(r)})
        r2 = interp.call(fn, [o, set()], {})
        ctx.oblige("no codes configured: every Panic counts", z3.BoolVal(r2 is True))

    out.append(Case(f"{PROP}/sevm.CallOutput.is_panic_of", "Panic(k), k concrete but arbitrary", harness_concrete, sources=("halmos.sevm:CallOutput.is_panic_of",)))

    def harness_other(interp):
        ctx = interp.ctx
        one = (1).to_bytes(32, "big")
        for name, o, want in (
            ("not a revert (out of gas)", NS(error=OutOfGasError("x"), data=GhostPanicData(hs.PANIC_SELECTOR, one)), False),
            ("no error at all", NS(error=None, data=GhostPanicData(hs.PANIC_SELECTOR, one)), False),
            ("Error(string) revert", NS(error=Revert(), data=GhostPanicData(bytes.fromhex("08c379a0"), one)), False),
            ("revert data of another length", NS(error=Revert(), data=ByteVec(hs.PANIC_SELECTOR + one + b"\0")), False),
            ("empty revert data", NS(error=Revert(), data=ByteVec()), False),
            ("Panic(1) as real bytes", NS(error=Revert(), data=ByteVec(hs.PANIC_SELECTOR + one)), True),
            ("Panic(0x21) as real bytes (not configured)", NS(error=Revert(), data=ByteVec(hs.PANIC_SELECTOR + (0x21).to_bytes(32, "big"))), False),
        ):
            r = interp.call(fn, [o, set(configured)], {})
            ctx.oblige(f"is_panic_of: {name}", z3.BoolVal(r is want))
        ex = object.__new__(hs.Exec)
        seen = []
        ex.context = NS(output=NS(is_panic_of=lambda codes: (seen.append(codes), True)[1]))
        r = interp.call(hs.Exec.__dict__["is_panic_of"], [ex, configured], {})
        ctx.oblige("Exec.is_panic_of asks the output of its own frame with the configured codes", z3.BoolVal(r is True and seen == [configured]))

    out.append(Case(f"{PROP}/sevm.CallOutput.is_panic_of", "other outputs", harness_other, sources=("halmos.sevm:CallOutput.is_panic_of", "halmos.sevm:Exec.is_panic_of")))

    def harness_symbolic(interp):
        ctx = interp.ctx
        x = z3.BitVec("panic_code_term", 256)
        o = NS(error=Revert(), data=GhostPanicData(hs.PANIC_SELECTOR, x))
        r = interp.call(fn, [o, set(configured)], {})
        # some valuation makes the code a configured one (x is unconstrained): the output must not be dismissed
        ctx.oblige("a Panic whose code is not a constant is not dismissed while some input makes it a configured code", z3.BoolVal(bool(r)), info={"r": str(r)})

    out.append(Case(f"{PROP}/sevm.CallOutput.is_panic_of", "Panic(x), x symbolic", harness_symbolic, replay=replay_symbolic_panic, sources=("halmos.sevm:CallOutput.is_panic_of",)))
    return out


def replay_symbolic_panic(r):
    x = z3.BitVec("x", 256)
    data = ByteVec(hs.PANIC_SELECTOR)
    data.append(x)
    o = hs.CallOutput(data=data, error=Revert())
    got = o.is_panic_of({1})
    if not got:
        return {"reproduced": True, "detail": "CallOutput(data = Panic selector ++ x, error = Revert).is_panic_of({1}) is False for an unconstrained x, although x = 1 is admissible: a path that reverts with Panic(x) is not handed to the solver and the test can be reported PASS", "inputs": "revert data = 0x4e487b71 ++ x"}
    return {"reproduced": False, "detail": "a symbolic panic code is treated as a potential violation"}


def fail_flag_cases():
    out = []
    fn = hm.is_global_fail_set

    for own in (False, True):
        for nkids in (0, 1, 3):

            def harness(interp, own=own, nkids=nkids):
                ctx = interp.ctx
                kids = [NS(tag=f"child{k}") for k in range(nkids)]
                flags = [z3.Bool(f"fail_set_in_subtree[{k}]") for k in range(nkids)]
                depth = {"n": 0}
                orig = interp.call
                from pyvc.sym import SymBool

                def hook(f, args, kwargs):
                    if f is fn:
                        depth["n"] += 1
                        try:
                            if depth["n"] > 1:
                                # inductive hypothesis for the children
                                k = kids.index(args[0])
                                return SymBool(flags[k])
                            return orig(f, args, kwargs)
                        finally:
                            depth["n"] -= 1
                    return orig(f, args, kwargs)

                interp.call = hook
                cx = NS(output=NS(error=FailCheatcode("assertEq") if own else Revert()))
                cx.subcalls = lambda: iter(kids)
                r = interp.call(fn, [cx], {})
                got = r if isinstance(r, bool) else None
                want = z3.Or(z3.BoolVal(own), *flags) if flags else z3.BoolVal(own)
                ctx.oblige("failure flag of a call tree = this frame failed an assert cheatcode, or some sub-tree's flag is set (induction on the tree)", z3.BoolVal(bool(r)) == want if isinstance(r, bool) else z3.BoolVal(False), info={"r": str(r)})

            out.append(Case(f"{PROP}/__main__.is_global_fail_set", f"own failure={own}, {nkids} sub-call(s)", harness, sources=("halmos.__main__:is_global_fail_set",)))
    return out


def handler_cases():
    out = []
    for shutdown in (False, True):

        def harness(interp, shutdown=shutdown):
            ctx = interp.ctx
            submitted, callbacks, serial = [], [], []

            class Fut:
                def add_done_callback(self, cb):
                    callbacks.append(cb)

            class Pool:
                def submit(self, fn, arg):
                    if shutdown:
                        raise ShutdownError()
                    submitted.append((fn, arg))
                    return Fut()

            fctx = NS(args=NS(verbose=0), traces={}, call_sequences={}, solving_ctx="<solving ctx>", thread_pool=Pool())
            futures = []
            h = object.__new__(hm.CounterexampleHandler)
            for k, v in dict(ctx=fctx, is_invariant=False, is_probe=False, flamegraph_enabled=False, potential_flamegraphs={}, submitted_futures=futures).items():
                object.__setattr__(h, k, v)
            ex = NS(call_sequence=[], context=NS())
            ex.path = NS(to_smt2=lambda a: (serial.append(a), "<query of this path>")[1])
            interp.contracts["halmos.traces:rendered_call_sequence"] = lambda i, a, k: ""
            interp.externals[hm.rendered_call_sequence] = lambda i, *a, **k: ""
            made = []
            interp.contracts["halmos.solve:PathContext"] = lambda i, a, k: (made.append(k), NS(**k))[1]
            try:
                interp.call(hm.CounterexampleHandler.__dict__["handle_assertion_violation"], [h], {"path_id": 9, "ex": ex, "panic_found": True})
                raised = None
            except ShutdownError as e:
                raised = e
            if shutdown:
                ctx.oblige("executor already shut down: the caller is told (ShutdownError), nothing is recorded as submitted", z3.BoolVal(raised is not None and futures == []))
                return
            ctx.oblige("the path's constraints are serialised once, at this moment, with the test's configuration", z3.BoolVal(serial == [fctx.args]))
            ok = len(submitted) == 1 and submitted[0][0] is hm.solve_end_to_end and submitted[0][1].query == "<query of this path>" and submitted[0][1].path_id == 9 and submitted[0][1].solving_ctx == "<solving ctx>"
            ctx.oblige("exactly one solver job is submitted: solve_end_to_end on the query of this very path", z3.BoolVal(ok))
            ctx.oblige("the result callback is attached to that job and the job is remembered", z3.BoolVal(len(callbacks) == 1 and len(futures) == 1 and getattr(callbacks[0], "func", None) is not None and callbacks[0].keywords.get("ex") is ex))

        out.append(Case(f"{PROP}/__main__.CounterexampleHandler.handle_assertion_violation", f"executor shut down={shutdown}", harness, sources=("halmos.__main__:CounterexampleHandler.handle_assertion_violation",)))
    return out


def setup_fragment():
    sf, node = loader.func_node(hm.setup)
    matches = [n for n in node.body if isinstance(n, ast.Match)]
    if len(matches) != 2 or ast.unparse(matches[0].subject) != "setup_exs_no_error" or ast.unparse(matches[1].subject) != "len(setup_exs)":
        raise loader.BindingError("path-selection statements of setup() not found")
    k0, k1 = node.body.index(matches[0]), node.body.index(matches[1])
    pre = node.body[k0 - 1]
    if not (isinstance(pre, ast.AnnAssign) and ast.unparse(pre.target) == "setup_exs"):
        raise loader.BindingError("setup_exs initialisation not found")
    return node.body[k0 - 1 : k1 + 2]  # init, first match, second match, `[setup_ex] = setup_exs`


def setup_cases():
    out = []
    answers = {"unsat": z3.unsat, "sat": z3.sat, "unknown": z3.unknown, "err": "err"}
    scenarios = [(0, ())]
    scenarios += [(1, ())]
    for a in answers:
        for b in answers:
            scenarios.append((2, (a, b)))
    scenarios += [(3, ("unsat", "unsat", "sat")), (3, ("unsat", "unsat", "unsat")), (3, ("sat", "sat", "sat")), (3, ("unknown", "unsat", "unsat"))]
    for n, ans in scenarios:

        def harness(interp, n=n, ans=ans):
            ctx = interp.ctx
            frag = setup_fragment()
            exs = [NS(tag=f"setup path {k}") for k in range(n)]
            asked = []

            def low(i, a, k):
                asked.append(a[0].query)
                return NS(result=answers[ans[len(asked) - 1]])

            interp.contracts["halmos.solve:solve_low_level"] = low
            interp.contracts["halmos.solve:PathContext"] = lambda i, a, k: NS(**k)
            env = Env({"setup_exs_no_error": [(e, f"query{k}") for k, e in enumerate(exs)], "args": NS(), "ctx": NS(solving_ctx="<sc>"), "setup_sig": "setUp()"}, None, hm.__dict__)
            kind, payload, _ = interp.exec_fragment(frag, env, qual="halmos.__main__:setup#select", is_gen=False)
            feasible = [e for e, a_ in zip(exs, ans)] if n >= 2 else list(exs)
            if n >= 2:
                # a path is discarded only if the solver proves it infeasible
                feasible = [e for e, a_ in zip(exs, ans) if a_ != "unsat"]
            if len(feasible) == 1:
                ctx.oblige("exactly one admissible setUp path: it is the post-setUp state", z3.BoolVal(kind == "fallthrough" and env.lookup("setup_ex") is feasible[0]), info={"kind": kind})
            elif len(feasible) == 0:
                ctx.oblige("no admissible setUp path: setUp fails with an error (the contract's tests are not run against an arbitrary state)", z3.BoolVal(kind == "raise" and isinstance(payload, HalmosException)))
            else:
                ctx.oblige("several setUp paths that are not proved infeasible: setUp fails with an error, none is chosen silently", z3.BoolVal(kind == "raise" and isinstance(payload, HalmosException)), info={"kind": kind})
            if n >= 2:
                ctx.oblige("a setUp path is dropped only when the solver proves it infeasible (sat / unknown / error keep it)", z3.BoolVal(all(q == f"query{k}" for k, q in enumerate(asked))))
            else:
                ctx.oblige("with at most one error-free path no solver is needed", z3.BoolVal(asked == []))

        out.append(Case(f"{PROP}/__main__.setup#path-selection", f"{n} error-free path(s), solver: {','.join(ans) or '-'}", harness, sources=("halmos.__main__:setup",)))
    return out


def grounds():
    from contracts.common import ground_script
    from pyvc.pack import Ground

    return [Ground(f"{PROP}/calldata#calldatasize", ground_script("calldatasize_of_dynamic_arguments.py", "check_cds(bytes b) { assert(msg.data.length != 68); }", "PASS within the printed bounds covers every argument: what a test observes of its calldata (CALLDATASIZE included) is what the concrete call with that argument shows"), sources=("halmos.calldata:Calldata.create",))]


def build_cases(tier="quick"):
    from contracts import c05

    ref = []
    for c in c05.classification_cases():
        ref.append(Case(f"{PROP}/__main__.run_test#path-loop", c.case, c.harness, sources=c.sources))
    for c in c05.verdict_cases():
        ref.append(Case(f"{PROP}/__main__.run_test#verdict", c.case, c.harness, sources=c.sources))
    # the printed parameter bounds are the size candidates: the symbolic payload must cover the largest one
    # (C12 contract of Calldata.encode), and every test starts from its own copy of the post-setUp state (C20)
    from contracts import c12, c20

    for c in c12.encode_cases():
        ref.append(Case(f"{PROP}/calldata.Calldata.encode#bounds", c.case, c.harness, replay=c.replay, sources=c.sources))
    for c in c20.fork_cases():
        if c.unit.endswith("sevm.SEVM.run_message"):
            ref.append(Case(f"{PROP}/sevm.SEVM.run_message#test-start-state", c.case, c.harness, replay=c.replay, sources=c.sources))
    # the configured panic codes of a test come from its own annotation and the contract's configuration only
    for c in c20.main_cases():
        if c.unit.endswith("__main__.run_tests"):
            ref.append(Case(f"{PROP}/__main__.run_tests#per-test-configuration", c.case, c.harness, replay=replay_script("annotation_scope.py", "two tests of one contract, only the first carries a @custom:halmos annotation"), sources=c.sources))
    # every length combination inside the printed bounds is explored only if sibling paths do not share their size tables
    from contracts import c02

    ref += [Case(f"{PROP}/sevm.Path.branch#size-tables-owned", c.case, c.harness, replay=c.replay, sources=c.sources) for c in c02.path_cases() if "Path.branch" in c.unit]
    # with --cache-solver a violation query is answered unsat from a recorded core: the core must be the solver's (C16's units)
    from contracts import c16
    from contracts.common import rewrap

    ref += rewrap(PROP, c16.parse_core_cases() + c16.check_unsat_cores_cases() + c16.from_result_cases(), "cached-unsat")
    # `PASS without a bound or incompleteness warning`: the warning of a cut loop is not filtered away as a duplicate (C10's unit)
    from contracts import c10

    ref += rewrap(PROP, c10.logs_cases(), "bound-warning-is-emitted")
    # the query answered for a path is that path's own (never a file left by another test or an earlier run) (C05's unit)
    ref += rewrap(PROP, c05.timeout_cases(), "query-of-this-path")
    # what a test reads back from a call is the callee's return data and nothing beyond it (C09's unit)
    from contracts import c09

    ref += rewrap(PROP, c09.returndata_cases(), "return-area", lambda c: "copy_returndata" in c.unit)
    return panic_cases() + fail_flag_cases() + handler_cases() + setup_cases() + ref


ASSUMPTIONS = [
    "pyvc (VC generator, Python-subset semantics) is trusted",
    "NOT CLAIMED: the end-to-end theorem `PASS without a warning => no admissible input makes the concrete test fail`. It is the composition of these test-level contracts with C02/C10 (no admissible input dropped without a flag; needs the worklist assumption of SEVM.run), C01 (every reported path is a real EVM behaviour; not claimed in this round), C11 (query = path constraints, exact refinement), C12 (calldata fully general within the bounds), C13 (assert cheatcodes), C05 (verdict). The composition itself is not machine-checked",
    "is_global_fail_set is proved by induction on the call tree with the recursive calls replaced by the induction hypothesis (arity <= 3)",
    "the setUp selection is a fragment of setup(); that setUp's own exploration is complete is C02/C10 material",
]
TRUSTED = ["pyvc (this repository's verifier)", "z3 4.12.6"]
TECHNIQUE = "test-level contracts on the real code (pyvc): classification predicates for every concrete panic code, induction on the call tree, fragments of setup()/run_test, callee contracts; the end-to-end composition is stated as a lemma with listed assumptions"
