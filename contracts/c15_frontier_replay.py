"""native end-to-end replay for C15: the real get_frontier on a hand-assembled target whose two returning
paths store the same term under disjoint constraints (assembler and artefact scaffolding adapted from seeded/C15-1/demo.py)"""
import hashlib
import itertools
import sys

from z3 import BitVecVal, Solver, is_bv, sat

from halmos.__main__ import get_frontier, get_state_id, mk_block, mk_solver
from halmos.bytevec import ByteVec
from halmos.calldata import FunctionInfo
from halmos.config import default_config
from halmos.mapper import BuildOut
from halmos.sevm import (
    EMPTY_BALANCE,
    FOUNDRY_CALLER,
    FOUNDRY_ORIGIN,
    FOUNDRY_TEST,
    SEVM,
    CallContext,
    Contract,
    Message,
    Path,
)
from halmos.solve import ContractContext
from halmos.utils import EVM, con_addr

# --------------------------------------------------------------------------- mini assembler

OPS = dict(
    STOP=0x00, ADD=0x01, LT=0x10, EQ=0x14, ISZERO=0x15, SHR=0x1C, CALLDATALOAD=0x35, SLOAD=0x54, SSTORE=0x55,
    JUMPI=0x57,
    DUP1=0x80, DUP2=0x81, SWAP1=0x90, REVERT=0xFD,
)  # fmt: skip


def asm(prog):
    pos, labels = 0, {}
    for it in prog:
        if isinstance(it, str):
            pos += 1
        elif it[0] == "PUSH":
            pos += 1 + it[1]
        elif it[0] == "PUSHL":
            pos += 3
        elif it[0] == "LABEL":
            labels[it[1]] = pos
            pos += 1
    out = bytearray()
    for it in prog:
        if isinstance(it, str):
            out.append(OPS[it])
        elif it[0] == "PUSH":
            out.append(0x5F + it[1])
            out += int(it[2]).to_bytes(it[1], "big")
        elif it[0] == "PUSHL":
            out.append(0x61)
            out += labels[it[1]].to_bytes(2, "big")
        elif it[0] == "LABEL":
            out.append(0x5B)
    return bytes(out)


def sel(sig):
    # any 4 bytes work as long as bytecode and methodIdentifiers agree
    return hashlib.sha256(sig.encode()).digest()[:4]


def dispatcher(funcs):
    prog = [("PUSH", 1, 0), "CALLDATALOAD", ("PUSH", 1, 0xE0), "SHR"]
    for i, (sig, _) in enumerate(funcs):
        prog += ["DUP1", ("PUSH", 4, int.from_bytes(sel(sig), "big")), "EQ"]
        prog += [("PUSHL", f"f{i}"), "JUMPI"]
    prog += [("PUSH", 1, 0), ("PUSH", 1, 0), "REVERT"]
    for i, (_, body) in enumerate(funcs):
        prog += [("LABEL", f"f{i}")] + body
    return asm(prog)


def abi_item(sig):
    name, rest = sig.split("(")
    types = [t for t in rest.rstrip(")").split(",") if t]
    return {
        "type": "function",
        "name": name,
        "inputs": [{"name": f"a{i}", "type": t} for i, t in enumerate(types)],
        "outputs": [],
        "stateMutability": "nonpayable",
    }


def contract_json(sigs):
    return {
        "abi": [abi_item(s) for s in sigs],
        "methodIdentifiers": {s: sel(s).hex() for s in sigs},
    }



# --------------------------------------------------------------------------- the target
# contract Target { uint256 s;
#   function set(uint256 x, uint256 y) external { require(x + y == 10); s = x; if (y == 3) return; if (y == 4) return; revert(); } }
# (the revert undoes the store on the third path; the two returning paths store the same term x under disjoint constraints)

SET = [
    ("PUSH", 1, 36), "CALLDATALOAD",            # y
    ("PUSH", 1, 4), "CALLDATALOAD",             # x y
    "DUP2", "DUP2", "ADD", ("PUSH", 1, 10), "EQ", ("PUSHL", "ok"), "JUMPI",
    ("PUSH", 1, 0), ("PUSH", 1, 0), "REVERT",
    ("LABEL", "ok"), ("PUSH", 1, 0), "SSTORE",   # s = x      stack: y
    "DUP1", ("PUSH", 1, 3), "EQ", ("PUSHL", "done"), "JUMPI",
    "DUP1", ("PUSH", 1, 4), "EQ", ("PUSHL", "done"), "JUMPI",
    ("PUSH", 1, 0), ("PUSH", 1, 0), "REVERT",
    ("LABEL", "done"), "STOP",
]  # fmt: skip
TARGET_SIGS = ["set(uint256,uint256)"]
TARGET_CODE = dispatcher([("set(uint256,uint256)", SET)])


def frontier_states(depth=1):
    args = default_config()
    target_json = contract_json(TARGET_SIGS)
    test_json = contract_json(["invariant_ok()"])
    build_out_map = {"Target.sol": {"Target": (target_json, "contract", None)}, "T.sol": {"T": (test_json, "contract", None)}}
    BuildOut().set_build_out(build_out_map)
    tgt = con_addr(0xAAAA0001)
    test_code = Contract(b"\x00")
    test_code.contract_name, test_code.filename = "T", "T.sol"
    target_code = Contract(TARGET_CODE)
    target_code.contract_name, target_code.filename = "Target", "Target.sol"
    sevm = SEVM(args, FunctionInfo("T", "setUp", "setUp()", "0a9254e4"))
    message = Message(target=FOUNDRY_TEST, caller=FOUNDRY_CALLER, origin=FOUNDRY_ORIGIN, value=0, data=ByteVec(), call_scheme=EVM.CALL)
    setup_ex = sevm.mk_exec(
        code={FOUNDRY_TEST: test_code, tgt: target_code},
        storage={FOUNDRY_TEST: sevm.mk_storagedata(), tgt: sevm.mk_storagedata()},
        transient_storage={FOUNDRY_TEST: sevm.mk_storagedata(), tgt: sevm.mk_storagedata()},
        balance=EMPTY_BALANCE, block=mk_block(), context=CallContext(message=message), pgm=test_code, path=Path(mk_solver(args)),
    )
    setup_ex.path_slice()
    ctx = ContractContext(args=args, name="T", funsigs=["invariant_ok()"], creation_hexcode="", deployed_hexcode="00", abi={}, method_identifiers=test_json["methodIdentifiers"],
                          contract_json=test_json, libs={}, build_out_map=build_out_map)
    ctx.frontier_states[0] = [setup_ex]
    ctx.visited.add(get_state_id(setup_ex))
    explored = {d: list(get_frontier(ctx, d)) for d in range(depth + 1)}
    return tgt, explored


def missing_states():
    """concrete states (value of s) reachable by one call set(x, y) that no explored frontier state admits"""
    tgt, explored = frontier_states(1)

    def admits(ex, sval):
        solver = Solver()
        for cond in ex.path.conditions:
            solver.add(cond)
        term = ex.storage[tgt]._mapping.get((0, 0, 0))
        term = BitVecVal(0, 256) if term is None else term
        solver.add(term == BitVecVal(sval, 256))
        return solver.check() == sat

    want = {7: "set(7, 3)", 6: "set(6, 4)"}
    return {call: s for s, call in want.items() if not any(admits(ex, s) for d in explored for ex in explored[d])}, {d: len(v) for d, v in explored.items()}


if __name__ == "__main__":
    miss, counts = missing_states()
    print(counts, miss)
    sys.exit(1 if miss else 0)
