"""C01 — every reported execution path is a real EVM behaviour: per-step refinement contracts.

What is under contract here (the whole-program simulation theorem is NOT claimed, see ASSUMPTIONS):
every dispatch arm of SEVM.run that is not already under contract elsewhere (word instructions: C06;
storage: C08; calls/creations/logs in static frames: C09; jumps: C02/C19) is executed from the AST on
a real Exec whose stack holds symbolic words (all 2^256 values, int-backed and term-backed
representations) and whose byte sequences (memory, calldata, returndata) are *ghost flat arrays*
standing for the ByteVec contract proved in C07.  For each arm the Yellow-Paper step is the
postcondition:

   stack'   = the specified pops and pushes (the untouched part by identity),
   memory'  = exactly the specified primitive (write word / write byte / copy range / nothing),
   pushed   = the specified environment value, memory word, size, hash term,
   halting  = output data, error kind and return scheme of STOP / RETURN / REVERT / INVALID,
   failure  = stack underflow, stack overflow, out-of-bounds returndata read => exceptional halt,
   pc'      = pc + 1 + operand length (loop tail; decode itself is C19's),
   finalize = the end state is yielded (top level) or handed to the frame's callback, exactly once.

Because the post-state terms are compared with spec terms as valid formulas, the equality holds under
every valuation of the symbols, which is the per-step form of "each concrete assignment drives the
concrete EVM to the same state".
"""
from __future__ import annotations

import ast

import z3

from contracts.c06 import den_word, mk_word, word_inv
from contracts.common import CALLER, CALLVALUE, ORIGIN, THIS, mk_ex, mk_sevm
from pyvc import loader
from pyvc.interp import _ENGINE, Env, PathEnd
from pyvc.pack import Case
from pyvc.sym import SymInt, iexpr, is_sym

loader.import_repo()
import halmos.bitvec as hb  # noqa: E402
import halmos.sevm as hs  # noqa: E402
from halmos.bytevec import ByteVec  # noqa: E402
from halmos.exceptions import EvmException, HalmosException, NotConcreteError, OutOfBoundsRead, OutOfGasError, StackUnderflowError  # noqa: E402

PROP = "C01"
RUN_SRC = ("halmos.sevm:SEVM.run",)
MAXMEM = hs.MAX_MEMORY_SIZE


class NS:
    def __init__(self, **kw):
        self.__dict__.update(kw)


def ie(x):
    return iexpr(x) if (is_sym(x) or isinstance(x, int)) else x


# ---------------------------------------------------------------------------------------
# ghost flat byte arrays (the contract of ByteVec, proved in the C07 pack)


class GBytes:
    """a flat zero-extended byte array known only through its contract; every operation is logged"""

    ghost_of = ByteVec

    def __init__(self, name, log, length=None):
        self.name = name
        self.log = log
        self.version = 0
        self._len = length

    def _tag(self):
        return f"{self.name}@{self.version}"

    def glen(self):
        if self._len is not None:
            return self._len
        n = SymInt(z3.Int(f"len_{self._tag()}"))
        from pyvc.interp import Interp

        Interp.current.ctx.assume(n.e >= 0)
        return n

    def __bool__(self):
        from pyvc.interp import Interp

        return Interp.current.truth(Interp.current.compare(ast.Gt, self.glen(), 0))

    def get_word(self, loc):
        self.log.append(("get_word", self, self.version, loc))
        f = z3.Function(f"word_{self._tag()}", z3.IntSort(), z3.BitVecSort(256))
        return f(ie(loc))

    def get_byte(self, loc):
        self.log.append(("get_byte", self, self.version, loc))
        f = z3.Function(f"byte_{self._tag()}", z3.IntSort(), z3.BitVecSort(8))
        return f(ie(loc))

    def set_word(self, loc, val):
        self.log.append(("set_word", self, self.version, loc, val))
        self.version += 1

    def set_byte(self, loc, val):
        self.log.append(("set_byte", self, self.version, loc, val))
        self.version += 1

    def slice(self, start, stop):
        r = GSlice(self, self.version, start, stop, self.log)
        self.log.append(("slice", self, self.version, start, stop, r))
        return r

    def set_slice(self, start, stop, value):
        self.log.append(("set_slice", self, self.version, start, stop, value))
        self.version += 1

    def copy(self):
        self.log.append(("copy", self, self.version))
        return self


class GSlice(GBytes):
    """the bytes [start, stop) of a ghost array at one of its versions (zero beyond its end)"""

    def __init__(self, of, version, start, stop, log):
        super().__init__(f"{of.name}@{version}[..]", log)
        self.of, self.of_version, self.start, self.stop = of, version, start, stop

    def glen(self):
        if not (is_sym(self.start) or is_sym(self.stop)):
            return self.stop - self.start
        d = z3.simplify(ie(self.stop) - ie(self.start))
        return d.as_long() if z3.is_int_value(d) else SymInt(d)

    def unwrap(self):
        n = self.glen()
        if is_sym(n):
            from pyvc.sym import EngineError

            raise EngineError("unwrap of a ghost slice of symbolic length")
        self.log.append(("unwrap", self))
        if n == 0:
            return b""
        f = z3.Function(f"bytes{n}_{self.of.name}@{self.of_version}", z3.IntSort(), z3.BitVecSort(8 * n))
        return f(ie(self.start))

    def concretize(self, subst):
        self.log.append(("concretize", self))
        return self


def install_ghosts(interp):
    interp.externals[("len", GBytes)] = lambda i, v: v.glen()
    interp.externals[("len", GSlice)] = lambda i, v: v.glen()


def is_slice_of(x, of, version, start, stop):
    """(python flag, z3 condition): x is the ghost slice [start, stop) of `of` at `version`"""
    if not (isinstance(x, GSlice) and x.of is of and x.of_version == version):
        return False, z3.BoolVal(False)
    return True, z3.And(ie(x.start) == ie(start), ie(x.stop) == ie(stop))


# ---------------------------------------------------------------------------------------
# harness core


def dispatch_chain():
    sf, fn = loader.find_unit("halmos.sevm:SEVM.run")
    return fn, loader.find_dispatch_arm(fn, "OP_PUSH1")


def select_arm(interp, first, env):
    node = first
    while True:
        if interp.truth(interp.eval(node.test, env)):
            return node.body
        if len(node.orelse) == 1 and isinstance(node.orelse[0], ast.If):
            node = node.orelse[0]
            continue
        return node.orelse


class Step:
    """one instruction on a real Exec: base stack of markers, operands on top, ghost byte arrays"""

    def __init__(self, interp, code, operands=(), base=3, pc=0, returndata=None, calldata_len=None, **exkw):
        self.interp = interp
        ctx = self.ctx = interp.ctx
        install_ghosts(interp)
        self.sevm = mk_sevm()
        self.log = []
        self.calldata = GBytes("calldata", self.log, length=calldata_len)
        self.ex = ex = mk_ex(self.sevm, code, data=self.calldata, **exkw)
        self.mem = GBytes("memory", self.log)
        object.__setattr__(ex.st, "memory", self.mem)
        self.markers = [hb.HalmosBitVec(z3.BitVec(f"base{k}", 256)) for k in range(base)]
        ex.st.stack.extend(self.markers)
        self.ops = list(operands)
        for o in reversed(self.ops):
            ex.st.stack.append(o)
        if pc:
            ex.pc = pc
        ex.fetch_instruction()
        self.fin = []
        self.worklist = hs.Worklist()
        self.returndata = returndata

    def run(self):
        interp, ex = self.interp, self.ex

        def finalize(e):
            self.fin.append(e)
            return ["<finalized>"]

        fn, first = dispatch_chain()
        env = Env({"self": self.sevm, "ex": ex, "state": ex.st, "insn": ex.insn, "opcode": ex.insn.opcode, "stack": self.worklist, "finalize": finalize}, None, hs.__dict__)
        body = select_arm(interp, first, env)
        if self.returndata is not None:
            rd = self.returndata
            interp.contracts["halmos.sevm:Exec.returndata"] = lambda i, a, k: rd
        self.kind, self.payload, self.yields = interp.exec_fragment(body, env, qual="halmos.sevm:SEVM.run#arm")
        return self.kind

    # -- obligations shared by all arms
    def rest(self):
        """the part of the stack below the operands is untouched (by identity)"""
        st = self.ex.st.stack
        n = len(self.markers)
        return len(st) >= n and all(a is b for a, b in zip(st[:n], self.markers))

    def pushed(self):
        return self.ex.st.stack[len(self.markers):]

    def expect_continue(self, npush, what="the instruction"):
        ctx = self.ctx
        if self.kind == "raise":
            ctx.oblige(f"no-exception[{type(self.payload).__name__}]", z3.BoolVal(False), info={"msg": str(self.payload)[:200]})
            return False
        ctx.oblige(f"{what} falls through to the pc advance and yields nothing", z3.BoolVal(self.kind == "fallthrough" and not self.yields and not self.fin), info={"kind": self.kind})
        ok = self.rest() and len(self.pushed()) == npush
        ctx.oblige(f"stack: operands popped, {npush} pushed, the rest untouched", z3.BoolVal(ok), info={"depth": len(self.ex.st.stack)})
        ctx.oblige("frame: pc is not changed by the arm", z3.BoolVal(self.ex.pc == (self.ex.insn.pc if hasattr(self.ex.insn, "pc") else self.ex.pc)))
        return ok

    def no_memory_effect(self):
        writes = [e for e in self.log if e[0] in ("set_word", "set_byte", "set_slice")]
        self.ctx.oblige("memory, calldata and returndata are not written", z3.BoolVal(not writes), info={"log": str([e[0] for e in self.log])})

    def halted(self):
        return self.ex.context.output


def int_word(ctx, name, upper=None):
    w = mk_word(ctx, name, "int")
    if upper is not None:
        ctx.assume(w._value.e <= upper)
    return w


def guard_engine(fn):
    def wrapped(interp, *a, **k):
        return fn(interp, *a, **k)

    return wrapped


# ---------------------------------------------------------------------------------------
# stack instructions


def stack_cases():
    out = []
    PAT = bytes((37 * i + 11) % 256 for i in range(32))

    for n in list(range(1, 33)):
        for label, data in (("pattern", PAT[:n]), ("zeros", bytes(n)), ("ones", b"\xff" * n)):

            def harness(interp, n=n, data=data):
                s = Step(interp, bytes([0x5F + n]) + data + b"\x00")
                s.run()
                if not s.expect_continue(1, f"PUSH{n}"):
                    return
                top = s.pushed()[0]
                word_inv(s.ctx, top)
                s.ctx.oblige(f"PUSH{n} pushes its {n} operand bytes as a big-endian word", den_word(top) == z3.BitVecVal(int.from_bytes(data, "big"), 256))
                s.no_memory_effect()

            out.append(Case(f"{PROP}/sevm.SEVM.run#PUSH", f"PUSH{n} {label}", harness, replay=replay_code(bytes([0x5F + n]) + data + bytes([0x60, 0x60, hs.OP_MSTORE]) + DUMP), sources=RUN_SRC))

    def harness_push32_keccak(interp):
        s = Step(interp, bytes([0x7F]) + hs.EMPTY_KECCAK.to_bytes(32, "big") + b"\x00")
        n0 = len(s.ex.path.conditions)
        s.run()
        if not s.expect_continue(1, "PUSH32 keccak('')"):
            return
        s.ctx.oblige("PUSH32 of the empty-input hash constant pushes a word equal to that constant", den_word(s.pushed()[0]) == z3.BitVecVal(hs.EMPTY_KECCAK, 256))
        new = list(s.ex.path.conditions)[n0:]
        s.ctx.oblige("the only facts added are about the hash function (standard interpretation of keccak)", z3.BoolVal(all("sha3" in str(c) for c in new)), info={"new": str(new)[:200]})

    out.append(Case(f"{PROP}/sevm.SEVM.run#PUSH", "PUSH32 of keccak256('')", harness_push32_keccak, sources=RUN_SRC))

    def harness_push0(interp):
        s = Step(interp, bytes([hs.OP_PUSH0, 0]))
        s.run()
        if s.expect_continue(1, "PUSH0"):
            s.ctx.oblige("PUSH0 pushes zero", den_word(s.pushed()[0]) == 0)
            s.no_memory_effect()

    out.append(Case(f"{PROP}/sevm.SEVM.run#PUSH0", "", harness_push0, sources=RUN_SRC))

    for kind in ("int", "term", "sym"):

        def harness_pop(interp, kind=kind):
            s = Step(interp, bytes([hs.OP_POP, 0]), [mk_word(interp.ctx, "a", kind)])
            s.run()
            if s.expect_continue(0, "POP"):
                s.no_memory_effect()

        out.append(Case(f"{PROP}/sevm.SEVM.run#POP", kind, harness_pop, sources=RUN_SRC))

    def harness_jumpdest(interp):
        s = Step(interp, bytes([hs.OP_JUMPDEST, 0]))
        s.run()
        if s.expect_continue(0, "JUMPDEST"):
            s.no_memory_effect()

    out.append(Case(f"{PROP}/sevm.SEVM.run#JUMPDEST", "", harness_jumpdest, sources=RUN_SRC))

    for n in range(1, 17):

        def harness_dup(interp, n=n):
            ctx = interp.ctx
            ops = [mk_word(ctx, f"w{k}", ("term", "int", "sym")[k % 3]) for k in range(n)]
            s = Step(interp, bytes([hs.OP_DUP1 + n - 1, 0]), ops)
            s.run()
            if s.expect_continue(n + 1, f"DUP{n}"):
                p = s.pushed()  # bottom .. top
                want = list(reversed(ops)) + [ops[n - 1]]
                ctx.oblige(f"DUP{n}: the {n}-th item from the top is duplicated on top, everything else in place", z3.BoolVal(all(a is b for a, b in zip(p, want))))
                s.no_memory_effect()

        out.append(Case(f"{PROP}/sevm.SEVM.run#DUP", f"DUP{n}", harness_dup, replay=replay_arm(hs.OP_DUP1 + n - 1, [f"w{k}" for k in range(n)], 1), sources=RUN_SRC))

        def harness_swap(interp, n=n):
            ctx = interp.ctx
            ops = [mk_word(ctx, f"w{k}", ("term", "int", "sym")[k % 3]) for k in range(n + 1)]
            s = Step(interp, bytes([hs.OP_SWAP1 + n - 1, 0]), ops)
            s.run()
            if s.expect_continue(n + 1, f"SWAP{n}"):
                p = s.pushed()
                want = list(reversed(ops))
                want[0], want[-1] = want[-1], want[0]
                ctx.oblige(f"SWAP{n}: top and the item {n} below it are exchanged, everything else in place", z3.BoolVal(all(a is b for a, b in zip(p, want))))
                s.no_memory_effect()

        out.append(Case(f"{PROP}/sevm.SEVM.run#SWAP", f"SWAP{n}", harness_swap, replay=replay_arm(hs.OP_SWAP1 + n - 1, [f"w{k}" for k in range(n + 1)], 1), sources=RUN_SRC))

    for k in (0, 1, 7, 300):

        def harness_pc(interp, k=k):
            s = Step(interp, bytes([hs.OP_JUMPDEST]) * k + bytes([hs.OP_PC, 0]), pc=k)
            s.run()
            if s.expect_continue(1, "PC"):
                s.ctx.oblige("PC pushes the offset of this instruction", den_word(s.pushed()[0]) == k)

        out.append(Case(f"{PROP}/sevm.SEVM.run#PC", f"at offset {k}", harness_pc, replay=replay_arm(hs.OP_PC, [], 1, bytes([hs.OP_JUMPDEST]) * k), sources=RUN_SRC))
    return out


# ---------------------------------------------------------------------------------------
# stack underflow / overflow

ARITY = {
    "POP": (hs.OP_POP, 1), "MLOAD": (hs.OP_MLOAD, 1), "MSTORE": (hs.OP_MSTORE, 2), "MSTORE8": (hs.OP_MSTORE8, 2), "MCOPY": (hs.OP_MCOPY, 3),
    "CALLDATACOPY": (hs.OP_CALLDATACOPY, 3), "CODECOPY": (hs.OP_CODECOPY, 3), "RETURNDATACOPY": (hs.OP_RETURNDATACOPY, 3), "SHA3": (hs.OP_SHA3, 2),
    "BALANCE": (hs.OP_BALANCE, 1), "BLOCKHASH": (hs.OP_BLOCKHASH, 1), "RETURN": (hs.OP_RETURN, 2), "REVERT": (hs.OP_REVERT, 2),
    "DUP3": (hs.OP_DUP1 + 2, 3), "SWAP2": (hs.OP_SWAP1 + 1, 3), "LOG2": (hs.OP_LOG0 + 2, 4), "JUMP": (hs.OP_JUMP, 1), "SLOAD": (hs.OP_SLOAD, 1), "SSTORE": (hs.OP_SSTORE, 2),
    "TLOAD": (hs.OP_TLOAD, 1), "TSTORE": (hs.OP_TSTORE, 2),
}
PUSHERS = {"PUSH0": bytes([hs.OP_PUSH0]), "PUSH1": bytes([0x60, 1]), "PUSH32": bytes([0x7F]) + bytes(32), "DUP1": bytes([hs.OP_DUP1]), "DUP16": bytes([hs.OP_DUP1 + 15]), "PC": bytes([hs.OP_PC]), "MSIZE": bytes([hs.OP_MSIZE]),
           "ADDRESS": bytes([hs.OP_ADDRESS]), "CALLER": bytes([hs.OP_CALLER]), "CALLVALUE": bytes([hs.OP_CALLVALUE]), "CALLDATASIZE": bytes([hs.OP_CALLDATASIZE]), "CODESIZE": bytes([hs.OP_CODESIZE]), "GAS": bytes([hs.OP_GAS]),
           "TIMESTAMP": bytes([hs.OP_TIMESTAMP]), "RETURNDATASIZE": bytes([hs.OP_RETURNDATASIZE]), "SELFBALANCE": bytes([hs.OP_SELFBALANCE])}
STACK_LIMIT = 1024


def limit_cases():
    out = []
    for name, (op, arity) in ARITY.items():
        for have in range(arity):

            def harness(interp, op=op, have=have):
                ctx = interp.ctx
                ops = [int_word(ctx, f"w{k}", upper=64) for k in range(have)]
                s = Step(interp, bytes([op, 0]), ops, base=0)
                s.run()
                ok = s.kind == "raise" and isinstance(s.payload, EvmException)
                ctx.oblige("too few stack items: exceptional halt (an EVM exception), nothing reported as success", z3.BoolVal(ok and not s.fin and not s.yields), info={"kind": s.kind, "exc": type(s.payload).__name__ if s.kind == "raise" else ""})

            out.append(Case(f"{PROP}/sevm.SEVM.run#stack-underflow", f"{name} with {have} of {arity}", harness, sources=RUN_SRC + ("halmos.sevm:State.pop", "halmos.sevm:State.peek")))

    for name, code in PUSHERS.items():
        for depth in (STACK_LIMIT, STACK_LIMIT - 1):

            def harness(interp, code=code, depth=depth, name=name):
                ctx = interp.ctx
                s = Step(interp, code + b"\x00", base=depth)
                s.run()
                if depth == STACK_LIMIT:
                    ok = s.kind == "raise" and isinstance(s.payload, EvmException)
                    ctx.oblige("a push onto a full stack (1024 items) is an exceptional halt", z3.BoolVal(ok), info={"kind": s.kind, "depth_after": len(s.ex.st.stack)})
                else:
                    ctx.oblige("a push onto 1023 items succeeds", z3.BoolVal(s.kind == "fallthrough" and len(s.ex.st.stack) == STACK_LIMIT), info={"kind": s.kind, "exc": str(s.payload)[:100]})

            out.append(Case(f"{PROP}/sevm.SEVM.run#stack-limit", f"{name} at depth {depth}", harness, replay=replay_stack_limit, sources=RUN_SRC + ("halmos.sevm:State.push", "halmos.sevm:State.push_any", "halmos.sevm:State.dup")))
    return out


def replay_stack_limit(r):
    sevm = mk_sevm()
    code = bytes([hs.OP_PUSH0]) * 1025 + bytes([hs.OP_STOP])
    ex = mk_ex(sevm, code)
    outs = list(sevm.run(ex))
    o = outs[0].context.output
    if len(outs) == 1 and o.error is None:
        return {"reproduced": True, "detail": f"program PUSH0 x1025; STOP: halmos reports a successful STOP with {len(outs[0].st.stack)} stack items; the EVM halts exceptionally at the 1025th push (stack limit 1024, Yellow Paper 9.4.2)", "inputs": "bytecode 5f*1025 00"}
    return {"reproduced": False, "detail": f"1025 pushes end with {o.error!r}"}


# ---------------------------------------------------------------------------------------
# environment reads


def env_cases():
    out = []
    blk = {"COINBASE": (hs.OP_COINBASE, "coinbase"), "TIMESTAMP": (hs.OP_TIMESTAMP, "timestamp"), "NUMBER": (hs.OP_NUMBER, "number"), "DIFFICULTY": (hs.OP_DIFFICULTY, "difficulty"),
           "GASLIMIT": (hs.OP_GASLIMIT, "gaslimit"), "CHAINID": (hs.OP_CHAINID, "chainid"), "BASEFEE": (hs.OP_BASEFEE, "basefee")}

    def zext(t):
        return z3.ZeroExt(256 - t.size(), t) if t.size() < 256 else t

    for name, (op, field) in blk.items():

        def harness(interp, op=op, field=field, name=name):
            s = Step(interp, bytes([op, 0]))
            v = z3.BitVec(f"block_{field}", 160 if field == "coinbase" else 256)
            setattr(s.ex.block, field, hb.HalmosBitVec(v) if field != "coinbase" else v)
            s.run()
            if s.expect_continue(1, name):
                word_inv(s.ctx, s.pushed()[0])
                s.ctx.oblige(f"{name} pushes the block's {field}", den_word(s.pushed()[0]) == zext(v))
                s.no_memory_effect()

        out.append(Case(f"{PROP}/sevm.SEVM.run#block-reads", name, harness, sources=RUN_SRC))

    msg = {"ADDRESS": (hs.OP_ADDRESS, THIS), "CALLER": (hs.OP_CALLER, CALLER), "ORIGIN": (hs.OP_ORIGIN, ORIGIN), "CALLVALUE": (hs.OP_CALLVALUE, CALLVALUE)}
    for name, (op, term) in msg.items():

        def harness(interp, op=op, term=term, name=name):
            s = Step(interp, bytes([op, 0]))
            s.run()
            if s.expect_continue(1, name):
                word_inv(s.ctx, s.pushed()[0])
                s.ctx.oblige(f"{name} pushes the frame's {name.lower()} (zero-extended)", den_word(s.pushed()[0]) == zext(term))
                s.no_memory_effect()

        out.append(Case(f"{PROP}/sevm.SEVM.run#message-reads", name, harness, replay=replay_arm(op, [], 1), sources=RUN_SRC + ("halmos.sevm:Exec.this", "halmos.sevm:Exec.caller", "halmos.sevm:Exec.origin", "halmos.sevm:Exec.callvalue")))

    def harness_cdsize(interp):
        s = Step(interp, bytes([hs.OP_CALLDATASIZE, 0]))
        n = s.calldata.glen()
        s.calldata._len = n
        interp.ctx.assume(n.e < 2**256)
        s.run()
        if s.expect_continue(1, "CALLDATASIZE"):
            word_inv(s.ctx, s.pushed()[0])
            s.ctx.oblige("CALLDATASIZE pushes the length of the frame's calldata", den_word(s.pushed()[0]) == z3.Int2BV(n.e, 256))

    out.append(Case(f"{PROP}/sevm.SEVM.run#message-reads", "CALLDATASIZE", harness_cdsize, replay=replay_arm(hs.OP_CALLDATASIZE, [], 1), sources=RUN_SRC + ("halmos.sevm:Exec.calldata",)))

    def harness_cdsize_create(interp):
        s = Step(interp, bytes([hs.OP_CALLDATASIZE, 0]), scheme=hs.OP_CREATE)
        s.run()
        if s.expect_continue(1, "CALLDATASIZE"):
            s.ctx.oblige("inside a creation frame the calldata is empty", den_word(s.pushed()[0]) == 0)

    out.append(Case(f"{PROP}/sevm.SEVM.run#message-reads", "CALLDATASIZE in a creation frame", harness_cdsize_create, sources=RUN_SRC + ("halmos.sevm:Exec.calldata",)))

    for k in (1, 2, 77):

        def harness_codesize(interp, k=k):
            s = Step(interp, bytes([hs.OP_CODESIZE]) + bytes(k - 1))
            s.run()
            if s.expect_continue(1, "CODESIZE"):
                s.ctx.oblige("CODESIZE pushes the length of the running code", den_word(s.pushed()[0]) == k)

        out.append(Case(f"{PROP}/sevm.SEVM.run#message-reads", f"CODESIZE of {k} bytes", harness_codesize, replay=replay_arm(hs.OP_CODESIZE, [], 1), sources=RUN_SRC))

    def harness_rdsize(interp):
        rd = GBytes("returndata", [])
        n = rd.glen()
        rd._len = n
        interp.ctx.assume(n.e < 2**256)
        s = Step(interp, bytes([hs.OP_RETURNDATASIZE, 0]), returndata=rd)
        s.run()
        if s.expect_continue(1, "RETURNDATASIZE"):
            word_inv(s.ctx, s.pushed()[0])
            s.ctx.oblige("RETURNDATASIZE pushes the length of the last sub-call's output", den_word(s.pushed()[0]) == z3.Int2BV(n.e, 256))

    out.append(Case(f"{PROP}/sevm.SEVM.run#message-reads", "RETURNDATASIZE", harness_rdsize, sources=RUN_SRC + ("halmos.sevm:Exec.returndatasize",)))

    for name, op in (("SELFBALANCE", hs.OP_SELFBALANCE), ("BALANCE", hs.OP_BALANCE)):
        for kind in (("term", "int") if name == "BALANCE" else ("-",)):

            def harness_bal(interp, op=op, name=name, kind=kind):
                ctx = interp.ctx
                ops = [mk_word(ctx, "a", kind)] if name == "BALANCE" else []
                s = Step(interp, bytes([op, 0]), ops)
                bal0 = s.ex.balance
                n0 = len(s.ex.path.conditions)
                s.run()
                if not s.expect_continue(1, name):
                    return
                addr = z3.Extract(159, 0, den_word(ops[0])) if ops else THIS
                conds = z3.And(*[c for c in list(s.ex.path.conditions)[n0:]]) if len(s.ex.path.conditions) > n0 else z3.BoolVal(True)
                ctx.oblige(f"{name} pushes the balance of the (160-bit) address in the current world state", z3.Implies(conds, den_word(s.pushed()[0]) == z3.Select(bal0, addr)))
                ctx.oblige("the world state is not changed by reading a balance", z3.BoolVal(s.ex.balance is bal0))
                s.no_memory_effect()

            out.append(Case(f"{PROP}/sevm.SEVM.run#balance-reads", f"{name} {kind}", harness_bal, sources=RUN_SRC + ("halmos.sevm:Exec.balance_of",)))

    def harness_gas(interp):
        s = Step(interp, bytes([hs.OP_GAS, 0]))
        s.run()
        if s.expect_continue(1, "GAS"):
            t = den_word(s.pushed()[0])
            s.ctx.oblige("GAS pushes an unconstrained word (gas is not modelled; a fresh application of f_gas)", z3.BoolVal(z3.is_app(t) and t.decl().name() == "f_gas"))
            s.no_memory_effect()
        s2 = Step(interp, bytes([hs.OP_GASPRICE, 0]))
        s2.run()
        if s2.expect_continue(1, "GASPRICE"):
            t = den_word(s2.pushed()[0])
            s2.ctx.oblige("GASPRICE pushes the transaction-wide constant f_gasprice", z3.BoolVal(t.decl().name() == "f_gasprice"))

    out.append(Case(f"{PROP}/sevm.SEVM.run#gas-reads", "GAS, GASPRICE", harness_gas, sources=RUN_SRC))

    def harness_blockhash(interp):
        a = mk_word(interp.ctx, "a", "term")
        s = Step(interp, bytes([hs.OP_BLOCKHASH, 0]), [a])
        s.run()
        if s.expect_continue(1, "BLOCKHASH"):
            s.ctx.oblige("BLOCKHASH pushes a function of the block number only", den_word(s.pushed()[0]) == hs.f_blockhash(den_word(a)))

    out.append(Case(f"{PROP}/sevm.SEVM.run#block-reads", "BLOCKHASH", harness_blockhash, sources=RUN_SRC))
    return out


# ---------------------------------------------------------------------------------------
# memory instructions (ghost flat arrays)


def mem_loc(ctx, name):
    return int_word(ctx, name)


def memory_cases():
    out = []

    for vkind in ("term", "int", "sym"):

        def harness_mstore(interp, vkind=vkind):
            ctx = interp.ctx
            loc, val = mem_loc(ctx, "loc"), mk_word(ctx, "val", vkind)
            s = Step(interp, bytes([hs.OP_MSTORE, 0]), [loc, val])
            s.run()
            L = loc._value.e
            if s.kind == "raise":
                ctx.oblige("MSTORE fails only for an offset beyond the memory limit (out of gas), writing nothing", z3.And(L > MAXMEM, z3.BoolVal(isinstance(s.payload, OutOfGasError) and not s.log)), info={"exc": type(s.payload).__name__, "msg": str(s.payload)[:100]})
                return
            if not s.expect_continue(0, "MSTORE"):
                return
            ok = len(s.log) == 1 and s.log[0][0] == "set_word" and s.log[0][1] is s.mem
            ctx.oblige("MSTORE is exactly one 32-byte big-endian write to memory", z3.BoolVal(ok), info={"log": str([e[0] for e in s.log])})
            if ok:
                _, _, _, at, v = s.log[0]
                ctx.oblige("MSTORE writes the second operand at the offset given by the first", z3.And(ie(at) == L, den_word(v) == den_word(val), L <= MAXMEM))

        out.append(Case(f"{PROP}/sevm.SEVM.run#MSTORE", f"value {vkind}", harness_mstore, replay=replay_arm(hs.OP_MSTORE, ["loc", "val"], 0, MEM_PREFIX), sources=RUN_SRC + ("halmos.sevm:State.mloc",)))

        def harness_mstore8(interp, vkind=vkind):
            ctx = interp.ctx
            loc, val = mem_loc(ctx, "loc"), mk_word(ctx, "val", vkind)
            s = Step(interp, bytes([hs.OP_MSTORE8, 0]), [loc, val])
            s.run()
            L = loc._value.e
            if s.kind == "raise":
                ctx.oblige("MSTORE8 fails only for an offset beyond the memory limit (out of gas), writing nothing", z3.And(L > MAXMEM, z3.BoolVal(isinstance(s.payload, OutOfGasError) and not s.log)))
                return
            if not s.expect_continue(0, "MSTORE8"):
                return
            ok = len(s.log) == 1 and s.log[0][0] == "set_byte" and s.log[0][1] is s.mem
            ctx.oblige("MSTORE8 is exactly one single-byte write to memory", z3.BoolVal(ok), info={"log": str([e[0] for e in s.log])})
            if ok:
                _, _, _, at, v = s.log[0]
                from contracts.c06 import den_bv

                vb = den_bv(v, 8) if isinstance(v, (hb.HalmosBitVec, hb.HalmosBool)) else (z3.BitVecVal(v, 8) if isinstance(v, int) else v)
                ctx.oblige("MSTORE8 writes the low byte of the second operand at the offset given by the first", z3.And(ie(at) == L, vb == z3.Extract(7, 0, den_word(val))))

        out.append(Case(f"{PROP}/sevm.SEVM.run#MSTORE8", f"value {vkind}", harness_mstore8, replay=replay_arm(hs.OP_MSTORE8, ["loc", "val"], 0, MEM_PREFIX), sources=RUN_SRC))

    def harness_mload(interp):
        ctx = interp.ctx
        loc = mem_loc(ctx, "loc")
        s = Step(interp, bytes([hs.OP_MLOAD, 0]), [loc])
        s.run()
        L = loc._value.e
        if s.kind == "raise":
            ctx.oblige("MLOAD fails only for an offset beyond the memory limit (out of gas)", z3.And(L > MAXMEM, z3.BoolVal(isinstance(s.payload, OutOfGasError))))
            return
        if not s.expect_continue(1, "MLOAD"):
            return
        ok = len(s.log) == 1 and s.log[0][0] == "get_word" and s.log[0][1] is s.mem
        ctx.oblige("MLOAD is exactly one 32-byte read of memory", z3.BoolVal(ok), info={"log": str([e[0] for e in s.log])})
        word_inv(ctx, s.pushed()[0])
        ctx.oblige("MLOAD pushes the big-endian word of the 32 memory bytes at the offset", den_word(s.pushed()[0]) == s.mem.__class__.get_word(NS(log=[], version=0, _tag=lambda: "memory@0"), loc._value))
        s.no_memory_effect()

    out.append(Case(f"{PROP}/sevm.SEVM.run#MLOAD", "all offsets", harness_mload, replay=replay_arm(hs.OP_MLOAD, ["loc"], 1, MEM_PREFIX), sources=RUN_SRC))

    for ntopics in (0, 2):

        def harness_log(interp, ntopics=ntopics):
            ctx = interp.ctx
            loc, size = mem_loc(ctx, "loc"), mem_loc(ctx, "size")
            topics = [mk_word(ctx, f"t{k}", "term") for k in range(ntopics)]
            s = Step(interp, bytes([hs.OP_LOG0 + ntopics, 0]), [loc, size] + topics)
            n0 = len(s.ex.context.trace)
            s.run()
            L, N = loc._value.e, size._value.e
            if s.kind == "raise":
                ctx.oblige("LOG fails only when a non-empty range exceeds the memory limit (out of gas): a zero-size range does not touch memory", z3.And(N > 0, L + N > MAXMEM, z3.BoolVal(isinstance(s.payload, OutOfGasError))), info={"exc": type(s.payload).__name__, "msg": str(s.payload)[:100]})
                return
            if not s.expect_continue(0, "LOG"):
                return
            new = s.ex.context.trace[n0:]
            ok = len(new) == 1 and isinstance(new[0], hs.EventLog) and len(new[0].topics) == ntopics and all(a is b for a, b in zip(new[0].topics, topics))
            ctx.oblige("LOG records exactly one event with its topics in stack order", z3.BoolVal(ok))
            if ok:
                d = new[0].data
                if isinstance(d, GSlice):
                    flag, cond = is_slice_of(d, s.mem, 0, loc._value, SymInt(L + N))
                    ctx.oblige("LOG: the event data is memory[offset, offset+size) (zero beyond the end of memory)", z3.And(z3.BoolVal(flag), cond))
                else:
                    ctx.oblige("LOG: the event data is empty only for size 0", z3.And(N == 0, z3.BoolVal(isinstance(d, ByteVec) and len(d) == 0)))
            s.no_memory_effect()

        out.append(Case(f"{PROP}/sevm.SEVM.run#LOG", f"{ntopics} topic(s), all offsets and sizes", harness_log, replay=replay_code(bytes([0x5F] * ntopics + [0x5F, 0x62, 0x30, 0x00, 0x01, hs.OP_LOG0 + ntopics, 0x00])), sources=RUN_SRC + ("halmos.sevm:State.mslice",)))

    def harness_mload_symbolic(interp):
        ctx = interp.ctx
        s = Step(interp, bytes([hs.OP_MLOAD, 0]), [mk_word(ctx, "loc", "term")])
        s.run()
        ctx.oblige("a symbolic memory offset is an unsupported feature (the path ends stuck and flagged), never a guessed value", z3.BoolVal(s.kind == "raise" and isinstance(s.payload, NotConcreteError) and isinstance(s.payload, HalmosException)))

    out.append(Case(f"{PROP}/sevm.SEVM.run#MLOAD", "symbolic offset", harness_mload_symbolic, sources=RUN_SRC))

    def harness_msize(interp):
        ctx = interp.ctx
        s = Step(interp, bytes([hs.OP_MSIZE, 0]))
        n = s.mem.glen()
        s.mem._len = n
        ctx.assume(n.e <= 2 * MAXMEM)
        s.run()
        if s.expect_continue(1, "MSIZE"):
            from contracts.c06 import den_int

            word_inv(ctx, s.pushed()[0])
            r = den_int(s.pushed()[0])
            ctx.oblige("MSIZE pushes a concrete (int-backed) word", z3.BoolVal(r is not None))
            if r is not None:
                ctx.oblige("MSIZE pushes the memory length rounded up to a multiple of 32", z3.And(r >= n.e, r < n.e + 32, r % 32 == 0))
            s.no_memory_effect()

    out.append(Case(f"{PROP}/sevm.SEVM.run#MSIZE", "all lengths", harness_msize, replay=replay_arm(hs.OP_MSIZE, [], 1, MEM_PREFIX + push(0x99) + bytes([0x60, 0x45, hs.OP_MSTORE8])), sources=RUN_SRC))

    def harness_mcopy(interp):
        ctx = interp.ctx
        dst, src, size = mem_loc(ctx, "dst"), mem_loc(ctx, "src"), mem_loc(ctx, "size")
        s = Step(interp, bytes([hs.OP_MCOPY, 0]), [dst, src, size])
        s.run()
        D, S, N = dst._value.e, src._value.e, size._value.e
        if s.kind == "raise":
            ctx.oblige("MCOPY fails only when a range exceeds the memory limit (out of gas), writing nothing", z3.And(N > 0, z3.Or(S + N > MAXMEM, D + N > MAXMEM), z3.BoolVal(isinstance(s.payload, OutOfGasError) and not [e for e in s.log if e[0].startswith("set")])))
            return
        if not s.expect_continue(0, "MCOPY"):
            return
        if not s.log:
            ctx.oblige("MCOPY does nothing only for size 0", N == 0)
            return
        ok = len(s.log) == 2 and s.log[0][0] == "slice" and s.log[1][0] == "set_slice" and s.log[0][1] is s.mem and s.log[1][1] is s.mem
        ctx.oblige("MCOPY reads the source range first, then writes it to the destination (memmove semantics)", z3.BoolVal(ok), info={"log": str([e[0] for e in s.log])})
        if ok:
            _, _, v0, a, b, r = s.log[0]
            _, _, v1, c, d, val = s.log[1]
            ctx.oblige("MCOPY copies [src, src+size) of the memory before the write to [dst, dst+size)", z3.And(ie(a) == S, ie(b) == S + N, ie(c) == D, ie(d) == D + N, z3.BoolVal(val is r and v0 == v1 == 0)))

    out.append(Case(f"{PROP}/sevm.SEVM.run#MCOPY", "all ranges", harness_mcopy, replay=replay_arm(hs.OP_MCOPY, ["dst", "src", "size"], 0, MEM_PREFIX), sources=RUN_SRC + ("halmos.sevm:State.mslice", "halmos.sevm:State.set_mslice")))

    def harness_cdcopy(interp):
        ctx = interp.ctx
        dst, off, size = mem_loc(ctx, "dst"), mem_loc(ctx, "off"), mem_loc(ctx, "size")
        s = Step(interp, bytes([hs.OP_CALLDATACOPY, 0]), [dst, off, size])
        s.run()
        D, F, N = dst._value.e, off._value.e, size._value.e
        if s.kind == "raise":
            ctx.oblige("CALLDATACOPY fails only when the range exceeds the memory limit (out of gas), writing nothing", z3.And(N > 0, z3.Or(N > MAXMEM, D + N > MAXMEM), z3.BoolVal(isinstance(s.payload, OutOfGasError) and not [e for e in s.log if e[0].startswith("set")])))
            return
        if not s.expect_continue(0, "CALLDATACOPY"):
            return
        if not s.log:
            ctx.oblige("CALLDATACOPY does nothing only for size 0", N == 0)
            return
        kinds = [e[0] for e in s.log]
        ok = kinds == ["slice", "concretize", "set_slice"] and s.log[0][1] is s.calldata and s.log[2][1] is s.mem
        ctx.oblige("CALLDATACOPY reads a calldata range (zero beyond its end) and writes it to memory", z3.BoolVal(ok), info={"log": str(kinds)})
        if ok:
            _, _, _, a, b, r = s.log[0]
            _, _, _, c, d, val = s.log[2]
            ctx.oblige("CALLDATACOPY copies calldata[off, off+size) to memory[dst, dst+size)", z3.And(ie(a) == F, ie(b) == F + N, ie(c) == D, ie(d) == D + N, z3.BoolVal(val is r)))

    for off in (0, 5, 40):

        def harness_cdcopy_create(interp, off=off):
            ctx = interp.ctx
            dst = mem_loc(ctx, "dst")
            ctx.assume(dst._value.e + 32 <= MAXMEM)
            s = Step(interp, bytes([hs.OP_CALLDATACOPY, 0]), [dst, hb.HalmosBitVec(off), hb.HalmosBitVec(32)], scheme=hs.OP_CREATE)
            s.run()
            if not s.expect_continue(0, "CALLDATACOPY"):
                return
            reads = [e for e in s.log if e[0] in ("slice", "get_word", "get_byte") and e[1] is s.calldata]
            ctx.oblige("inside a creation frame CALLDATACOPY does not read the init code (a creation has no calldata)", z3.BoolVal(not reads), info={"log": str([e[0] for e in s.log])})
            writes = [e for e in s.log if e[0] == "set_slice" and e[1] is s.mem]
            ok = len(writes) == 1 and isinstance(writes[0][5], ByteVec) and not isinstance(writes[0][5], GBytes) and len(writes[0][5]) == 32 and writes[0][5].unwrap() == bytes(32)
            ctx.oblige("inside a creation frame CALLDATACOPY writes `size` zero bytes at the destination", z3.BoolVal(ok) if not ok else z3.And(ie(writes[0][3]) == dst._value.e, ie(writes[0][4]) == dst._value.e + 32))

        out.append(Case(f"{PROP}/sevm.SEVM.run#CALLDATACOPY", f"creation frame, offset {off}", harness_cdcopy_create, replay=replay_constructor_calldatacopy, sources=RUN_SRC + ("halmos.sevm:Message.calldata_slice",)))

    out.append(Case(f"{PROP}/sevm.SEVM.run#CALLDATACOPY", "all ranges", harness_cdcopy, replay=replay_arm(hs.OP_CALLDATACOPY, ["dst", "off", "size"], 0, MEM_PREFIX), sources=RUN_SRC + ("halmos.sevm:Message.calldata_slice", "halmos.sevm:State.set_mslice")))

    def harness_rdcopy(interp):
        ctx = interp.ctx
        dst, off, size = mem_loc(ctx, "dst"), mem_loc(ctx, "off"), mem_loc(ctx, "size")
        rdlog = []
        rd = GBytes("returndata", rdlog)
        R = rd.glen()
        rd._len = R
        s = Step(interp, bytes([hs.OP_RETURNDATACOPY, 0]), [dst, off, size], returndata=rd)
        rd.log = s.log
        s.run()
        D, F, N = dst._value.e, off._value.e, size._value.e
        oob = F + N > R.e
        wrote = [e for e in s.log if e[0].startswith("set")]
        if s.kind == "raise":
            if isinstance(s.payload, OutOfBoundsRead):
                ctx.oblige("RETURNDATACOPY raises out-of-bounds only when offset+size exceeds the returndata size, writing nothing", z3.And(oob, z3.BoolVal(not wrote)))
            else:
                ctx.oblige("RETURNDATACOPY otherwise fails only beyond the memory limit (out of gas), writing nothing", z3.And(N > 0, D + N > MAXMEM, z3.BoolVal(isinstance(s.payload, OutOfGasError) and not wrote)), info={"exc": type(s.payload).__name__})
            return
        if not s.expect_continue(0, "RETURNDATACOPY"):
            return
        ctx.oblige("RETURNDATACOPY: a read beyond the end of the returndata is an exceptional halt, also for size 0 (EIP-211)", z3.Not(oob))
        if not s.log:
            ctx.oblige("RETURNDATACOPY does nothing only for size 0", N == 0)
            return
        kinds = [e[0] for e in s.log]
        ok = kinds == ["slice", "set_slice"] and s.log[0][1] is rd and s.log[1][1] is s.mem
        ctx.oblige("RETURNDATACOPY reads a returndata range and writes it to memory", z3.BoolVal(ok), info={"log": str(kinds)})
        if ok:
            _, _, _, a, b, r = s.log[0]
            _, _, _, c, d, val = s.log[1]
            ctx.oblige("RETURNDATACOPY copies returndata[off, off+size) to memory[dst, dst+size)", z3.And(ie(a) == F, ie(b) == F + N, ie(c) == D, ie(d) == D + N, z3.BoolVal(val is r)))

    out.append(Case(f"{PROP}/sevm.SEVM.run#RETURNDATACOPY", "all ranges", harness_rdcopy, replay=replay_rdcopy, sources=RUN_SRC))

    for k in (1, 40):

        def harness_codecopy(interp, k=k):
            ctx = interp.ctx
            dst, off, size = mem_loc(ctx, "dst"), mem_loc(ctx, "off"), mem_loc(ctx, "size")
            code = bytes([hs.OP_CODECOPY]) + bytes((i * 7 + 3) % 256 for i in range(k - 1))
            s = Step(interp, code, [dst, off, size])
            sl = []

            def contract_slice(i, a, kw):
                g = GSlice(GBytes("code", s.log), 0, a[1], SymInt(ie(a[1]) + ie(a[2])), s.log)
                sl.append((a[0], a[1], a[2], g))
                return g

            interp.contracts["halmos.contract:Contract.slice"] = contract_slice
            s.run()
            D, F, N = dst._value.e, off._value.e, size._value.e
            if s.kind == "raise":
                ctx.oblige("CODECOPY fails only when the range exceeds the memory limit (out of gas), writing nothing", z3.And(N > 0, D + N > MAXMEM, z3.BoolVal(isinstance(s.payload, OutOfGasError) and not [e for e in s.log if e[0].startswith("set")])), info={"exc": type(s.payload).__name__, "msg": str(s.payload)[:100]})
                return
            if not s.expect_continue(0, "CODECOPY"):
                return
            if not sl and not s.log:
                ctx.oblige("CODECOPY does nothing only for size 0", N == 0)
                return
            ok = len(sl) == 1 and sl[0][0] is s.ex.pgm and [e[0] for e in s.log] == ["set_slice"]
            ctx.oblige("CODECOPY reads one range of the running code and writes it to memory", z3.BoolVal(ok), info={"log": str([e[0] for e in s.log])})
            if ok:
                _, _, _, c, d, val = s.log[0]
                ctx.oblige("CODECOPY copies code[off, off+size) (zero beyond its end) to memory[dst, dst+size)", z3.And(ie(sl[0][1]) == F, ie(sl[0][2]) == N, ie(c) == D, ie(d) == D + N, z3.BoolVal(val is sl[0][3])))

        out.append(Case(f"{PROP}/sevm.SEVM.run#CODECOPY", f"code of {k} bytes, concrete offsets", harness_codecopy, replay=replay_arm(hs.OP_CODECOPY, ["dst", "off", "size"], 0, MEM_PREFIX), sources=RUN_SRC))
    return out


def replay_constructor_calldatacopy(r):
    """a creator deploys init code that copies its `calldata` into the runtime code; the runtime code is then read back"""
    from halmos.mapper import BuildOut

    try:
        BuildOut().set_build_out({})
    except Exception:  # noqa
        pass
    init = bytes([0x60, 0x20, 0x60, 0x00, 0x60, 0x00, hs.OP_CALLDATACOPY, 0x60, 0x20, 0x60, 0x00, hs.OP_RETURN])
    code = bytes([0x6B]) + init + bytes([0x60, 0, hs.OP_MSTORE, 0x60, 12, 0x60, 20, 0x60, 0, 0xF0, 0x60, 32, 0x60, 0, 0x60, 0, 0x83, hs.OP_EXTCODECOPY, 0x60, 32, 0x60, 0, hs.OP_RETURN])
    try:
        outs = run_halmos_concrete(code)
    except Exception as e:  # noqa
        return {"reproduced": None, "detail": f"replay could not run: {type(e).__name__}: {e}"}
    if len(outs) == 1 and outs[0][0] == "return" and outs[0][1] != bytes(32):
        return {"reproduced": True, "detail": f"CREATE with init code `CALLDATACOPY(0,0,32); RETURN(0,32)`, then the deployed code is read back: halmos deploys {outs[0][1].hex() if isinstance(outs[0][1], bytes) else outs[0][1]} (the init code itself); on the EVM a creation frame has empty calldata and the deployed code is 32 zero bytes", "inputs": code.hex()}
    return {"reproduced": False, "detail": f"the constructor's CALLDATACOPY reads zeros ({outs})"}


def replay_rdcopy(r):
    sevm = mk_sevm()
    # RETURNDATACOPY(dst=0, offset=5, size=0) with empty returndata, then STOP
    code = bytes([0x60, 0, 0x60, 5, 0x60, 0, hs.OP_RETURNDATACOPY, hs.OP_STOP])
    ex = mk_ex(sevm, code)
    outs = list(sevm.run(ex))
    o = outs[0].context.output
    if o.error is None:
        return {"reproduced": True, "detail": "program PUSH1 0; PUSH1 5; PUSH1 0; RETURNDATACOPY; STOP (no previous call, returndata empty): halmos reports a successful STOP; the EVM halts exceptionally because offset+size = 5 > RETURNDATASIZE = 0 (EIP-211 applies to size 0 too)", "inputs": "bytecode 6000600560003e00"}
    return {"reproduced": False, "detail": f"zero-size out-of-bounds RETURNDATACOPY ends with {o.error!r}"}


# ---------------------------------------------------------------------------------------
# halting instructions, loop tail, finalize


def halt_cases():
    out = []

    for name, op in (("STOP", hs.OP_STOP), ("INVALID", hs.OP_INVALID)):

        def harness(interp, name=name, op=op):
            ctx = interp.ctx
            s = Step(interp, bytes([op, 0]))
            s.run()
            o = s.halted()
            ok = s.kind == "continue" and s.fin == [s.ex] and s.yields == ["<finalized>"]
            ctx.oblige(f"{name} ends the frame: the end state is finalized exactly once and the loop moves on", z3.BoolVal(ok), info={"kind": s.kind, "payload": str(s.payload)[:100]})
            ctx.oblige(f"{name}: empty output data", z3.BoolVal(isinstance(o.data, ByteVec) and len(o.data) == 0))
            if name == "STOP":
                ctx.oblige("STOP is a success (no error)", z3.BoolVal(o.error is None))
            else:
                ctx.oblige("INVALID is an exceptional halt (an EVM exception, not a revert)", z3.BoolVal(isinstance(o.error, EvmException) and not isinstance(o.error, hs.Revert)))
            ctx.oblige("the return scheme records the halting opcode", z3.BoolVal(o.return_scheme == op))
            ctx.oblige("stack of the ended frame untouched", z3.BoolVal(s.rest() and not s.pushed()))
            s.no_memory_effect()

        out.append(Case(f"{PROP}/sevm.SEVM.run#halt", name, harness, replay=replay_code(MEM_PREFIX + bytes([op])), sources=RUN_SRC + ("halmos.sevm:Exec.halt",)))

    for name, op in (("RETURN", hs.OP_RETURN), ("REVERT", hs.OP_REVERT)):

        def harness(interp, name=name, op=op):
            ctx = interp.ctx
            loc, size = mem_loc(ctx, "loc"), mem_loc(ctx, "size")
            s = Step(interp, bytes([op, 0]), [loc, size])
            s.run()
            L, N = loc._value.e, size._value.e
            if s.kind == "raise":
                ctx.oblige(f"{name} fails only when the range exceeds the memory limit (out of gas)", z3.And(N > 0, L + N > MAXMEM, z3.BoolVal(isinstance(s.payload, OutOfGasError))), info={"exc": type(s.payload).__name__, "msg": str(s.payload)[:100]})
                return
            o = s.halted()
            ok = s.kind == "continue" and s.fin == [s.ex] and s.yields == ["<finalized>"]
            ctx.oblige(f"{name} ends the frame: the end state is finalized exactly once and the loop moves on", z3.BoolVal(ok), info={"kind": s.kind})
            if isinstance(o.data, GSlice):
                flag, cond = is_slice_of(o.data, s.mem, 0, loc._value, SymInt(L + N))
                ctx.oblige(f"{name}: output data is memory[offset, offset+size) (zero beyond the end of memory)", z3.And(z3.BoolVal(flag), cond))
            else:
                ctx.oblige(f"{name}: output data is empty only for size 0", z3.And(N == 0, z3.BoolVal(isinstance(o.data, ByteVec) and len(o.data) == 0)))
            if name == "RETURN":
                ctx.oblige("RETURN is a success (no error)", z3.BoolVal(o.error is None))
            else:
                ctx.oblige("REVERT ends with the Revert error kind", z3.BoolVal(type(o.error) is hs.Revert))
            ctx.oblige("the return scheme records the halting opcode", z3.BoolVal(o.return_scheme == op))
            s.no_memory_effect()

        out.append(Case(f"{PROP}/sevm.SEVM.run#halt", name, harness, replay=replay_arm_raw(op, ["loc", "size"], MEM_PREFIX), sources=RUN_SRC + ("halmos.sevm:Exec.halt", "halmos.sevm:State.ret", "halmos.sevm:State.mslice")))

    def harness_halt_twice(interp):
        ctx = interp.ctx
        s = Step(interp, bytes([hs.OP_STOP, 0]))
        interp.call(hs.Exec.__dict__["halt"], [s.ex], {"data": ByteVec()})
        try:
            interp.call(hs.Exec.__dict__["halt"], [s.ex], {"data": ByteVec(b"\x01")})
            ok = False
        except HalmosException:
            ok = True
        ctx.oblige("an end state is written once: a second halt is refused", z3.BoolVal(ok and len(s.ex.context.output.data) == 0))

    out.append(Case(f"{PROP}/sevm.Exec.halt", "output is write-once", harness_halt_twice, sources=("halmos.sevm:Exec.halt",)))

    # loop tail: ex.advance(pc=insn.next_pc); next_ex = ex
    def harness_tail(interp):
        ctx = interp.ctx
        fn, first = dispatch_chain()
        parent = None
        for n in ast.walk(fn):
            if isinstance(n, ast.Try) and first in n.body:
                parent = n
        if parent is None:
            raise loader.BindingError("dispatch chain is not a statement of the main try block")
        tail = parent.body[parent.body.index(first) + 1:]
        ctx.oblige("after the dispatch chain the loop only advances the pc and keeps the state", z3.BoolVal(len(tail) == 2), info={"tail": [ast.unparse(t)[:60] for t in tail]})
        for opn, code in (("PUSH0", bytes([hs.OP_PUSH0, 0x5B, 0])), ("PUSH1", bytes([0x60, 0xAA, 0x5B, 0])), ("PUSH7", bytes([0x66]) + bytes(7) + bytes([0x5B, 0])), ("PUSH32", bytes([0x7F]) + bytes(32) + bytes([0x5B, 0])), ("ADD", bytes([1, 0x5B, 0])), ("PUSH2 at the end of the code", bytes([0x61, 0xAA]))):
            sevm = mk_sevm()
            ex = mk_ex(sevm, code)
            ex.fetch_instruction()
            insn = ex.insn
            env = Env({"self": sevm, "ex": ex, "insn": insn, "next_ex": None}, None, hs.__dict__)
            kind, payload, yields = interp.exec_fragment(tail, env, qual="halmos.sevm:SEVM.run#tail")
            oplen = 1 + (insn.opcode - 0x5F if 0x60 <= insn.opcode <= 0x7F else 0)
            ctx.oblige(f"tail[{opn}]: pc' = pc + 1 + operand length, the next instruction is decoded there, the same state continues", z3.BoolVal(kind == "fallthrough" and ex.pc == oplen and (ex.insn.pc == oplen or oplen >= len(code)) and env.lookup("next_ex") is ex and not yields), info={"pc": ex.pc, "kind": kind, "exc": str(payload)[:100]})
            if oplen >= len(code):
                ctx.oblige(f"tail[{opn}]: running off the end of the code executes STOP", z3.BoolVal(ex.insn.opcode == hs.OP_STOP))

    out.append(Case(f"{PROP}/sevm.SEVM.run#tail", "pc advance", harness_tail, sources=RUN_SRC + ("halmos.sevm:Exec.advance",)))

    # finalize (nested function of run)
    def harness_finalize(interp):
        ctx = interp.ctx
        fn, _ = dispatch_chain()
        fin = [n for n in fn.body if isinstance(n, ast.FunctionDef) and n.name == "finalize"]
        if len(fin) != 1:
            raise loader.BindingError("finalize not found in SEVM.run")
        wl = hs.Worklist()
        ex = NS(callback=None)
        env = Env({"ex": ex, "stack": wl}, None, hs.__dict__)
        kind, payload, yields = interp.exec_fragment(fin[0].body, env, qual="halmos.sevm:SEVM.run.finalize")
        ctx.oblige("finalize at the top level: the end state itself is yielded exactly once and counted", z3.BoolVal(kind == "fallthrough" and yields == [ex] and wl.completed_paths == 1), info={"kind": kind})
        calls = []
        ex2 = NS(callback=lambda e, st: (calls.append((e, st)), ["<from callback>"])[1])
        wl2 = hs.Worklist()
        env = Env({"ex": ex2, "stack": wl2}, None, hs.__dict__)
        kind, payload, yields = interp.exec_fragment(fin[0].body, env, qual="halmos.sevm:SEVM.run.finalize")
        ctx.oblige("finalize inside a sub-frame: the end state is handed to the frame's callback exactly once, whatever it yields is passed on, the frame itself is not reported", z3.BoolVal(kind == "fallthrough" and calls == [(ex2, wl2)] and yields == ["<from callback>"] and wl2.completed_paths == 0))

    out.append(Case(f"{PROP}/sevm.SEVM.run#finalize", "top level and sub-frame", harness_finalize, sources=RUN_SRC))
    return out


# ---------------------------------------------------------------------------------------
# SHA3

SHA3_SIZES = (0, 1, 4, 32, 64, 85, 128, 129, 200)


def sha3_cases():
    out = []
    for size in SHA3_SIZES:

        def harness(interp, size=size):
            ctx = interp.ctx
            loc = mem_loc(ctx, "loc")
            s = Step(interp, bytes([hs.OP_SHA3, 0]), [loc, hb.HalmosBitVec(size)])
            n0 = len(s.ex.path.conditions)
            s.run()
            L = loc._value.e
            if s.kind == "raise":
                ctx.oblige("SHA3 fails only when the range exceeds the memory limit (out of gas)", z3.And(L + size > MAXMEM, z3.BoolVal(size > 0 and isinstance(s.payload, OutOfGasError))), info={"exc": type(s.payload).__name__, "msg": str(s.payload)[:100]})
                return
            if not s.expect_continue(1, "SHA3"):
                return
            r = den_word(s.pushed()[0])
            if size == 0:
                new = list(s.ex.path.conditions)[n0:]
                facts = z3.And(*new) if new else z3.BoolVal(True)
                ctx.oblige("SHA3 of the empty range is keccak256('') (under the facts recorded about the hash function)", z3.Implies(facts, r == z3.BitVecVal(hs.EMPTY_KECCAK, 256)))
                ctx.oblige("SHA3 of the empty range reads no memory", z3.BoolVal(not s.log))
            else:
                kinds = [e[0] for e in s.log]
                ok = kinds == ["slice", "unwrap"] and s.log[0][1] is s.mem
                ctx.oblige("SHA3 reads exactly one memory range", z3.BoolVal(ok), info={"log": str(kinds)})
                if ok:
                    _, _, _, a, b, g = s.log[0]
                    data = z3.Function(f"bytes{size}_memory@0", z3.IntSort(), z3.BitVecSort(8 * size))(L)
                    f = z3.Function(f"f_sha3_{8 * size}", z3.BitVecSort(8 * size), z3.BitVecSort(256))
                    ctx.oblige("SHA3 hashes memory[offset, offset+size)", z3.And(ie(a) == L, ie(b) == L + size))
                    ctx.oblige("SHA3 pushes the hash function (of that width) applied to exactly those bytes", r == f(data), info={"got": str(r)[:120]})
            new = list(s.ex.path.conditions)[n0:]
            ctx.oblige("the only facts added to the path are about the hash function (range, injectivity, concrete value)", z3.BoolVal(all(("sha3" in str(c)) for c in new)), info={"new": str(new)[:300]})
            s.no_memory_effect()

        out.append(Case(f"{PROP}/sevm.Exec.sha3", f"size {size}", harness, replay=replay_arm_fixed(hs.OP_SHA3, ["loc"], [size], 1, MEM_PREFIX), sources=RUN_SRC + ("halmos.sevm:Exec.sha3", "halmos.sevm:Exec.sha3_data", "halmos.sevm:Exec.sha3_expr", "halmos.sevm:Exec.sha3_hash", "halmos.sevm:Exec.assume_sha3_distinct")))

    import os

    from eth_hash.auto import keccak

    SAMPLES = [b"", b"\x00", b"abc", bytes(32), bytes(range(64)), b"\xfe" + bytes(84), bytes(128), bytes(129)]

    def harness_concrete(interp):
        ctx = interp.ctx
        sevm = mk_sevm()
        for d in SAMPLES:
            ex = mk_ex(sevm, b"\x00")
            n0 = len(ex.path.conditions)
            r = interp.call(hs.Exec.__dict__["sha3_data"], [ex, d], {})
            want = int.from_bytes(keccak(d), "big")
            rz = r.as_z3() if hasattr(r, "as_z3") else r
            ctx.oblige(f"sha3_data[{len(d)} concrete bytes] is the real keccak256", z3.simplify(rz) == z3.BitVecVal(want, 256))
            if 0 < len(d) <= 128:
                # up to 128 bytes the hash is tracked: its value can be traced back to the preimage (storage locations
                # written as a runtime hash of concrete data and as the folded constant are the same location)
                back = ex.sha3s.reverse_lookup(want)
                ok_back = back is not None and z3.is_app(back) and back.decl().name() == f"f_sha3_{8 * len(d)}" and z3.simplify(back.arg(0)).as_long() == int.from_bytes(d, "big")
                ctx.oblige(f"sha3_data[{len(d)} concrete bytes]: the hash value is registered and traces back to exactly this preimage", z3.BoolVal(bool(ok_back)), info={"back": str(back)[:80]})
            for c in list(ex.path.conditions)[n0:]:
                sc = str(c)
                if "f_inv" in sc:
                    continue  # injectivity facts: the documented no-collision assumption
                # a recorded equation  f_sha3_N(data) == value  must state the real hash
                if z3.is_eq(c) and z3.is_bv_value(c.arg(1)):
                    ctx.oblige(f"sha3_data[{len(d)} concrete bytes]: the recorded value of the hash term is the real keccak256", z3.BoolVal(c.arg(1).as_long() == want))

    out.append(Case(f"{PROP}/sevm.Exec.sha3_data", "concrete data against keccak256", harness_concrete, sources=("halmos.sevm:Exec.sha3_data", "halmos.sevm:Exec.sha3_hash")))

    def harness_create2_magic(interp):
        ctx = interp.ctx
        sevm = mk_sevm()
        ex = mk_ex(sevm, b"\x00")
        d = b"\xff" + bytes(range(84))
        r = interp.call(hs.Exec.__dict__["sha3_data"], [ex, d], {})
        rz = r.as_z3() if hasattr(r, "as_z3") else r
        ctx.oblige("the hash of 85 concrete bytes starting with 0xff is the real keccak256", z3.simplify(rz) == z3.BitVecVal(int.from_bytes(keccak(d), "big"), 256), info={"got": str(z3.simplify(rz))})

    out.append(Case(f"{PROP}/sevm.Exec.sha3_data#create2-preimage", "85 bytes starting with 0xff", harness_create2_magic, replay=replay_create2_magic, sources=("halmos.sevm:Exec.sha3_data",)))
    return out


def replay_create2_magic(r):
    from eth_hash.auto import keccak

    sevm = mk_sevm()
    d = b"\xff" + bytes(range(84))
    # store the 85 bytes with three MSTOREs, hash them, return the word
    code = b""
    padded = d.ljust(96, b"\x00")
    for i in range(3):
        code += bytes([0x7F]) + padded[32 * i : 32 * i + 32] + bytes([0x60, 32 * i, hs.OP_MSTORE])
    code += bytes([0x60, 85, 0x60, 0, hs.OP_SHA3, 0x60, 0, hs.OP_MSTORE, 0x60, 32, 0x60, 0, hs.OP_RETURN])
    ex = mk_ex(sevm, code)
    outs = list(sevm.run(ex))
    data = outs[0].context.output.data
    got = data.unwrap() if data is not None else None
    want = keccak(d)
    gotb = got if isinstance(got, bytes) else (got.as_long().to_bytes(32, "big") if z3.is_bv_value(got) else None)
    if gotb != want:
        return {"reproduced": True, "detail": f"a program hashing the 85 concrete bytes ff 00 01 .. 53 returns {gotb.hex() if gotb else got} in halmos; the EVM returns keccak256 = {want.hex()} (halmos substitutes a synthetic CREATE2 address for every 85-byte preimage starting with 0xff)", "inputs": "SHA3 over 85 bytes 0xff ++ 00..53"}
    return {"reproduced": False, "detail": "the returned word is the real keccak256"}


# ---------------------------------------------------------------------------------------
# the return data buffer (RETURNDATASIZE / RETURNDATACOPY read it): EIP-211 and EIP-140


def returndata_cases():
    from halmos.exceptions import Revert

    out = []
    scenarios = {
        "no sub-call yet": (None, None, None, "empty"),
        "CALL that returned data": (hs.OP_CALL if hasattr(hs, "OP_CALL") else 0xF1, b"\x01\x02\x03", None, "data"),
        "CALL that reverted with data": (0xF1, b"\x08\xc3\x79\xa0", Revert(), "data"),
        "STATICCALL that returned data": (0xFA, b"\x07", None, "data"),
        "CREATE that succeeded (returned the runtime code)": (hs.OP_CREATE, b"\x60\x00", None, "empty"),
        "CREATE whose constructor reverted with data": (hs.OP_CREATE, b"\x08\xc3\x79\xa0\x11", Revert(), "data"),
        "CREATE2 whose constructor reverted with data": (hs.OP_CREATE2, b"\x99", Revert(), "data"),
        "CREATE2 that succeeded": (hs.OP_CREATE2, b"\x00", None, "empty"),
    }
    for name, (scheme, data, err, want) in scenarios.items():

        def harness(interp, scheme=scheme, data=data, err=err, want=want):
            ctx = interp.ctx
            sevm = mk_sevm()
            ex = mk_ex(sevm, b"\x00")
            if scheme is not None:
                sub = hs.CallContext(message=hs.Message(target=THIS, caller=CALLER, origin=ORIGIN, value=0, data=ByteVec(), call_scheme=scheme))
                sub.output.data = ByteVec(data)
                sub.output.error = err
                ex.context.trace.append(sub)
            r = interp.call(hs.Exec.__dict__["returndata"], [ex], {})
            n = interp.call(hs.Exec.__dict__["returndatasize"], [ex], {})
            if want == "empty":
                ctx.oblige("the return data buffer is empty (no sub-call yet, or a successful creation)", z3.BoolVal(r is not None and len(r) == 0 and n == 0))
            else:
                ctx.oblige("the return data buffer holds the output of the last sub-call (returned or reverted data; after a failed creation the constructor's revert data)", z3.BoolVal(r is not None and r.unwrap() == data and n == len(data)), info={"got": str(r)[:80]})

        out.append(Case(f"{PROP}/sevm.Exec.returndata", name, harness, sources=("halmos.sevm:Exec.returndata", "halmos.sevm:Exec.returndatasize", "halmos.sevm:CallContext.last_subcall")))
    return out


# ---------------------------------------------------------------------------------------
# EXTCODESIZE / EXTCODECOPY / EXTCODEHASH (address alias resolution is the C02 contract: it returns the account
# the address denotes on this path, or None when it denotes no account with code)


def ext_cases():
    out = []
    OTHER = z3.BitVecVal(0xC0DE, 160)

    def setup(interp, op, operands, known):
        s = Step(interp, bytes([op, 0]), operands)
        other_code = hs.Contract(bytes([0x60, 0x01, 0x5B, 0x00, 0xFE]))
        s.ex.code[OTHER] = other_code
        asked = []
        interp.contracts["halmos.sevm:SEVM.resolve_address_alias"] = lambda i, a, k: (asked.append(a[2]), OTHER if known else None)[1]
        return s, other_code, asked

    for known in (True, False):

        def harness_size(interp, known=known):
            ctx = interp.ctx
            addr = mk_word(ctx, "addr", "term")
            s, other_code, asked = setup(interp, hs.OP_EXTCODESIZE, [addr], known)
            ctx.assume(z3.And(*[z3.Extract(159, 0, den_word(addr)) != a for a in (hs.hevm_cheat_code.address, hs.halmos_cheat_code.address)]))
            s.run()
            if s.expect_continue(1, "EXTCODESIZE"):
                ctx.oblige("EXTCODESIZE pushes the code length of the account the address denotes, 0 if it denotes none", den_word(s.pushed()[0]) == (5 if known else 0))
                ctx.oblige("the account is looked up for the 160-bit address on the stack, once", z3.BoolVal(len(asked) == 1) if len(asked) != 1 else (asked[0].as_z3() if hasattr(asked[0], "as_z3") else asked[0]) == z3.Extract(159, 0, den_word(addr)))
                s.no_memory_effect()

        out.append(Case(f"{PROP}/sevm.SEVM.run#EXTCODESIZE", "account with code" if known else "no such account", harness_size, sources=RUN_SRC))

        for off, size in ((0, 32), (10, 32), (3, 4), (40, 8)):

            def harness_copy(interp, known=known, off=off, size=size):
                ctx = interp.ctx
                addr = mk_word(ctx, "addr", "term")
                dst = mem_loc(ctx, "dst")
                ctx.assume(dst._value.e + size <= MAXMEM)
                s, other_code, asked = setup(interp, hs.OP_EXTCODECOPY, [addr, dst, hb.HalmosBitVec(off), hb.HalmosBitVec(size)], known)
                sl = []
                if known:
                    def contract_slice(i, a, kw):
                        g = GSlice(GBytes("extcode", s.log), 0, a[1], a[1] + a[2], s.log)
                        sl.append((a[0], a[1], a[2], g))
                        return g

                    interp.contracts["halmos.contract:Contract.slice"] = contract_slice
                n0 = len(ctx.ghost_log)
                s.run()
                if not s.expect_continue(0, "EXTCODECOPY"):
                    return
                writes = [e for e in s.log if e[0] == "set_slice"]
                ok = len(writes) == 1 and writes[0][1] is s.mem
                ctx.oblige("EXTCODECOPY is exactly one write of `size` bytes to memory", z3.BoolVal(ok), info={"log": str([e[0] for e in s.log])})
                if not ok:
                    return
                _, _, _, c0, c1, val = writes[0]
                ctx.oblige("EXTCODECOPY writes memory[dst, dst+size)", z3.And(ie(c0) == dst._value.e, ie(c1) == dst._value.e + size))
                if known:
                    ctx.oblige("the bytes written are code[offset, offset+size) of that account (zero beyond its end)", z3.BoolVal(len(sl) == 1 and sl[0][0] is other_code and sl[0][1] == off and sl[0][2] == size and val is sl[0][3]))
                else:
                    good = isinstance(val, ByteVec) and not isinstance(val, GBytes) and len(val) == size and val.unwrap() == bytes(size)
                    ctx.oblige("an account without code has empty code: exactly `size` zero bytes are written, whatever the offset", z3.BoolVal(good), info={"written": f"{len(val) if hasattr(val, '__len__') else '?'} byte(s)"})

            out.append(Case(f"{PROP}/sevm.SEVM.run#EXTCODECOPY", ("account with code" if known else "no such account") + f"; offset {off}, size {size}", harness_copy, replay=replay_code(bytes([0x7F]) + b"\xff" * 32 + bytes([0x60, 0, 0x52, 0x60, size, 0x60, off, 0x60, 0, 0x61, 0x12, 0x34, hs.OP_EXTCODECOPY, 0x60, 0x40, 0x60, 0, hs.OP_RETURN])), sources=RUN_SRC))

        def harness_hash(interp, known=known):
            ctx = interp.ctx
            addr = mk_word(ctx, "addr", "term")
            s, other_code, asked = setup(interp, hs.OP_EXTCODEHASH, [addr], known)
            ctx.assume(z3.And(*[z3.Extract(159, 0, den_word(addr)) != a for a in hs.CHEATCODE_ADDRESSES]) if hasattr(hs, "CHEATCODE_ADDRESSES") else z3.BoolVal(True))
            n0 = len(s.ex.path.conditions)
            s.run()
            if s.expect_continue(1, "EXTCODEHASH"):
                from eth_hash.auto import keccak

                want = int.from_bytes(keccak(bytes([0x60, 0x01, 0x5B, 0x00, 0xFE])), "big") if known else 0
                new = list(s.ex.path.conditions)[n0:]
                facts = z3.And(*new) if new else z3.BoolVal(True)
                ctx.oblige("EXTCODEHASH pushes keccak256 of the account's code, 0 for an address that denotes no account", z3.Implies(facts, den_word(s.pushed()[0]) == z3.BitVecVal(want, 256)))
                s.no_memory_effect()

        out.append(Case(f"{PROP}/sevm.SEVM.run#EXTCODEHASH", "account with code" if known else "no such account", harness_hash, sources=RUN_SRC))
    return out


# ---------------------------------------------------------------------------------------
# recorded deviations (known findings): active-memory size after reads, CODECOPY at a symbolic offset


def deviation_cases():
    out = []

    def harness_expand(interp):
        ctx = interp.ctx
        loc = mem_loc(ctx, "loc")
        s = Step(interp, bytes([hs.OP_MLOAD, 0]), [loc])
        n = s.mem.glen()
        s.mem._len = n
        ctx.assume(loc._value.e <= MAXMEM)
        s.run()
        if s.kind != "fallthrough":
            return
        grows = [e for e in s.log if e[0] in ("set_word", "set_byte", "set_slice", "touch")]
        ctx.oblige("a read beyond the end of memory extends the active memory (MSIZE counts words touched by reads)", z3.Or(loc._value.e + 32 <= n.e, z3.BoolVal(bool(grows))))
        ctx.oblige("outside the known-finding region (the read lies within memory): nothing needs to grow and no byte changes", z3.Implies(loc._value.e + 32 <= n.e, z3.BoolVal(not grows)))

    out.append(Case(f"{PROP}/sevm.SEVM.run#memory-expansion", "MLOAD", harness_expand, replay=replay_msize, sources=RUN_SRC))

    def harness_codecopy_sym(interp):
        ctx = interp.ctx
        dst, size = mem_loc(ctx, "dst"), hb.HalmosBitVec(4)
        off = mk_word(ctx, "off", "term")
        ctx.assume(dst._value.e <= 1000)
        s = Step(interp, bytes([hs.OP_CODECOPY]) + bytes(range(1, 20)), [dst, off, size])
        s.run()
        if s.kind == "raise":
            ctx.oblige("CODECOPY at a symbolic offset may end the path as unsupported (flagged)", z3.BoolVal(isinstance(s.payload, HalmosException)))
            return
        writes = [e for e in s.log if e[0] == "set_slice"]
        fresh = [e for e in writes if isinstance(e[5], ByteVec) and "codeslice" in str(e[5])]
        ctx.oblige("CODECOPY at a symbolic offset writes bytes of the code, never unconstrained bytes", z3.BoolVal(not fresh), info={"written": str([str(e[5])[:80] for e in writes])})
        ctx.oblige("outside the known-finding region: exactly one write of `size` bytes at the destination", z3.BoolVal(len(writes) == 1) if not writes else z3.And(z3.BoolVal(len(writes) == 1), ie(writes[0][3]) == dst._value.e, ie(writes[0][4]) == dst._value.e + 4))

    out.append(Case(f"{PROP}/sevm.SEVM.run#CODECOPY", "symbolic offset", harness_codecopy_sym, replay=replay_codecopy_sym, sources=RUN_SRC))
    return out


def replay_msize(r):
    sevm = mk_sevm()
    # PUSH1 0x40 MLOAD POP MSIZE PUSH1 0 MSTORE PUSH1 0x20 PUSH1 0 RETURN
    code = bytes([0x60, 0x40, hs.OP_MLOAD, hs.OP_POP, hs.OP_MSIZE, 0x60, 0, hs.OP_MSTORE, 0x60, 0x20, 0x60, 0, hs.OP_RETURN])
    ex = mk_ex(sevm, code)
    outs = list(sevm.run(ex))
    got = outs[0].context.output.data.unwrap()
    gv = int.from_bytes(got, "big") if isinstance(got, bytes) else (got.as_long() if z3.is_bv_value(got) else None)
    if gv != 0x60:
        return {"reproduced": True, "detail": f"program MLOAD(0x40); MSIZE; return it: halmos returns {gv:#x}, the EVM returns 0x60 (the read touches words 0..2, Yellow Paper: MLOAD sets the active word count to max(mu_i, ceil((0x40+32)/32)))", "inputs": "bytecode 604051505960005260206000f3"}
    return {"reproduced": False, "detail": "MSIZE after a read beyond the end is 0x60"}


def replay_codecopy_sym(r):
    from halmos.bytevec import ByteVec as BVec

    sevm = mk_sevm()
    # PUSH1 1; PUSH1 0 CALLDATALOAD; PUSH1 0; CODECOPY; PUSH1 1; PUSH1 0; RETURN
    code = bytes([0x60, 1, 0x60, 0, hs.OP_CALLDATALOAD, 0x60, 0, hs.OP_CODECOPY, 0x60, 1, 0x60, 0, hs.OP_RETURN])
    ex = mk_ex(sevm, code, data=BVec(z3.BitVec("offset", 256)))
    outs = [o for o in sevm.run(ex)]
    for o in outs:
        d = o.context.output.data
        if d is None:
            continue
        t = d.unwrap()
        if z3.is_expr(t) and "codeslice" in str(t):
            return {"reproduced": True, "detail": f"program CODECOPY(dst 0, offset = calldata word, size 1); return that byte: halmos returns the unconstrained symbol {t}; under the path's constraints it may be any byte, e.g. 0xEE, which is neither a byte of the 13-byte code nor the zero padding beyond it", "inputs": "bytecode 60016000356000396001600 0f3, symbolic calldata"}
    return {"reproduced": False, "detail": "no unconstrained code slice in the reported outputs"}


# ---------------------------------------------------------------------------------------
# native runs against the reference EVM (specs/evm_ref.py): replays and the bounded stand-in

ADDR, SENDER, ORIG, VALUE = 0xAAAA0001, 0xBBBB0002, 0xCCCC0003, 12345


def run_halmos_concrete(code, calldata=b""):
    """run the real SEVM on a concrete single-frame program; returns (kind, data bytes) per reported path"""
    import halmos.__main__ as hm
    from contracts.common import config
    from halmos.utils import EVM, con, con_addr

    sevm = mk_sevm()
    contract = hs.Contract(code)
    this = con_addr(ADDR)
    msg = hs.Message(target=this, caller=con_addr(SENDER), origin=con_addr(ORIG), value=con(VALUE), data=ByteVec(calldata), call_scheme=EVM.CALL, is_static=False)
    ex = sevm.mk_exec(code={this: contract}, storage={this: sevm.mk_storagedata()}, transient_storage={this: sevm.mk_storagedata()}, balance=z3.Array("balance_0", z3.BitVecSort(160), z3.BitVecSort(256)),
                      block=hm.mk_block(), context=hs.CallContext(msg), pgm=contract, path=hs.Path(hm.mk_solver(config())))
    outs = []
    for o in sevm.run(ex):
        out = o.context.output
        err = out.error
        if err is None:
            kind = "return" if out.return_scheme == hs.OP_RETURN else "stop"
        else:
            kind = {"Revert": "revert", "InvalidOpcode": "invalid", "StackUnderflowError": "underflow", "StackOverflowError": "overflow", "InvalidJumpDestError": "badjump", "OutOfGasError": "oog", "OutOfBoundsRead": "oob"}.get(type(err).__name__, f"other:{type(err).__name__}:{err}")
        data = out.data
        if data is None:
            raw = None
        else:
            u = data.unwrap()
            raw = u if isinstance(u, bytes) else (u.as_long().to_bytes(len(data), "big") if z3.is_bv_value(u) else f"<symbolic {str(u)[:60]}>")
        outs.append((kind, raw))
    return outs


def opcodes_of(code):
    out, i = set(), 0
    while i < len(code):
        op = code[i]
        out.add(op)
        i += 1 + (op - 0x5F if 0x60 <= op <= 0x7F else 0)
    return out


def compare_with_reference(code, calldata=b""):
    """None if halmos and the reference EVM agree on the end state of this concrete program, else a description"""
    from specs import evm_ref

    ref = evm_ref.run(code, calldata, address=ADDR, caller=SENDER, origin=ORIG, value=VALUE)
    if ref.kind in ("unsupported", "steps"):
        return None
    if ref.read_expanded and hs.OP_MSIZE in opcodes_of(code):
        return None  # known finding C01-F15 region
    try:
        outs = run_halmos_concrete(code, calldata)
    except BaseException as e:  # noqa
        return f"halmos raised {type(e).__name__}: {str(e)[:120]}; the EVM ends with {ref.kind} {ref.data.hex()}"
    if len(outs) != 1:
        return f"halmos reports {len(outs)} paths for a concrete program; the EVM ends with {ref.kind}"
    kind, raw = outs[0]
    want_data = ref.data if ref.kind in ("return", "revert") else b""
    if kind != ref.kind or raw != want_data:
        return f"halmos ends with {kind} {raw.hex() if isinstance(raw, bytes) else raw}; the EVM ends with {ref.kind} {want_data.hex()}"
    return None


def push(v):
    v %= 1 << 256
    n = max(1, (v.bit_length() + 7) // 8)
    return bytes([0x5F + n]) + v.to_bytes(n, "big")


DUMP = bytes([0x60, 0x80, 0x60, 0x00, hs.OP_RETURN])  # RETURN(0, 0x80)


def arm_program(opcode, operands, pushes):
    """push the operands (last first), run the opcode, store what it pushed at 0x60, return memory[0,0x80)"""
    code = b"".join(push(v) for v in reversed(operands)) + bytes([opcode])
    if pushes:
        code += bytes([0x60, 0x60, hs.OP_MSTORE])
    return code + DUMP


def replay_arm(opcode, names, pushes, prefix=b""):
    def replay(r):
        model = r.get("model") or {}
        vals = []
        for nm in names:
            v = model.get(nm, model.get(nm + "!i", 0))
            vals.append((v if isinstance(v, int) else 0) % (1 << 256))
        tries = [vals] + [[(v % 200) for v in vals], [7 + 13 * k for k in range(len(vals))]]
        for t in tries:
            code = prefix + arm_program(opcode, t, pushes)
            diff = compare_with_reference(code, calldata=bytes(range(1, 70)))
            if diff:
                return {"reproduced": True, "detail": f"program {code.hex()} (operands {[hex(v) for v in t]}): {diff}", "inputs": code.hex()}
        return {"reproduced": False, "detail": f"real SEVM agrees with the reference EVM on the instruction with operands {[hex(v) for v in tries[0]]} and two more operand sets"}

    return replay


def replay_code(code, calldata=bytes(range(1, 70))):
    def replay(r):
        diff = compare_with_reference(code, calldata)
        if diff:
            return {"reproduced": True, "detail": f"program {code.hex()}: {diff}", "inputs": code.hex()}
        return {"reproduced": False, "detail": f"real SEVM agrees with the reference EVM on program {code.hex()[:80]}"}

    return replay


def replay_arm_raw(opcode, names, prefix=b""):
    """operands from the model, then the (halting) opcode itself"""

    def replay(r):
        model = r.get("model") or {}
        vals = [((model.get(nm, model.get(nm + "!i", 0)) if isinstance(model.get(nm, model.get(nm + "!i", 0)), int) else 0) % (1 << 256)) for nm in names]
        for t in (vals, [v % 100 for v in vals], [3, 40]):
            code = prefix + b"".join(push(v) for v in reversed(t)) + bytes([opcode])
            diff = compare_with_reference(code, bytes(range(1, 70)))
            if diff:
                return {"reproduced": True, "detail": f"program {code.hex()}: {diff}", "inputs": code.hex()}
        return {"reproduced": False, "detail": "real SEVM agrees with the reference EVM on the halting instruction with three operand sets"}

    return replay


def replay_arm_fixed(opcode, names, fixed, pushes, prefix=b""):
    """like replay_arm with trailing fixed operands (e.g. a concrete size)"""

    def replay(r):
        model = r.get("model") or {}
        vals = [((model.get(nm, model.get(nm + "!i", 0)) if isinstance(model.get(nm, model.get(nm + "!i", 0)), int) else 0) % (1 << 256)) for nm in names]
        for t in (vals, [v % 64 for v in vals], [1] * len(vals)):
            code = prefix + arm_program(opcode, list(t) + list(fixed), pushes)
            diff = compare_with_reference(code, bytes(range(1, 70)))
            if diff:
                return {"reproduced": True, "detail": f"program {code.hex()}: {diff}", "inputs": code.hex()}
        return {"reproduced": False, "detail": "real SEVM agrees with the reference EVM on the instruction with three operand sets"}

    return replay


# a memory prefix so that reads see non-trivial content: MSTORE(0, pattern), MSTORE(0x20, pattern2)
MEM_PREFIX = push(int.from_bytes(bytes(range(0x11, 0x31)), "big")) + bytes([0x60, 0, hs.OP_MSTORE]) + push(int.from_bytes(bytes(range(0x51, 0x71)), "big")) + bytes([0x60, 0x20, hs.OP_MSTORE])


def random_program(rnd, length):
    from specs import evm_ref

    word_ops = [op for op, n in evm_ref.OPS.items() if n in evm_ref.ARITY]
    consts = [0, 1, 2, 31, 32, 33, 0x40, 0x60, 0xFF, 0x100, (1 << 255), (1 << 256) - 1, (1 << 160) - 1, 1 << 40]
    body, depth = bytearray([hs.OP_PUSH0] * 4), 4
    dests = []
    for _ in range(length):
        c = rnd.random()
        if c < 0.015:
            # a rare abnormal end: huge offset (out of gas), INVALID, REVERT, jump to a non-destination, underflow
            k = rnd.randrange(5)
            if k == 0:
                body += push(1 << rnd.choice([40, 200])) + bytes([rnd.choice([hs.OP_MLOAD, hs.OP_MSTORE8 if depth else hs.OP_MLOAD])])
            elif k == 1:
                body.append(hs.OP_INVALID)
            elif k == 2:
                body += bytes([0x60, 0x20, 0x60, 0x00, hs.OP_REVERT])
            elif k == 3:
                body += push(rnd.choice([0, 1, 2, 3, 1 << 200])) + bytes([hs.OP_JUMP])
            else:
                body += bytes([hs.OP_POP] * (depth + 1))
            continue
        if depth < 2 or c < 0.30:
            v = rnd.choice(consts) if rnd.random() < 0.6 else rnd.getrandbits(rnd.choice([8, 16, 64, 256]))
            body += push(v)
            depth += 1
        elif c < 0.55:
            op = rnd.choice(word_ops)
            ar = evm_ref.ARITY[evm_ref.OPS[op]]
            if depth >= ar or rnd.random() < 0.05:
                body.append(op)
                depth = max(0, depth - ar) + 1
        elif c < 0.75:
            op = rnd.choice([hs.OP_MLOAD, hs.OP_MSTORE, hs.OP_MSTORE8, hs.OP_MCOPY, hs.OP_CALLDATALOAD, hs.OP_CALLDATACOPY, hs.OP_CODECOPY, hs.OP_SHA3, hs.OP_SLOAD, hs.OP_SSTORE, hs.OP_TLOAD, hs.OP_TSTORE])
            ar = {hs.OP_MLOAD: 1, hs.OP_MSTORE: 2, hs.OP_MSTORE8: 2, hs.OP_MCOPY: 3, hs.OP_CALLDATALOAD: 1, hs.OP_CALLDATACOPY: 3, hs.OP_CODECOPY: 3, hs.OP_SHA3: 2, hs.OP_SLOAD: 1, hs.OP_SSTORE: 2, hs.OP_TLOAD: 1, hs.OP_TSTORE: 2}[op]
            # keep offsets small: push fresh small operands for memory instructions
            if op not in (hs.OP_SLOAD, hs.OP_SSTORE, hs.OP_TLOAD, hs.OP_TSTORE, hs.OP_CALLDATALOAD, hs.OP_MSTORE, hs.OP_MSTORE8):
                for _k in range(ar):
                    body += push(rnd.choice([0, 1, 5, 31, 32, 33, 64, 95, 100]))
                body.append(op)
                depth += 1 if op in (hs.OP_MLOAD, hs.OP_SHA3) else 0
            elif op in (hs.OP_MSTORE, hs.OP_MSTORE8) and depth >= 1:
                body += push(rnd.choice([0, 1, 5, 31, 32, 33, 64, 95, 100]))
                body.append(op)
                depth -= 1
            elif depth >= ar:
                body.append(op)
                depth += {hs.OP_SLOAD: 0, hs.OP_TLOAD: 0, hs.OP_CALLDATALOAD: 0}.get(op, -ar)
        elif c < 0.85:
            op = rnd.choice([hs.OP_ADDRESS, hs.OP_CALLER, hs.OP_ORIGIN, hs.OP_CALLVALUE, hs.OP_CALLDATASIZE, hs.OP_CODESIZE, hs.OP_RETURNDATASIZE, hs.OP_PC, hs.OP_MSIZE, hs.OP_PUSH0])
            body.append(op)
            depth += 1
        elif c < 0.93 and depth >= 1:
            n = rnd.randrange(1, min(depth, 16) + 1)
            if rnd.random() < 0.5:
                body.append(hs.OP_DUP1 + n - 1)
                depth += 1
            elif depth >= n + 1:
                body.append(hs.OP_SWAP1 + n - 1)
            else:
                body.append(hs.OP_POP)
                depth -= 1
        elif c < 0.97:
            body.append(hs.OP_JUMPDEST)
            dests.append(len(body) - 1)
        else:
            # forward conditional jump over one instruction to a fresh JUMPDEST
            if depth >= 1:
                target = len(body) + 3 + 1 + 1
                body += bytes([0x61]) + target.to_bytes(2, "big") + bytes([hs.OP_JUMPI, hs.OP_PUSH0, hs.OP_JUMPDEST])
                # layout: PUSH2 t (3) JUMPI (1) PUSH0 (1) JUMPDEST  -> t = start+5
                depth -= 1
    # epilogue: dump up to four stack items and two storage slots, return memory[0, 0x100)
    epi = bytearray()
    for k in range(4):
        epi += bytes([0x61]) + (0x100 + 32 * k).to_bytes(2, "big") + bytes([hs.OP_MSTORE])
    epi += bytes([0x60, 0, hs.OP_SLOAD, 0x61, 0x01, 0x80, hs.OP_MSTORE, 0x60, 1, hs.OP_SLOAD, 0x61, 0x01, 0xA0, hs.OP_MSTORE])
    epi += bytes([0x61, 0x01, 0xC0, 0x60, 0, hs.OP_RETURN])
    return bytes(body) + bytes(epi)


def _bounded_programs(tier, seed):
    import random

    n = 400 if tier == "quick" else 6000
    rnd = random.Random(1000003 * seed + 17)
    fails, ran = [], 0
    for i in range(n):
        code = random_program(rnd, rnd.randrange(4, 40))
        cd = bytes(rnd.getrandbits(8) for _ in range(rnd.choice([0, 4, 36, 68])))
        diff = compare_with_reference(code, cd)
        ran += 1
        if diff:
            fails.append({"witness": f"code {code.hex()} calldata {cd.hex()}", "detail": diff})
            if len(fails) >= 3:
                break
    return {"tool": "native differential testing: the real SEVM.run on random concrete single-frame programs (word, stack, memory, storage, hashing, environment, conditional jumps) against the reference EVM specs/evm_ref.py; end state = halting kind + output data (memory dump incl. stack items and storage slots)", "bound": f"{n} random programs of 4..40 instructions, concrete calldata", "cases": ran, "failures": fails}


def bounded():
    from pyvc.pack import Bounded

    return [Bounded("random concrete programs against the reference EVM", _bounded_programs)]


def grounds():
    """a reported result is a real EVM behaviour `under the standard interpretation of the arithmetic abstractions`: that interpretation
    is fixed by the NAME of each abstraction (C06's ground: name and role of every table entry denote the same operation)"""
    from contracts import c06
    from pyvc.pack import Ground

    from contracts.common import ground_script

    return [
        Ground(f"{PROP}/sevm.abstraction-tables#name-is-the-definition", c06.ground_abstraction_names, sources=("halmos.solve:refine",)),
        Ground(f"{PROP}/sevm.SEVM.run#EXTCODEHASH#funded-account", ground_script("extcodehash_funded_account.py", "send 1 wei to an account without code, then EXTCODEHASH", "EXTCODEHASH of an existing account without code is keccak256('') (EIP-1052), 0 only for a non-existent one"), sources=("halmos.sevm:SEVM.run",)),
        Ground(f"{PROP}/sevm.SEVM.create#code-deposit", ground_script("create_code_deposit_rules.py", "CREATE returning code that starts with 0xEF / 24577 bytes of code", "a creation whose returned code the EVM rejects at deposit (EIP-3541 prefix 0xEF, EIP-170 size limit) fails"), sources=("halmos.sevm:SEVM.create",)),
    ]


def build_cases(tier="quick"):
    # a reported end state is only real if no other path or frame can change it: ownership of what a forked path
    # gets (C02), exact restoration after a failed call or creation and message construction (C09)
    from contracts import c02, c09

    ref = []
    for c in c02.path_cases():
        ref.append(Case(f"{PROP}/" + c.unit.split("/", 1)[1] + "#fork-ownership", c.case, c.harness, replay=c.replay, sources=c.sources))
    from contracts import c06

    for c in c06.run_arm_cases():
        ref.append(Case(f"{PROP}/" + c.unit.split("/", 1)[1] + "#word-instruction", c.case, c.harness, replay=c.replay, contracts=c.contracts, sources=c.sources))
    for c in c09.callback_cases() + c09.create_cases():
        ref.append(Case(f"{PROP}/" + c.unit.split("/", 1)[1] + "#frame-end", c.case, c.harness, replay=c.replay, sources=c.sources))
    # CALLDATACOPY applies the path's substitution to the slice it copies (Chunk.concretize, C07); storage reads of
    # the generic layout rest on the collision-free stand-in hash and the shape separation of its keys (C08)
    from contracts import c07, c08
    from contracts.common import rewrap

    ref += rewrap(PROP, c07.chunk_contract_cases(), "calldatacopy-substitution", lambda c: "concretize" in c.unit)
    ref += rewrap(PROP, c08.generic_cases(), "generic-layout-keys", lambda c: "simple_hash" in c.unit or "shape-separation" in c.unit)
    ref += rewrap(PROP, c09.returndata_cases(), "returndata-source")
    ref += rewrap(PROP, c08.literal_before_hash_cases(), "storage-spelling")
    # the state that goes on in place keeps the shared solver: it must be taken from the worklist before its siblings (C02's unit)
    ref += rewrap(PROP, c02.jumpi_cases() + c02.multi_return_cases(), "solver-stays-with-the-running-path")
    # a transaction starts from the state the previous one left: accounts, counters (the address allocator behind CREATE), aliases (C20's unit)
    from contracts import c20

    ref += rewrap(PROP, c20.fork_cases(), "transaction-start-state", lambda c: c.unit.endswith("sevm.SEVM.run_message"))
    # CODECOPY / EXTCODECOPY copy the window [start, start+size) of the code read as a zero-extended array (C19's unit;
    # seed C01-12: a window straddling the end came back short, so the old memory showed through)
    from contracts import c19

    ref += rewrap(PROP, c19.decode_cases(), "codecopy-window", lambda c: c.unit.endswith("contract.Contract.slice"))
    return stack_cases() + limit_cases() + env_cases() + memory_cases() + halt_cases() + sha3_cases() + returndata_cases() + ext_cases() + deviation_cases() + ref


ASSUMPTIONS = [
    "pyvc (VC generator, Python-subset semantics) is trusted",
    "NOT CLAIMED: the whole-program simulation theorem (every reported path of every program is an EVM behaviour). That is the induction over SEVM.run's worklist of the per-step contracts proved here and in C06 (word instructions), C07 (byte sequences), C08 (storage), C09 (calls, creations, static frames), C02/C19 (jumps, decoding), C10 (exception arms); the composition itself is not machine-checked",
    "memory, calldata and returndata are ghost flat arrays standing for the ByteVec contract of C07 (get_word / unwrap are covered there only by a bounded stand-in); Contract.slice / decode_instruction are C19's (PUSH operands: concrete families n = 1..32)",
    "gas is not modelled by halmos: GAS is an unconstrained word, accesses beyond MAX_MEMORY_SIZE = 2^20 end with out-of-gas; a concrete run with enough gas to go further is outside the model",
    "hash facts (non-zero, below 2^256 - 2^64, injective per width) are the documented assumptions on keccak; SHA3 is proved for the size family " + str(SHA3_SIZES) + " and all offsets",
    "EXTCODESIZE / EXTCODECOPY / EXTCODEHASH are proved relative to the C02 contract of resolve_address_alias (the account an address denotes on this path, or none), for addresses other than the cheatcode addresses (whose code size / hash are Foundry-compatible dummies); EXTCODECOPY for a family of concrete offsets and sizes and all destinations",
]
TRUSTED = ["pyvc (this repository's verifier)", "z3 4.12.6", "eth_hash keccak256 (reference for concrete hashes)"]
TECHNIQUE = "per-step refinement contracts: each dispatch arm of SEVM.run executed from the real AST on a real Exec with symbolic words and ghost flat byte arrays; Yellow-Paper step as postcondition; z3"
