"""C11 — the solver query equals the path's constraints; refinement is exact.

Units under contract:
  solve.refine            postcondition over the *finite* domain of abstraction symbols (every z3
                          function named f_evm_* that halmos.sevm declares, found by introspection of
                          the real module on every run): the declaration line as z3 really prints it
                          (through the real Path.to_smt2) is passed through the real `refine`; the
                          output is parsed by z3 and *proved by SMT, for all 256/264/512-bit x, y*,
                          to make the symbol equal to its exact EVM definition D_f of
                          specs/evm_word.py (division and remainder by zero are zero); f_evm_exp
                          must stay uninterpreted; everything else in the query text is unchanged.
  sevm.Path.to_smt2       symbolic execution of the real body with a recording solver: every
                          condition of self.conditions is translated and asserted, in order, tracked
                          under str(get_id()) iff caching; the returned ids are aligned with the
                          conditions; self.solver is never read           (bounded: n <= 3 conditions,
                          the conditions themselves are opaque)
  solve.dump              text = [unsat-core option] logic header, query, [one named assertion per
                          id], check-sat, get-model, [get-unsat-core]
  lemma                   the named-assertion encoding (p_i => c_i), p_i is equisatisfiable with c_i
"""
from __future__ import annotations

import re

import z3

from pyvc import loader
from pyvc.pack import Case, Ground
from specs import evm_word as W

loader.import_repo()
import halmos.sevm as hs  # noqa: E402
import halmos.solve as hsolve  # noqa: E402
import halmos.utils as hu  # noqa: E402
from contracts.common import config  # noqa: E402

PROP = "C11"


def abstraction_symbols():
    out = {}
    for name, v in vars(hs).items():
        vals = v.values() if isinstance(v, dict) else [v]
        for f in vals:
            if isinstance(f, z3.FuncDeclRef) and f.name().startswith("f_evm_"):
                out[f.name()] = f
    return dict(sorted(out.items()))


def exact_definition(f, x, y):
    m = re.fullmatch(r"f_evm_(bvudiv|bvurem|bvsdiv|bvsrem|bvmul|exp)_(\d+)", f.name())
    if not m:
        return None
    op, n = m.group(1), int(m.group(2))
    zero = z3.BitVecVal(0, n)
    if op == "bvmul":
        return x * y
    if op == "bvudiv":
        return z3.If(y == zero, zero, z3.UDiv(x, y))
    if op == "bvurem":
        return z3.If(y == zero, zero, z3.URem(x, y))
    if op == "bvsdiv":
        return z3.If(y == zero, zero, x / y)
    if op == "bvsrem":
        return z3.If(y == zero, zero, z3.SRem(x, y))
    return None  # exp: stays abstract


def _tri(res):
    """unsat -> proved, sat -> refuted (with model), anything else -> undecided (never a violation)"""
    return True if res == z3.unsat else (False if res == z3.sat else None)


def _real_query(f, cache):
    """the query halmos itself would serialise for a path whose only condition uses f"""
    n = f.domain(0).size()
    x, y, r = z3.BitVec("x", n), z3.BitVec("y", n), z3.BitVec("r", n)
    p = hs.Path(hu.create_solver())
    p.append(f(x, y) == r)
    args = config(cache_solver=True) if cache else config()
    return p.to_smt2(args), (x, y, r)


def ground_refine():
    out = []
    syms = abstraction_symbols()
    out.append(("refine/symbol-set-nonempty", len(syms) >= 9, f"{len(syms)} f_evm_* declarations found in halmos.sevm: {list(syms)}"))
    for name, f in syms.items():
        n = f.domain(0).size()
        q, (x, y, r) = _real_query(f, cache=False)
        decl_line = [l for l in q.smtlib.splitlines() if l.startswith(f"(declare-fun {name} ")]
        out.append((f"refine/{name}/declared-in-real-query", len(decl_line) == 1, f"declaration as serialised by Path.to_smt2: {decl_line}"))
        refined = hsolve.refine(q)
        out.append((f"refine/{name}/assertion-ids-kept", refined.assertions == q.assertions, ""))
        # frame: nothing but that declaration line changes
        rest_before = [l for l in q.smtlib.splitlines() if not l.startswith(f"(declare-fun {name} ")]
        rest_after = [l for l in refined.smtlib.splitlines() if not l.startswith(f"(define-fun {name} ") and not l.startswith(f"(declare-fun {name} ")]
        out.append((f"refine/{name}/rest-of-query-unchanged", rest_before == rest_after, ""))
        D = exact_definition(f, x, y)
        if D is None:
            still = f"(declare-fun {name} " in refined.smtlib and f"(define-fun {name} " not in refined.smtlib
            out.append((f"refine/{name}/stays-uninterpreted", still, "exp has no exact SMT definition: the model must stay 'potentially invalid'"))
            continue
        try:
            parsed = z3.parse_smt2_string(refined.smtlib)
        except z3.Z3Exception as e:
            out.append((f"refine/{name}/refined-query-parses", False, str(e)[:200]))
            continue
        out.append((f"refine/{name}/refined-query-parses", len(parsed) == 1, f"{len(parsed)} assertion(s)"))
        got = z3.And(*parsed) if len(parsed) else z3.BoolVal(True)
        want = D == r
        s = z3.Solver()
        s.set("timeout", 60000)
        s.add(got != want)
        res = s.check()
        detail = f"for all {n}-bit x,y,r: refined[{name}(x,y) = r]  <=>  D_f(x,y) = r   [{res}]"
        if res == z3.sat:
            m = s.model()
            detail += f" counterexample x={m.eval(x, model_completion=True)} y={m.eval(y, model_completion=True)} r={m.eval(r, model_completion=True)}"
        out.append((f"refine/{name}/equals-exact-EVM-definition", _tri(res), detail, "z3-4.12.6"))
        # D_f itself against the word spec used by C06 (one table, two users)
        specname = {"bvudiv": "DIV", "bvurem": "MOD", "bvsdiv": "SDIV", "bvsrem": "SMOD", "bvmul": "MUL"}[name.split("_")[2]]
        s2 = z3.Solver()
        s2.set("timeout", 60000)
        s2.add(D != W.BV[specname](x, y, size=n))
        res2 = s2.check()
        out.append((f"refine/{name}/definition-is-the-Yellow-Paper-row", _tri(res2), f"D_f = {specname} at {n} bits [{res2}]", "z3-4.12.6"))
    return out


def ground_lemma():
    p, c = z3.Bools("p c")
    out = []
    for gid, goal in (("named-assertion/soundness: (p => c) and p  |=  c", z3.Implies(z3.And(z3.Implies(p, c), p), c)), ("named-assertion/completeness: c  |=  exists p. (p => c) and p", z3.Implies(c, z3.And(z3.Implies(z3.BoolVal(True), c), z3.BoolVal(True))))):
        s = z3.Solver()
        s.add(z3.Not(goal))
        out.append((gid, s.check() == z3.unsat, goal.sexpr(), "z3-4.12.6"))
    return out


# ---------------------------------------------------------------------------------------
class OpaqueCond:
    def __init__(self, k, log):
        self.k = k
        self.log = log

    def get_id(self):
        return 1000 + self.k

    def translate(self, ctx):
        self.log.append(("translate", self.k, ctx))
        return ("translated", self.k, ctx)


class RecSolver:
    def __init__(self, ctx, log):
        self.ctx = ctx
        self.log = log

    def add(self, c):
        self.log.append(("add", c))

    def assert_and_track(self, c, name):
        self.log.append(("track", c, name))

    def to_smt2(self):
        self.log.append(("to_smt2",))
        return "BODY\n(check-sat)\n"

    def reset(self):
        self.log.append(("reset",))


class Poison:
    def __getattr__(self, name):
        raise AssertionError("Path.to_smt2 read self.solver")


def to_smt2_cases():
    out = []
    for n in (0, 1, 2, 3):
        for cache in (False, True):

            def harness(interp, n=n, cache=cache):
                ctx = interp.ctx
                log = []
                conds = [OpaqueCond(k, log) for k in range(n)]
                p = object.__new__(hs.Path)
                p.conditions = {c: True for c in conds}
                p.solver = Poison()
                the_ctx = object()
                interp.externals[hs.Context] = lambda i, *a, **k: the_ctx
                interp.externals[hs.create_solver] = lambda i, *a, **k: RecSolver(k.get("ctx"), log)
                args = config(cache_solver=True) if cache else config()
                q = interp.call(hs.Path.to_smt2, [p, args], {})
                ids = [str(1000 + k) for k in range(n)]
                ctx.oblige("ids-aligned-with-conditions", z3.BoolVal(list(q.assertions) == ids))
                asserted = [e for e in log if e[0] in ("add", "track")]
                want = [("track", ("translated", k, the_ctx), str(1000 + k)) if cache else ("add", ("translated", k, the_ctx)) for k in range(n)]
                ctx.oblige("every-condition-asserted-once-in-order", z3.BoolVal(asserted == want), info={"got": str(asserted)[:300]})
                ser = [i for i, e in enumerate(log) if e[0] == "to_smt2"]
                last_assert = max([i for i, e in enumerate(log) if e[0] in ("add", "track")], default=-1)
                ctx.oblige("serialised-after-all-assertions", z3.BoolVal(len(ser) == 1 and ser[0] > last_assert))
                ctx.oblige("query-text-is-the-serialisation-without-check-sat", z3.BoolVal(q.smtlib == "BODY\n\n"))

            out.append(Case(f"{PROP}/sevm.Path.to_smt2", f"n={n},cache={cache}", harness, sources=("halmos.sevm:Path.to_smt2",)))
    return out


class RecFile:
    def __init__(self):
        self.text = None

    def write_text(self, t):
        self.text = t


def dump_cases():
    out = []
    for cache in (False, True):

        def harness(interp, cache=cache):
            ctx = interp.ctx
            f = RecFile()
            q = hs.SMTQuery("QUERY", ["7", "42"])

            class PC:
                pass

            pc = PC()
            pc.args = config(cache_solver=True) if cache else config()
            pc.query = q
            pc.dump_file = f
            interp.call(hsolve.dump, [pc], {})
            if cache:
                want = "(set-option :produce-unsat-cores true)\n(set-logic QF_AUFBV)\nQUERY\n(assert (! |7| :named <7>))\n(assert (! |42| :named <42>))\n(check-sat)\n(get-model)\n(get-unsat-core)\n"
            else:
                want = "(set-logic QF_AUFBV)\nQUERY\n(check-sat)\n(get-model)\n"
            ctx.oblige("file-text-structure", z3.BoolVal(f.text == want), info={"got": str(f.text)[:300]})

        out.append(Case(f"{PROP}/solve.dump", f"cache={cache}", harness, sources=("halmos.solve:dump",)))
    return out


def refine_ctx_cases():
    def harness(interp):
        ctx = interp.ctx
        sentinel = hs.SMTQuery("REFINED", ["1"])
        interp.contracts["halmos.solve:refine"] = lambda i, a, k: sentinel
        pc = hsolve.PathContext(args=config(), path_id=3, solving_ctx=None, query=hs.SMTQuery("Q", ["1"]))
        r = interp.call(hsolve.PathContext.refine, [pc], {})
        ok = r.query is sentinel and r.is_refined is True and r.path_id == 3 and r.args is pc.args
        ctx.oblige("refined-context-carries-the-refined-query", z3.BoolVal(ok))

    return [Case(f"{PROP}/solve.PathContext.refine", "ctx", harness, sources=("halmos.solve:PathContext.refine",))]


def build_cases(tier="quick"):
    return to_smt2_cases() + dump_cases() + refine_ctx_cases()


def grounds():
    return [Ground(f"{PROP}/solve.refine", ground_refine, sources=("halmos.solve:refine",)), Ground(f"{PROP}/lemma", ground_lemma)]


ASSUMPTIONS = [
    "refine is a text rewrite: its contract is proved for every abstraction symbol the code declares (finite domain, found by introspection) on the query text the real serialiser produces for that symbol; that the regular expressions do not touch other text is checked on those queries only (frame clause), not for arbitrary query text",
    "z3.parse_smt2_string gives the refined text its SMT-LIB meaning; the equivalence with D_f is then an SMT validity over all operand values",
    "Path.to_smt2 is proved for n <= 3 opaque conditions (bounded in n; the body treats conditions opaquely); z3's Solver.add/assert_and_track/to_smt2/translate are trusted externals",
    "that self.conditions holds every constraint accumulated on the path (Path.append / extend_path) is not under contract in this round",
    "pyvc and its Python-subset semantics are trusted",
]
TRUSTED = ["pyvc (this repository's verifier)", "z3 4.12.6 (parser and QF_BV solver)", "specs/evm_word.py"]
