"""C11 — the solver query equals the path's constraints; refinement is exact.

Units under contract:
  solve.refine            postcondition over the *finite* domain of abstraction symbols (every z3
                          function named f_evm_* that halmos.sevm declares, found by introspection of
                          the real module on every run): the declaration line as z3 really prints it
                          (through the real Path.to_smt2) is passed through the real `refine`; the
                          output is parsed by z3 and *proved by SMT, for all 256/264/512-bit x, y*,
                          to make the symbol equal to its exact EVM definition D_f of
                          specs/evm_word.py (division and remainder by zero are zero); f_evm_exp
                          must stay uninterpreted; everything else in the query text is unchanged.
  sevm.Path.to_smt2       symbolic execution of the real body with a recording solver: every
                          condition of self.conditions is translated and asserted, in order, tracked
                          under str(get_id()) iff caching; the returned ids are aligned with the
                          conditions; self.solver is never read           (bounded: n <= 3 conditions,
                          the conditions themselves are opaque)
  solve.dump              text = [unsat-core option] logic header, query, [one named assertion per
                          id], check-sat, get-model, [get-unsat-core]
  lemma                   the named-assertion encoding (p_i => c_i), p_i is equisatisfiable with c_i
"""
from __future__ import annotations

import re

import z3

from pyvc import loader
from pyvc.interp import PathEnd
from pyvc.pack import Case, Ground
from pyvc.sym import EngineError
from specs import evm_word as W

loader.import_repo()
import halmos.__main__ as hm  # noqa: E402
import halmos.sevm as hs  # noqa: E402
import halmos.solve as hsolve  # noqa: E402
import halmos.utils as hu  # noqa: E402
from contracts.common import config, replay_script  # noqa: E402

PROP = "C11"


def abstraction_symbols():
    out = {}
    for name, v in vars(hs).items():
        vals = v.values() if isinstance(v, dict) else [v]
        for f in vals:
            if isinstance(f, z3.FuncDeclRef) and f.name().startswith("f_evm_"):
                out[f.name()] = f
    return dict(sorted(out.items()))


def exact_definition(f, x, y):
    m = re.fullmatch(r"f_evm_(bvudiv|bvurem|bvsdiv|bvsrem|bvmul|exp)_(\d+)", f.name())
    if not m:
        return None
    op, n = m.group(1), int(m.group(2))
    zero = z3.BitVecVal(0, n)
    if op == "bvmul":
        return x * y
    if op == "bvudiv":
        return z3.If(y == zero, zero, z3.UDiv(x, y))
    if op == "bvurem":
        return z3.If(y == zero, zero, z3.URem(x, y))
    if op == "bvsdiv":
        return z3.If(y == zero, zero, x / y)
    if op == "bvsrem":
        return z3.If(y == zero, zero, z3.SRem(x, y))
    return None  # exp: stays abstract


def _tri(res):
    """unsat -> proved, sat -> refuted (with model), anything else -> undecided (never a violation)"""
    return True if res == z3.unsat else (False if res == z3.sat else None)


def _real_query(f, cache):
    """the query halmos itself would serialise for a path whose only condition uses f"""
    n = f.domain(0).size()
    x, y, r = z3.BitVec("x", n), z3.BitVec("y", n), z3.BitVec("r", n)
    p = hs.Path(hu.create_solver())
    p.append(f(x, y) == r)
    args = config(cache_solver=True) if cache else config()
    return p.to_smt2(args), (x, y, r)


def ground_refine():
    out = []
    syms = abstraction_symbols()
    out.append(("refine/symbol-set-nonempty", len(syms) >= 9, f"{len(syms)} f_evm_* declarations found in halmos.sevm: {list(syms)}"))
    for name, f in syms.items():
        n = f.domain(0).size()
        q, (x, y, r) = _real_query(f, cache=False)
        decl_line = [l for l in q.smtlib.splitlines() if l.startswith(f"(declare-fun {name} ")]
        out.append((f"refine/{name}/declared-in-real-query", len(decl_line) == 1, f"declaration as serialised by Path.to_smt2: {decl_line}"))
        refined = hsolve.refine(q)
        out.append((f"refine/{name}/assertion-ids-kept", refined.assertions == q.assertions, ""))
        # frame: nothing but that declaration line changes
        rest_before = [l for l in q.smtlib.splitlines() if not l.startswith(f"(declare-fun {name} ")]
        rest_after = [l for l in refined.smtlib.splitlines() if not l.startswith(f"(define-fun {name} ") and not l.startswith(f"(declare-fun {name} ")]
        out.append((f"refine/{name}/rest-of-query-unchanged", rest_before == rest_after, ""))
        D = exact_definition(f, x, y)
        if D is None:
            still = f"(declare-fun {name} " in refined.smtlib and f"(define-fun {name} " not in refined.smtlib
            out.append((f"refine/{name}/stays-uninterpreted", still, "exp has no exact SMT definition: the model must stay 'potentially invalid'"))
            continue
        try:
            parsed = z3.parse_smt2_string(refined.smtlib)
        except z3.Z3Exception as e:
            out.append((f"refine/{name}/refined-query-parses", False, str(e)[:200]))
            continue
        out.append((f"refine/{name}/refined-query-parses", len(parsed) == 1, f"{len(parsed)} assertion(s)"))
        got = z3.And(*parsed) if len(parsed) else z3.BoolVal(True)
        want = D == r
        # probe points first (ground evaluation: cheap and independent of solver load): boundary operands, y = 0 included
        probe = None
        mx = (1 << n) - 1
        for xv, yv in ((7, 0), (0, 0), (mx, 0), (7, 2), (mx, 3), (mx - 6, 2), (1 << (n - 1), mx), (5, mx)):
            sub = [(x, z3.BitVecVal(xv, n)), (y, z3.BitVecVal(yv, n))]
            dv = z3.simplify(z3.substitute(D, *sub))
            if not z3.is_bv_value(dv):
                continue
            for rv in (dv.as_long(), (dv.as_long() + 1) & mx):
                g_ = z3.simplify(z3.substitute(got, *sub, (r, z3.BitVecVal(rv, n))))
                w_ = z3.simplify(z3.substitute(want, *sub, (r, z3.BitVecVal(rv, n))))
                if (z3.is_true(g_) or z3.is_false(g_)) and (z3.is_true(w_) or z3.is_false(w_)) and z3.is_true(g_) != z3.is_true(w_):
                    probe = (xv, yv, rv)
                    break
            if probe:
                break
        if probe:
            res = z3.sat
            detail = f"refined[{name}(x,y) = r] and D_f(x,y) = r differ at x={probe[0]:#x} y={probe[1]:#x} r={probe[2]:#x} (ground evaluation)"
        else:
            s = z3.Solver()
            s.set("timeout", _tier_ms(QUICK_MS))
            s.add(got != want)
            res = s.check()
            detail = f"for all {n}-bit x,y,r: refined[{name}(x,y) = r]  <=>  D_f(x,y) = r   [{res}]"
            if res == z3.sat:
                m = s.model()
                detail += f" counterexample x={m.eval(x, model_completion=True)} y={m.eval(y, model_completion=True)} r={m.eval(r, model_completion=True)}"
        out.append((f"refine/{name}/equals-exact-EVM-definition", _tri(res), detail, "z3-4.12.6"))
        # D_f itself against the word spec used by C06 (one table, two users)
        specname = {"bvudiv": "DIV", "bvurem": "MOD", "bvsdiv": "SDIV", "bvsrem": "SMOD", "bvmul": "MUL"}[name.split("_")[2]]
        s2 = z3.Solver()
        s2.set("timeout", _tier_ms(QUICK_MS))
        s2.add(D != W.BV[specname](x, y, size=n))
        res2 = s2.check()
        out.append((f"refine/{name}/definition-is-the-Yellow-Paper-row", _tri(res2), f"D_f = {specname} at {n} bits [{res2}]", "z3-4.12.6"))
    return out


QUICK_MS = 20000  # per SMT query in the quick tier (a timeout is `undecided`, never a violation)


def _tier_ms(default_ms):
    import os
    import sys

    thorough = os.environ.get("VERIF_TIER", "quick") == "thorough" or "thorough" in sys.argv
    return 300000 if thorough else default_ms


def ground_refine_joint():
    """one query that uses several abstraction symbols at once (every symbol together, and every
    pair): each of them must be refined, whatever else is declared in the same query"""
    import itertools

    out = []
    syms = abstraction_symbols()
    names = list(syms)
    groups = [tuple(names)] + [pair for pair in itertools.combinations(names, 2)]
    for group in groups:
        p = hs.Path(hu.create_solver())
        want = []
        for k, name in enumerate(group):
            f = syms[name]
            n = f.domain(0).size()
            x, y, r = z3.BitVec(f"x{k}", n), z3.BitVec(f"y{k}", n), z3.BitVec(f"r{k}", n)
            p.append(f(x, y) == r)
            D = exact_definition(f, x, y)
            want.append((D == r) if D is not None else (f(x, y) == r))
        q = p.to_smt2(config())
        refined = hsolve.refine(q)
        gid = "refine-joint/" + ("all-symbols" if len(group) > 2 else "+".join(group))
        try:
            parsed = z3.parse_smt2_string(refined.smtlib)
        except z3.Z3Exception as e:
            out.append((gid + "/refined-query-parses", False, str(e)[:200]))
            continue
        left = [name for name in group if f"(declare-fun {name} " in refined.smtlib and exact_definition(syms[name], z3.BitVec("a", syms[name].domain(0).size()), z3.BitVec("b", syms[name].domain(0).size())) is not None]
        out.append((gid + "/no-refinable-symbol-left-uninterpreted", not left, f"still declared (uninterpreted) after refine: {left}"))
        if len(group) > 2:
            # the semantic equivalence of the joint query is asked once, for all symbols together;
            # for the pairs the (fast, text-level) clause above is what distinguishes them
            s = z3.Solver()
            s.set("timeout", _tier_ms(3 * QUICK_MS))
            s.add(z3.And(*parsed) != z3.And(*want))
            res = s.check()
            out.append((gid + "/equals-exact-EVM-definitions", _tri(res), f"conjunction over {len(group)} symbols [{res}]", "z3-4.12.6"))
    return out


def ground_lemma():
    p, c = z3.Bools("p c")
    out = []
    for gid, goal in (("named-assertion/soundness: (p => c) and p  |=  c", z3.Implies(z3.And(z3.Implies(p, c), p), c)), ("named-assertion/completeness: c  |=  exists p. (p => c) and p", z3.Implies(c, z3.And(z3.Implies(z3.BoolVal(True), c), z3.BoolVal(True))))):
        s = z3.Solver()
        s.add(z3.Not(goal))
        out.append((gid, s.check() == z3.unsat, goal.sexpr(), "z3-4.12.6"))
    return out


# ---------------------------------------------------------------------------------------
class OpaqueCond:
    def __init__(self, k, log):
        self.k = k
        self.log = log

    def get_id(self):
        return 1000 + self.k

    def translate(self, ctx):
        self.log.append(("translate", self.k, ctx))
        return ("translated", self.k, ctx)


class RecSolver:
    def __init__(self, ctx, log):
        self.ctx = ctx
        self.log = log

    def add(self, c):
        self.log.append(("add", c))

    def assert_and_track(self, c, name):
        self.log.append(("track", c, name))

    def to_smt2(self):
        self.log.append(("to_smt2",))
        return "BODY\n(check-sat)\n"

    def reset(self):
        self.log.append(("reset",))


class SubsetSolver(RecSolver):
    """stands for self.solver of a path: it may hold only a *subset* of the conditions (sliced
    parent), so nothing it serialises may end up in the query"""

    def to_smt2(self):
        self.log.append(("self.solver.to_smt2",))
        return "SUBSET-OF-THE-CONDITIONS\n(check-sat)\n"

    def sexpr(self):
        self.log.append(("self.solver.sexpr",))
        return "SUBSET-OF-THE-CONDITIONS"

    def assertions(self):
        self.log.append(("self.solver.assertions",))
        return []


def _blank_path(solver):
    from collections import defaultdict

    p = object.__new__(hs.Path)
    p.solver = solver
    p.num_scopes = 0
    p.conditions = {}
    p.concretization = hs.Concretization()
    p.pending = []
    p.related = {}
    p.var_to_conds = defaultdict(set)
    p.term_to_vars = {}
    p.sliced = None
    return p


def replay_to_smt2(r):
    """real paths: the serialised query must be equivalent to the conjunction of all conditions,
    also for a child that extends a sliced parent (whose solver holds only a subset)"""
    x, y, z = z3.BitVecs("p_x_uint256 storage_y other_z", 256)
    for do_slice in (False, True):
        for cache in (False, True):
            parent = hs.Path(hu.create_solver())
            parent.append(z3.UGT(x, 5))
            parent.append(y == 1)
            if do_slice:
                parent.slice({y})
            child = hs.Path(hu.create_solver())
            child.extend_path(parent)
            child.append(z3.ULT(z, 3))
            conds = list(child.conditions)
            q = child.to_smt2(config(cache_solver=True) if cache else config())
            try:
                parsed = list(z3.parse_smt2_string(q.smtlib))
            except z3.Z3Exception as e:
                return {"reproduced": True, "detail": f"query does not parse: {e}"}
            ids = [z3.Bool(i) for i in q.assertions] if cache else []
            s = z3.Solver()
            s.add(z3.And(*(parsed + ids)) != z3.And(*(conds + ids)))
            if s.check() != z3.unsat or len(q.assertions) != len(conds):
                return {"reproduced": True, "detail": f"Path.to_smt2 (parent sliced={do_slice}, cache_solver={cache}): query has {len(parsed)} assertion(s) and is not equivalent to the {len(conds)} path conditions {conds}; query assertions: {parsed}"}
    return {"reproduced": False, "detail": "real Path.to_smt2 output is equivalent to the path conditions on the replay paths"}


def to_smt2_cases():
    out = []
    for n in (0, 1, 2, 3):
        for cache in (False, True):
            for sliced in ("not-sliced", "sliced"):

                def harness(interp, n=n, cache=cache, sliced=sliced):
                    ctx = interp.ctx
                    log = []
                    conds = [OpaqueCond(k, log) for k in range(n)]
                    p = _blank_path(SubsetSolver(None, log))
                    p.conditions = {c: True for c in conds}
                    p.sliced = None if sliced == "not-sliced" else set(range(0, n, 2))
                    the_ctx = object()
                    interp.externals[hs.Context] = lambda i, *a, **k: the_ctx
                    interp.externals[hs.create_solver] = lambda i, *a, **k: RecSolver(k.get("ctx"), log)
                    args = config(cache_solver=True) if cache else config()
                    try:
                        q = interp.call(hs.Path.to_smt2, [p, args], {})
                    except (EngineError, PathEnd):
                        raise
                    except BaseException as e:  # noqa
                        ctx.oblige(f"no-exception[{type(e).__name__}]", z3.BoolVal(False), info={"msg": str(e)[:200]})
                        return
                    ids = [str(1000 + k) for k in range(n)]
                    ctx.oblige("ids-aligned-with-conditions", z3.BoolVal(list(q.assertions) == ids))
                    asserted = [e for e in log if e[0] in ("add", "track")]
                    want = [("track", ("translated", k, the_ctx), str(1000 + k)) if cache else ("add", ("translated", k, the_ctx)) for k in range(n)]
                    ctx.oblige("every-condition-asserted-once-in-order", z3.BoolVal(asserted == want), info={"got": str(asserted)[:300]})
                    ser = [i for i, e in enumerate(log) if e[0] == "to_smt2"]
                    last_assert = max([i for i, e in enumerate(log) if e[0] in ("add", "track")], default=-1)
                    ctx.oblige("serialised-after-all-assertions", z3.BoolVal(len(ser) == 1 and ser[0] > last_assert))
                    ctx.oblige("query-text-is-the-serialisation-of-all-conditions-without-check-sat", z3.BoolVal(q.smtlib == "BODY\n\n"), info={"got": str(q.smtlib)[:80]})
                    ctx.oblige("self.solver-(possibly a subset)-is-never-serialised", z3.BoolVal(not any(e[0].startswith("self.solver.") for e in log)))

                out.append(Case(f"{PROP}/sevm.Path.to_smt2", f"n={n},cache={cache},{sliced}", harness, replay=replay_to_smt2, sources=("halmos.sevm:Path.to_smt2",)))
    return out


def path_growth_cases():
    """Path.append / Path.extend_path: self.conditions holds every accumulated constraint"""
    out = []

    for kind in ("new", "duplicate", "true", "new-after-others", "ground (no variable)", "ground after others"):

        def harness(interp, kind=kind):
            ctx = interp.ctx
            log = []
            p = _blank_path(RecSolver(None, log))
            a, b, c = z3.Bools("a b c")
            # a constraint without any variable (what Exec.sha3_data records for the hash of concrete data: f_sha3_256(0) == 0x29..)
            F = z3.Function("f_sha3_256", z3.BitVecSort(256), z3.BitVecSort(256))
            g = F(z3.BitVecVal(0, 256)) == z3.BitVecVal(0x290D, 256)
            pre = [a, b] if kind in ("duplicate", "new-after-others", "ground after others") else []
            for x in pre:
                hs.Path.append(p, x, True)
            del log[:]
            before = dict(p.conditions)
            new = {"new": c, "duplicate": a, "true": z3.BoolVal(True), "new-after-others": c, "ground (no variable)": g, "ground after others": g}[kind]
            interp.call(hs.Path.append, [p, new], {"branching": True})
            if kind.startswith("ground"):
                c = z3.simplify(g)
            if kind in ("new", "new-after-others") or kind.startswith("ground"):
                ctx.oblige("append: the condition is recorded (last, with its branching flag)", z3.BoolVal(list(p.conditions.items()) == list(before.items()) + [(c, True)]))
                ctx.oblige("append: the same condition goes to the solver", z3.BoolVal(log == [("add", c)]))
            else:
                ctx.oblige("append: a duplicate or trivially true condition changes nothing", z3.BoolVal(p.conditions == before and log == []))
            ctx.oblige("append: earlier conditions are kept", z3.BoolVal(list(p.conditions.items())[: len(before)] == list(before.items())))

        out.append(Case(f"{PROP}/sevm.Path.append", kind, harness, replay=replay_ground_constraint, sources=("halmos.sevm:Path.append",)))

    for n in (0, 1, 3):
        for sliced in ("parent-not-sliced", "parent-sliced"):

            def harness(interp, n=n, sliced=sliced):
                ctx = interp.ctx
                conds = [z3.Bool(f"c{k}") if k % 2 else (z3.BitVec(f"v{k}", 8) == k) for k in range(n)]
                parent = _blank_path(RecSolver(None, []))
                for k, x in enumerate(conds):
                    hs.Path.append(parent, x, k % 2 == 0)
                parent.sliced = None if sliced == "parent-not-sliced" else set(range(0, n, 2))
                conds = list(parent.conditions)  # as stored (simplified)
                log = []
                child = _blank_path(RecSolver(None, log))
                interp.call(hs.Path.extend_path, [child, parent], {})
                ctx.oblige("extend_path: the child carries every condition of the parent (same order and flags)", z3.BoolVal(list(child.conditions.items()) == list(parent.conditions.items())))
                ctx.oblige("extend_path: the child owns its own copy", z3.BoolVal(child.conditions is not parent.conditions and child.var_to_conds is not parent.var_to_conds and child.concretization is not parent.concretization))
                added = [e[1] for e in log if e[0] == "add"]
                if sliced == "parent-not-sliced":
                    ctx.oblige("extend_path: the solver receives every condition", z3.BoolVal(len(conds) == n and len(added) == n and all(x is y for x, y in zip(added, conds))))
                else:
                    want = [x for k, x in enumerate(conds) if k in parent.sliced]
                    ctx.oblige("extend_path: the solver receives exactly the sliced subset (only conditions of the path)", z3.BoolVal(len(added) == len(want) and all(x is y for x, y in zip(added, want))))

            out.append(Case(f"{PROP}/sevm.Path.extend_path", f"n={n},{sliced}", harness, replay=replay_to_smt2, sources=("halmos.sevm:Path.extend_path",)))
    return out


def replay_ground_constraint(r):
    """real path: keccak(x) == keccak(0) and x != 0 is infeasible because of what sha3_data records for the concrete hash"""
    from contracts.common import mk_ex, mk_sevm

    sevm = mk_sevm()
    ex = mk_ex(sevm)
    x = z3.BitVec("x", 256)
    h0 = ex.sha3_data(z3.BitVecVal(0, 256))
    hx = ex.sha3_data(x)
    ex.path.append(hx == h0)
    ex.path.append(x != 0)
    q = ex.path.to_smt2(config())
    import subprocess
    import tempfile

    with tempfile.NamedTemporaryFile("w", suffix=".smt2", delete=False) as f:
        f.write("(set-logic QF_AUFBV)\n" + q.smtlib + "\n(check-sat)\n")
        name = f.name
    out = subprocess.run(["z3", name], capture_output=True, text=True, timeout=60).stdout.strip().splitlines()[:1]
    held = len(list(ex.path.conditions))
    solver_has = len(ex.path.solver.assertions())
    if out == ["sat"] or held < solver_has:
        return {"reproduced": True, "detail": f"path keccak(x) == keccak(0), x != 0: the query written from the path is {out} (the path is infeasible under the recorded hash facts); Path.conditions holds {held} constraints, the branching solver {solver_has}: constraints without a variable are not recorded", "inputs": "sha3_data(0); sha3_data(x); append(hx == h0); append(x != 0)"}
    return {"reproduced": False, "detail": f"the serialised query is {out} and all {held} constraints are recorded"}


class RecFile:
    """stands for the pathlib.Path of the query file; `stale` = a file of that name is already there (same test name in
    another contract, an earlier depth of the invariant probe, an earlier run) holding another query"""

    def __init__(self, stale=False):
        self.text = "STALE QUERY OF ANOTHER PATH" if stale else None

    def write_text(self, t):
        self.text = t

    def exists(self):
        return self.text is not None

    is_file = exists

    def read_text(self):
        return self.text


def dump_cases():
    out = []
    for cache, refined, stale in ((False, False, False), (True, False, False), (False, True, False), (True, True, False), (False, False, True), (True, True, True)):

        def harness(interp, cache=cache, refined=refined, stale=stale):
            ctx = interp.ctx
            f = RecFile(stale)
            q = hs.SMTQuery("QUERY", ["7", "42"])

            class PC:
                pass

            pc = PC()
            pc.args = config(cache_solver=True) if cache else config()
            pc.query = q
            pc.dump_file = f
            pc.is_refined = refined  # a refined query keeps the tracked implications: it needs its named assertions too
            interp.call(hsolve.dump, [pc], {})
            if cache:
                want = "(set-option :produce-unsat-cores true)\n(set-logic QF_AUFBV)\nQUERY\n(assert (! |7| :named <7>))\n(assert (! |42| :named <42>))\n(check-sat)\n(get-model)\n(get-unsat-core)\n"
            else:
                want = "(set-logic QF_AUFBV)\nQUERY\n(check-sat)\n(get-model)\n"
            ctx.oblige("file-text-structure", z3.BoolVal(f.text == want), info={"got": str(f.text)[:300]})
            if cache and not stale:
                # the text depends on the CONTENT of the query alone: a later query whose id list happens to live at the address of an earlier,
                # reclaimed one (here: the same list object with new content) gets its own names
                q.assertions[:] = ["9"]
                f2 = RecFile()
                pc.dump_file = f2
                interp.call(hsolve.dump, [pc], {})
                want2 = "(set-option :produce-unsat-cores true)\n(set-logic QF_AUFBV)\nQUERY\n(assert (! |9| :named <9>))\n(check-sat)\n(get-model)\n(get-unsat-core)\n"
                ctx.oblige("file-text-depends-on-the-query-content-only (nothing is remembered from an earlier query at the same address)", z3.BoolVal(f2.text == want2), info={"got": str(f2.text)[:300]})

        out.append(Case(f"{PROP}/solve.dump", f"cache={cache}" + (",refined" if refined else "") + (",file-exists" if stale else ""), harness, replay=replay_script("stale_query_file.py", "a query file of the same name already exists") if stale else replay_dump_refined, sources=("halmos.solve:dump",)))
    return out


def replay_dump_refined(r):
    """real Path.to_smt2 + refine + dump under --cache-solver, solved by z3: an infeasible path must stay unsat"""
    import os
    import subprocess
    import tempfile

    args = config(cache_solver=True)
    p = hs.Path(hm.mk_solver(args))
    x = z3.BitVec("x", 256)
    p.append(z3.ULT(x, 5))
    p.append(z3.UGT(x, 7))
    q = p.to_smt2(args)
    for refined in (False, True):
        with tempfile.TemporaryDirectory() as d:
            fpath = os.path.join(d, "q.smt2")

            class F:
                def write_text(self, t):
                    open(fpath, "w").write(t)

            class PC:
                pass

            pc = PC()
            pc.args, pc.query, pc.dump_file, pc.is_refined = args, (hsolve.refine(q) if refined else q), F(), refined
            hsolve.dump(pc)
            out = subprocess.run(["z3", fpath], capture_output=True, text=True, timeout=60).stdout
            if out.strip().splitlines()[:1] != ["unsat"]:
                return {"reproduced": True, "detail": f"path conditions x < 5 and x > 7 under --cache-solver, {'refined' if refined else 'first'} query written by the real dump(): z3 answers {out.strip().splitlines()[:1]} (the tracked implications are not bound by named assertions)", "inputs": "Path(x<5, x>7).to_smt2 -> refine -> dump"}
    return {"reproduced": False, "detail": "first and refined query files of an infeasible path are unsat under --cache-solver"}


def refine_ctx_cases():
    def harness(interp):
        ctx = interp.ctx
        sentinel = hs.SMTQuery("REFINED", ["1"])
        interp.contracts["halmos.solve:refine"] = lambda i, a, k: sentinel
        import tempfile

        from pathlib import Path as _P

        sc = hsolve.SolvingContext(dump_dir=_P(tempfile.mkdtemp()))
        pc = hsolve.PathContext(args=config(), path_id=3, solving_ctx=sc, query=hs.SMTQuery("Q", ["1"]))
        r = interp.call(hsolve.PathContext.refine, [pc], {})
        ok = r.query is sentinel and r.is_refined is True and r.path_id == 3 and r.args is pc.args
        ctx.oblige("refined-context-carries-the-refined-query", z3.BoolVal(ok))
        ctx.oblige("the refined query is solved in the SAME solving context (dump directory, unsat cores, and the executor that early exit and the signal handler shut down)", z3.BoolVal(r.solving_ctx is sc), info={"same": r.solving_ctx is sc})

    return [Case(f"{PROP}/solve.PathContext.refine", "ctx", harness, sources=("halmos.solve:PathContext.refine",))]


def build_cases(tier="quick"):
    # the solver is given the file written from this path's query (C05 contract of solve_low_level)
    from contracts import c05

    ref = [Case(f"{PROP}/solve.solve_low_level#query-of-this-path", c.case, c.harness, replay=c.replay, sources=c.sources) for c in c05.timeout_cases()]
    # a path whose failure was stored before it was activated is solved with its pending condition (C13's unit); the named
    # assertions written by dump() switch every condition on only if to_smt2 exports every id (C16's unit)
    from contracts import c13, c15, c16
    from contracts.common import rewrap

    ref += rewrap(PROP, c13.delayed_error_cases(), "pending-condition-in-query")
    ref += rewrap(PROP, c16.pin_cases(), "every-condition-named", lambda c: "to_smt2" in c.unit)
    ref += rewrap(PROP, c15.slice_cases(), "sliced-state-keeps-its-constraints")
    return to_smt2_cases() + path_growth_cases() + dump_cases() + refine_ctx_cases() + ref


def ground_name_of():
    """labels of created symbols end up inside z3 symbol names: whatever the label holds, the name must be printable as an SMT-LIB symbol
    every solver accepts, and must not be cut short (exhaustive: every label of up to 3 characters over {a, space, tab, |, \\, NUL})"""
    import itertools

    import halmos.cheatcodes as hc_

    bad, n = [], 0
    for k in range(0, 4):
        for t in itertools.product("a \t|\\\x00", repeat=k):
            lab = "".join(t)
            n += 1
            try:
                r = hc_.name_of(lab)
            except Exception as e:  # noqa
                bad.append((lab, f"{type(e).__name__}"))
                continue
            c = z3.BitVec(f"halmos_{r}_uint256_abc_01", 256)
            printed = c.sexpr()
            if any(ch in r for ch in " \t\n|\\\x00") or not printed.endswith("_01") and not printed.endswith("_01|"):
                if len(bad) < 3:
                    bad.append((lab, r, printed))
    return [(f"name_of: no whitespace, `|`, backslash or NUL survives in a symbol label, and the unique suffix is kept ({n} labels)", not bad, f"first: {bad[:2]!r}"[:300])]


def grounds():
    from contracts.common import ground_script

    return [Ground(f"{PROP}/cheatcodes.name_of", ground_name_of, sources=("halmos.cheatcodes:name_of",)), Ground(f"{PROP}/cheatcodes.name_of#declared-symbols", ground_script("label_with_bar.py", "svm.createUint256(\"a|b\"): the query must be accepted by yices / cvc5", "a symbol created with a label containing `|` is declared in a form every solver parses"), sources=("halmos.cheatcodes:name_of",)), Ground(f"{PROP}/solve.refine", ground_refine, sources=("halmos.solve:refine",)), Ground(f"{PROP}/solve.refine", ground_refine_joint, sources=("halmos.solve:refine",)), Ground(f"{PROP}/lemma", ground_lemma)]


ASSUMPTIONS = [
    "refine is a text rewrite: its contract is proved for every abstraction symbol the code declares (finite domain, found by introspection) on the query text the real serialiser produces for that symbol; that the regular expressions do not touch other text is checked on those queries only (frame clause), not for arbitrary query text",
    "z3.parse_smt2_string gives the refined text its SMT-LIB meaning; the equivalence with D_f is then an SMT validity over all operand values",
    "Path.to_smt2 is proved for n <= 3 opaque conditions (bounded in n; the body treats conditions opaquely); z3's Solver.add/assert_and_track/to_smt2/translate are trusted externals",
    "Path.append / Path.extend_path are proved on concrete representative conditions (the bodies treat conditions opaquely apart from simplify/is_true/is_false and the variable-dependency bookkeeping); that every caller adds its constraints through Path.append is not under contract here",
    "pyvc and its Python-subset semantics are trusted",
]
TRUSTED = ["pyvc (this repository's verifier)", "z3 4.12.6 (parser and QF_BV solver)", "specs/evm_word.py"]
