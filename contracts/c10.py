"""C10 — incomplete exploration is always reported.

Ghost warning log W = the calls to halmos.logs.warn / warn_code / error made by the code
(kept by the verifier as the observable).  Units under contract (bodies from the AST):

  sevm.SEVM.jumpi               for every solver answer, visit count and --loop value: a direction that is
                                not proved infeasible and is not followed is recorded in
                                logs.bounded_loops; when the condition is decided (one side sat, the
                                other unsat) nothing is cut whatever --loop is; counters are advanced
  sevm.SEVM.run  #depth         the state is discarded iff --depth is set and exceeded, and then a
                                warning naming --depth is emitted
  sevm.SEVM.run  #except-arms   an unsupported feature (HalmosException) ends the path as *stuck*
                                (no output data) and the state is still reported (finalize), an
                                EvmException ends the frame with empty data, an infeasible path is dropped
  __main__.run_test #path-loop  --width: loop left iff limit set and reached, with a warning naming --width
                                stuck path is kept unless the solver proves it infeasible (=> ERROR, C05)
  __main__.run_test #loop-bound, __main__.setup #loop-bound
                                bounded_loops non-empty => LOOP_BOUND warning, read from the engine
                                that ran the paths
  __main__.run_target_function  (the per-call engine of invariant testing) the same obligation: every
                                function that owns an SEVM reports its bounded loops
  __main__._compute_frontier    a stuck call during invariant testing is logged as an error
"""
from __future__ import annotations

import ast

import z3

from contracts import jumpi_unit as JU
from pyvc import loader
from pyvc.interp import _ENGINE, Env
from contracts.common import replay_script  # noqa: E402
from pyvc.pack import Case
from pyvc.sym import SymInt, iexpr

loader.import_repo()
import halmos.__main__ as hm  # noqa: E402
import halmos.sevm as hs  # noqa: E402
from halmos.bytevec import ByteVec  # noqa: E402
from halmos.exceptions import EvmException, FailCheatcode, HalmosException, InfeasiblePath, NotConcreteError, OutOfGasError  # noqa: E402
from halmos.logs import INTERNAL_ERROR, LOOP_BOUND  # noqa: E402

PROP = "C10"


class NS:
    def __init__(self, **kw):
        self.__dict__.update(kw)


def warned_with(ctx, n0, code=None, text=None):
    for e in ctx.ghost_log[n0:]:
        if e[0] not in ("warn", "warn_code", "error"):
            continue
        args = e[1]
        if code is not None and (e[0] != "warn_code" or args[0] is not code):
            continue
        if text is not None and not any(text in str(a) for a in args):
            continue
        return True
    return False


# ---------------------------------------------------------------------------------------
def jumpi_cases():
    out = []
    for ct in JU.RES:
        for cf in JU.RES:
            for entry in ("first-visit", "visited"):

                def harness(interp, ct=ct, cf=cf, entry=entry):
                    ctx = interp.ctx
                    o = JU.observe(interp, ct, cf, entry)
                    if o is None:
                        return
                    kinds = [JU.classify(o, s, added) for s, added in o.succ]
                    raised = o.raised is not None
                    t_done = "true" in kinds or "true-error" in kinds or raised
                    f_done = "false" in kinds
                    logged = JU.JID in o.logged
                    pot_t, pot_f = ct != "unsat", cf != "unsat"
                    if raised and not o.valid and not pot_f:
                        f_done = True  # nothing to follow on the other side
                    cut = (pot_t and not t_done) or (pot_f and not f_done)
                    ctx.oblige("a direction that is not proved infeasible and not followed is recorded in bounded_loops", z3.BoolVal((not cut) or logged), info={"kinds": kinds, "logged": logged})
                    ctx.oblige("nothing is recorded when nothing is cut", z3.BoolVal(cut or not logged))
                    decided = (ct == "sat" and cf == "unsat") or (ct == "unsat" and cf == "sat")
                    if decided:
                        ctx.oblige("decided condition (constant loop): never cut, whatever --loop and the visit counts are", z3.BoolVal(not cut and not logged))
                    else:
                        vt, vf, loop = iexpr(o.vt), iexpr(o.vf), o.loop.e
                        if pot_t:
                            ctx.oblige("symbolic condition: the jump direction is followed iff its visit count is below --loop", z3.BoolVal(t_done) == (vt < loop))
                        if pot_f:
                            ctx.oblige("symbolic condition: the fall-through is followed iff its visit count is below --loop", z3.BoolVal(f_done) == (vf < loop))
                    # counters advance on the followed directions (so the bound is eventually reached)
                    for (s, added), k in zip(o.succ, kinds):
                        if k in ("true", "false") and not decided:
                            rec = s.jumpis.get(JU.JID)
                            ok = rec is not None
                            if ok:
                                want_t = vt + (1 if k == "true" else 0) if not decided else None
                                ctx.oblige(f"visit counter of the followed direction is incremented [{k}]", z3.And(iexpr(rec[True]) == iexpr(o.vt) + (1 if k == "true" else 0), iexpr(rec[False]) == iexpr(o.vf) + (1 if k == "false" else 0)))
                            else:
                                ctx.oblige(f"visit counter of the followed direction is incremented [{k}]", z3.BoolVal(False))

                out.append(Case(f"{PROP}/sevm.SEVM.jumpi", f"check(c)={ct},check(not c)={cf},{entry}", harness, replay=JU.replay_jumpi, sources=JU.SOURCES))
    return out


# ---------------------------------------------------------------------------------------
def run_while():
    sf, node = loader.find_unit("halmos.sevm:SEVM.run")
    ws = [n for n in ast.walk(node) if isinstance(n, ast.While)]
    if len(ws) != 1:
        raise loader.BindingError(f"expected one while loop in SEVM.run, found {len(ws)}")
    tries = [n for n in ws[0].body if isinstance(n, ast.Try)]
    if len(tries) != 1:
        raise loader.BindingError("expected the body of the main loop of SEVM.run to be one try statement")
    return ws[0], tries[0]


def depth_cases():
    def harness(interp):
        ctx = interp.ctx
        w, t = run_while()
        hits = [n for n in t.body if isinstance(n, ast.If) and "max_depth" in loader.names_in(n.test)]
        if len(hits) != 1:
            raise loader.BindingError("depth check of SEVM.run not found")
        max_depth, step_id = SymInt(z3.Int("max_depth")), SymInt(z3.Int("step_id"))
        ctx.assume(max_depth.e >= 0)
        ctx.assume(step_id.e >= 1)
        n0 = len(ctx.ghost_log)
        env = Env({"max_depth": max_depth, "step_id": step_id, "self": NS(fun_info=NS(sig="check_x()", contract_name="AlphaTest", name="check_x", selector="11223344"))}, None, hs.__dict__)
        kind, payload, yields = interp.exec_fragment([hits[0]], env, qual="halmos.sevm:SEVM.run#depth")
        cut = z3.And(max_depth.e > 0, step_id.e > max_depth.e)
        ctx.oblige("state discarded iff --depth is set and exceeded", z3.BoolVal(kind == "continue") == cut, info={"kind": kind})
        ctx.oblige("otherwise execution goes on", z3.BoolVal(kind in ("continue", "fallthrough")))
        if kind == "continue":
            ctx.oblige("discarding a state is reported by a warning naming --depth", z3.BoolVal(warned_with(ctx, n0, text="--depth")))
            # a warning sent through the duplicate filter is dropped when the same text was logged before (contract of
            # UniqueLoggingFilter, below): it reaches the user for every test only if its text identifies the test
            dedup = [e for e in ctx.ghost_log[n0:] if e[0] in ("warn", "warn_code", "error") and e[2].get("allow_duplicate", True) is False]
            ok = all(("AlphaTest" in str(e[1]) and "check_x()" in str(e[1])) for e in dedup)
            ctx.oblige("a de-duplicated incompleteness warning names the contract and the test (the same signature exists in many contracts)", z3.BoolVal(ok), info={"text": str([e[1] for e in dedup])[:200]})
        ctx.oblige("nothing is yielded by the depth check", z3.BoolVal(not yields))

    return [Case(f"{PROP}/sevm.SEVM.run#depth", "all limits and step counts", harness, replay=replay_depth_dedup, sources=("halmos.sevm:SEVM.run",))]


def replay_depth_dedup(r):
    """two contracts with a test of the same signature, both cut by --depth in one process: both must be warned about"""
    import logging

    from contracts.common import config, mk_ex
    from halmos.calldata import FunctionInfo

    got = []

    class H(logging.Handler):
        def emit(self, rec):
            got.append(rec.getMessage())

    h = H()
    logging.getLogger("halmos").addHandler(h)
    try:
        code = bytes([0x5B] * 10 + [0x00])
        seen = []
        for cname in ("VerifAlphaTest", "VerifBetaTest"):
            sevm = hs.SEVM(config(depth=3), FunctionInfo(cname, "check_verif_depth", "check_verif_depth()", "11223344"))
            n0 = len(got)
            list(sevm.run(mk_ex(sevm, code)))
            seen.append(sum("--depth" in m for m in got[n0:]))
    finally:
        logging.getLogger("halmos").removeHandler(h)
    if seen[1] == 0:
        return {"reproduced": True, "detail": f"two contracts each with a test check_verif_depth() cut by --depth 3 in one process: warnings per test = {seen}; the second test is cut silently (the duplicate filter compares message texts and the text does not name the contract)", "inputs": "VerifAlphaTest.check_verif_depth(), VerifBetaTest.check_verif_depth(), --depth 3"}
    return {"reproduced": False, "detail": f"both same-named tests are warned about ({seen})"}


def logs_cases():
    """halmos.logs: which warnings can be dropped.  warn / warn_code / error send to the plain logger unless the caller
    asks for de-duplication; the de-duplicating logger drops a record iff the same text was logged before"""
    import logging

    import halmos.logs as hl

    out = []

    def harness(interp):
        ctx = interp.ctx
        for name in ("warn", "warn_code", "error"):
            fn = getattr(hl, name)
            sf, node = loader.func_node(fn)
            a = node.args
            names = [x.arg for x in a.args]
            dflt = dict(zip(names[len(names) - len(a.defaults):], a.defaults))
            d = dflt.get("allow_duplicate")
            val = interp.eval(d, Env({}, None, hl.__dict__)) if d is not None else None
            ctx.oblige(f"{name}: duplicates are allowed unless the caller asks otherwise (default allow_duplicate=True)", z3.BoolVal(val is True))
        r_true = interp.call(hl.logger_for, [True], {})
        r_false = interp.call(hl.logger_for, [False], {})
        ctx.oblige("logger_for(True) is the plain `halmos` logger, which has no filter; logger_for(False) is the de-duplicating one", z3.BoolVal(r_true is hl.logger and r_true.filters == [] and r_false is hl.logger_unique and len(r_false.filters) == 1 and type(r_false.filters[0]) is hl.UniqueLoggingFilter))
        f = hl.UniqueLoggingFilter()
        rec = lambda m: NS(msg=m)  # noqa: E731
        flt = hl.UniqueLoggingFilter.__dict__["filter"]
        r1 = interp.call(flt, [f, rec("A.check_x(): cut")], {})
        r2 = interp.call(flt, [f, rec("B.check_x(): cut")], {})
        r3 = interp.call(flt, [f, rec("A.check_x(): cut")], {})
        ctx.oblige("the duplicate filter drops a record iff a record with the same text was seen before (different texts always pass)", z3.BoolVal(r1 is True and r2 is True and r3 is False))

    out.append(Case(f"{PROP}/logs#dedup-scope", "defaults, logger selection, filter", harness, replay=replay_script("loop_bound_dedup.py", "two contracts whose setUp() and tests are cut by --loop 2, run in one process"), sources=("halmos.logs:warn", "halmos.logs:warn_code", "halmos.logs:error", "halmos.logs:logger_for", "halmos.logs:UniqueLoggingFilter.filter")))

    def harness_sites(interp):
        """every LOOP_BOUND / INTERNAL_ERROR report of __main__ goes through warn_code without asking for de-duplication"""
        ctx = interp.ctx
        bad = []
        n = 0
        for mod in ("halmos.__main__", "halmos.sevm"):
            sf = loader.module_file(mod)
            for node in ast.walk(sf.tree):
                if isinstance(node, ast.Call) and getattr(node.func, "id", None) == "warn_code":
                    n += 1
                    if any(k.arg == "allow_duplicate" for k in node.keywords) or len(node.args) > 2:
                        bad.append(ast.unparse(node)[:80])
        ctx.oblige("coded warnings (loop bound, internal error, ...) are never sent through the duplicate filter", z3.BoolVal(not bad and n >= 3), info={"sites": n, "bad": str(bad)[:200]})

    out.append(Case(f"{PROP}/logs#dedup-scope", "warn_code call sites", harness_sites, sources=("halmos.__main__:run_test", "halmos.__main__:setup")))
    return out


def except_arm_cases():
    out = []
    exc_kinds = {
        "unsupported-feature (HalmosException)": lambda: HalmosException("Unsupported opcode 0x0c"),
        "not-concrete (NotConcreteError)": lambda: NotConcreteError("symbolic JUMP target"),
        "evm-exception (OutOfGas)": lambda: OutOfGasError("oog"),
        "infeasible-path": lambda: InfeasiblePath("assume(false)"),
        "fail-cheatcode": lambda: FailCheatcode("assertEq"),
        "fail-cheatcode (already halted)": lambda: FailCheatcode("assertEq"),
    }
    for name, mk in exc_kinds.items():

        def harness(interp, name=name, mk=mk):
            ctx = interp.ctx
            w, t = run_while()
            err = mk()
            halted = []
            pre_halted = "already halted" in name
            ex = NS(halt=lambda data=None, error=None: halted.append((data, error)), is_halted=lambda: pre_halted)
            fin = []

            def finalize(e):
                fin.append(e)
                return ["<finalized>"]

            stack = hs.Worklist()
            env = Env({"ex": ex, "finalize": finalize, "stack": stack}, None, hs.__dict__)
            handler = None
            for h in t.handlers:
                et = interp.eval(h.type, env)
                if isinstance(err, et):
                    handler = h
                    break
            if handler is None:
                ctx.oblige("exception class is handled by the main loop", z3.BoolVal(False), info={"exc": type(err).__name__})
                return
            if handler.name:
                env.store(handler.name, err)
            kind, payload, yields = interp.exec_fragment(handler.body, env, qual="halmos.sevm:SEVM.run#except")
            ctx.oblige("the main loop goes on with the next state", z3.BoolVal(kind == "continue"), info={"kind": kind, "payload": str(payload)[:100]})
            if isinstance(err, InfeasiblePath):
                ctx.oblige("infeasible path: dropped silently (nothing halted, nothing reported)", z3.BoolVal(not halted and not fin and not yields))
            elif isinstance(err, HalmosException):
                ctx.oblige("unsupported feature: the path ends *stuck* (no output data) carrying the error", z3.BoolVal(halted == [(None, err)]), info={"halted": str(halted)[:100]})
                ctx.oblige("unsupported feature: the stuck state is still reported (finalize), not dropped", z3.BoolVal(fin == [ex] and yields == ["<finalized>"]))
            elif isinstance(err, EvmException):
                ok = len(halted) == 1 and isinstance(halted[0][0], ByteVec) and len(halted[0][0]) == 0 and halted[0][1] is err
                ctx.oblige("EVM exception: the frame ends with empty data and that error", z3.BoolVal(ok))
                ctx.oblige("EVM exception: the end state is reported (finalize)", z3.BoolVal(fin == [ex] and yields == ["<finalized>"]))
            else:
                ok = (halted == []) if pre_halted else (len(halted) == 1 and isinstance(halted[0][0], ByteVec) and halted[0][1] is err)
                ctx.oblige("assertion-cheatcode failure: halted with data (not stuck) and yielded at once", z3.BoolVal(ok and yields == [ex] and not fin and stack.completed_paths == 1))

        out.append(Case(f"{PROP}/sevm.SEVM.run#except-arms", name, harness, sources=("halmos.sevm:SEVM.run",)))

    def harness_stuck(interp):
        ctx = interp.ctx
        for data, error, want in ((None, None, True), (None, HalmosException("x"), True), (ByteVec(), HalmosException("x"), True), (ByteVec(), None, False), (ByteVec(), OutOfGasError("x"), False)):
            cx = object.__new__(hs.CallContext)
            object.__setattr__(cx, "output", NS(data=data, error=error)) if False else None
            cx = NS(output=NS(data=data, error=error))
            r = interp.call(hs.CallContext.__dict__["is_stuck"], [cx], {})
            ctx.oblige(f"is_stuck[data={'None' if data is None else 'bytes'},error={type(error).__name__}]", z3.BoolVal(r is want))

    out.append(Case(f"{PROP}/sevm.CallContext.is_stuck", "no data or internal error", harness_stuck, sources=("halmos.sevm:CallContext.is_stuck",)))
    return out


# ---------------------------------------------------------------------------------------
def loop_bound_fragment(fn, owner_expr):
    """the `if <x>.bounded_loops:` statement of fn and the expression <x> it reads"""
    sf, node = loader.func_node(fn)
    hits = [n for n in node.body if isinstance(n, ast.If) and ast.unparse(n.test).endswith(".bounded_loops")]  # the report after the exploration (top level of the function)
    if len(hits) != 1:
        raise loader.BindingError(f"expected one `if ....bounded_loops:` in {fn.__name__}, found {len(hits)}")
    return node, hits[0]


def loop_bound_cases():
    out = []
    for fn, sig_var in ((hm.run_test, "funsig"), (hm.setup, "setup_sig")):
        for n in (0, 1, 3):

            def harness(interp, fn=fn, sig_var=sig_var, n=n):
                ctx = interp.ctx
                node, st = loop_bound_fragment(fn, None)
                logs = hs.HalmosLogs()
                logs.bounded_loops.extend([(7, (k,)) for k in range(n)])
                sevm = NS(logs=logs)
                n0 = len(ctx.ghost_log)
                env = Env({"sevm": sevm, "logs": logs, sig_var: "check_x()", "args": NS(loop=2)}, None, fn.__globals__)
                kind, payload, _ = interp.exec_fragment([st], env, qual=f"halmos.__main__:{fn.__name__}#loop-bound", is_gen=False)
                ctx.oblige("fragment-falls-through", z3.BoolVal(kind == "fallthrough"), info={"kind": kind, "payload": str(payload)[:100]})
                w = warned_with(ctx, n0, code=LOOP_BOUND)
                ctx.oblige("LOOP_BOUND warning iff some loop was cut", z3.BoolVal(w == (n > 0)))
                # the logs that are read are those of the engine that ran the paths
                src = ast.unparse(node)
                reads = ast.unparse(st.test)
                if reads == "logs.bounded_loops":
                    ok = "logs = sevm.logs" in src
                else:
                    ok = reads == "sevm.logs.bounded_loops"
                engine_ok = ("sevm = SEVM(" in src) and (("run_message(ctx, sevm," in src) or ("sevm.run(" in src))
                ctx.oblige("the logs read are those of the engine that explored the paths (syntactic)", z3.BoolVal(ok and engine_ok), info={"reads": reads})

            out.append(Case(f"{PROP}/__main__.{fn.__name__}#loop-bound", f"{n} cut loop(s)", harness, sources=(f"halmos.__main__:{fn.__name__}",)))
    return out


def setup_cases():
    """setup(): (1) a contract without setUp() still reports the loops cut in its constructor; (2) a setUp path that
    stopped inside a sub-call (stuck) is reported and never taken as the post-setUp state"""
    out = []

    for n in (0, 2):

        def harness_no_setup(interp, n=n):
            ctx = interp.ctx
            sf, node = loader.func_node(hm.setup)
            ifs = [st for st in node.body if isinstance(st, ast.If) and ast.unparse(st.test) == "not setup_sig"]
            if len(ifs) != 1:
                raise loader.BindingError("setup(): `if not setup_sig:` not found")
            logs = hs.HalmosLogs()
            logs.bounded_loops.extend([(7, (k,)) for k in range(n)])
            n0 = len(ctx.ghost_log)
            ex0 = NS(tag="deployed test contract")
            env = Env({"setup_sig": None, "args": NS(statistics=False, loop=2), "setup_timer": NS(report=lambda: ""), "setup_ex": ex0, "sevm": NS(logs=logs)}, None, hm.__dict__)
            kind, payload, _ = interp.exec_fragment([ifs[0]], env, qual="halmos.__main__:setup#no-setUp", is_gen=False)
            ctx.oblige("a contract without setUp(): the deployed state is the post-setUp state", z3.BoolVal(kind == "return" and payload is ex0), info={"kind": kind})
            ctx.oblige("a contract without setUp(): loops cut while running the constructor are reported (LOOP_BOUND) iff there are any", z3.BoolVal(warned_with(ctx, n0, code=LOOP_BOUND) == (n > 0)))

        out.append(Case(f"{PROP}/__main__.setup#no-setUp", f"{n} loop(s) cut in the constructor", harness_no_setup, sources=("halmos.__main__:setup",)))

    for kind_ in ("normal end", "revert", "stuck inside a sub-call", "stuck at the top level"):

        def harness_paths(interp, kind_=kind_):
            ctx = interp.ctx
            sf, node = loader.func_node(hm.setup)
            loops = [st for st in node.body if isinstance(st, ast.For) and "setup_exs_all" in ast.unparse(st.iter)]
            if len(loops) != 1:
                raise loader.BindingError("setup(): the loop over the setUp paths was not found")
            from halmos.bytevec import ByteVec
            from halmos.exceptions import HalmosException, Revert

            out_ = {"normal end": NS(data=ByteVec(), error=None), "revert": NS(data=ByteVec(), error=Revert()), "stuck inside a sub-call": NS(data=None, error=None), "stuck at the top level": NS(data=None, error=HalmosException("unsupported"))}[kind_]
            cx = object.__new__(hs.CallContext)
            object.__setattr__(cx, "output", out_)
            object.__setattr__(cx, "trace", [])
            path = NS(to_smt2=lambda a: "<query>")
            e = NS(context=cx, path=path, current_opcode=lambda: 0xF1)
            interp.contracts["halmos.sevm:CallContext.get_stuck_reason"] = lambda i, a, k: "unsupported opcode in a sub-call"
            n0 = len(ctx.ghost_log)
            ok_list = []
            env = Env({"setup_exs_all": [e], "setup_exs_no_error": ok_list, "args": NS(verbose=0, flamegraph=False), "flamegraph_enabled": False, "setup_sig": "setUp()"}, None, hm.__dict__)
            kind, payload, _ = interp.exec_fragment([loops[0]], env, qual="halmos.__main__:setup#paths", is_gen=False)
            ctx.oblige("the loop over the setUp paths runs to its end", z3.BoolVal(kind == "fallthrough"), info={"kind": kind, "payload": str(payload)[:100]})
            if kind_ == "normal end":
                ctx.oblige("a path that ran setUp() to its end is a candidate post-setUp state", z3.BoolVal(len(ok_list) == 1 and ok_list[0][0] is e))
            else:
                ctx.oblige("a path that did not run setUp() to its end (revert, or stopped by an unsupported feature at any call depth) is never a candidate post-setUp state", z3.BoolVal(ok_list == []), info={"candidates": len(ok_list)})
            if kind_.startswith("stuck"):
                ctx.oblige("a setUp path stopped by an unsupported feature is reported (INTERNAL_ERROR)", z3.BoolVal(warned_with(ctx, n0, code=INTERNAL_ERROR)))

        out.append(Case(f"{PROP}/__main__.setup#paths", kind_, harness_paths, replay=replay_setup_stuck, sources=("halmos.__main__:setup", "halmos.sevm:CallContext.is_stuck")))
    out += setup_selection_cases()
    return out


def setup_selection_cases():
    """setup(): with several successful setUp paths each one is kept unless its query is PROVED unsat; a timeout
    (unknown, returncode 124), a solver error or sat keeps it (and two kept paths stop the run with an error)"""
    import itertools

    from z3 import sat, unknown, unsat

    out = []
    kinds = {"unsat": unsat, "sat": sat, "unknown (timeout)": unknown, "error": hsolve_err()}
    for ka, kb in itertools.product(kinds, repeat=2):

        def harness(interp, ka=ka, kb=kb):
            ctx = interp.ctx
            sf, node = loader.func_node(hm.setup)
            ms = [st for st in node.body if isinstance(st, ast.Match) and ast.unparse(st.subject) == "setup_exs_no_error"]
            if len(ms) != 1:
                raise loader.BindingError("setup(): `match setup_exs_no_error:` not found")
            exs = [NS(tag="path 0"), NS(tag="path 1")]
            res = [kinds[ka], kinds[kb]]
            asked = []

            def solve(i, *a, **k):
                pc = a[0]
                asked.append(pc.path_id)
                return NS(result=res[pc.path_id], returncode=124 if "timeout" in (ka, kb)[pc.path_id] else 0, path_id=pc.path_id, error=None, model=None, unsat_core=None)

            interp.externals[hm.solve_low_level] = solve
            interp.externals[hm.PathContext] = lambda i, *a, **k: NS(**k)
            kept = []
            env = Env({"setup_exs_no_error": [(exs[0], "<q0>"), (exs[1], "<q1>")], "setup_exs": kept, "args": NS(), "ctx": NS(solving_ctx=NS())}, None, hm.__dict__)
            kind, payload, _ = interp.exec_fragment([ms[0]], env, qual="halmos.__main__:setup#selection", is_gen=False)
            want = [e for e, r in zip(exs, res) if r is not unsat]
            ctx.oblige("the selection runs to its end", z3.BoolVal(kind == "fallthrough"), info={"kind": kind, "payload": str(payload)[:100]})
            ctx.oblige("a successful setUp path is dropped only if its query is proved unsat: a timeout (unknown), a solver error or sat keeps it", z3.BoolVal([id(e) for e in kept] == [id(e) for e in want]), info={"kept": [e.tag for e in kept], "want": [e.tag for e in want]})
            ctx.oblige("each path's own query is the one solved (path ids 0, 1 in order)", z3.BoolVal(asked == [0, 1]))

        out.append(Case(f"{PROP}/__main__.setup#selection", f"{ka}, {kb}", harness, replay=replay_script("setup_timeout_path.py", "two successful setUp() paths, the solver times out on the first query"), sources=("halmos.__main__:setup",)))
    return out


def hsolve_err():
    import halmos.solve as hsolve_

    return getattr(hsolve_, "err", "err")


def replay_setup_stuck(r):
    """real setup() on a hand-assembled test contract whose setUp() calls a helper that hits an unsupported opcode"""
    import logging

    from halmos.bytevec import ByteVec  # noqa: F401
    from halmos.calldata import FunctionInfo
    from halmos.mapper import BuildOut
    from halmos.solve import ContractContext, FunctionContext

    got = []

    class H(logging.Handler):
        def emit(self, rec):
            got.append(rec.getMessage())

    h = H()
    logging.getLogger("halmos").addHandler(h)
    try:
        helper = bytes([0x0C])  # unsupported opcode
        # runtime of the test contract: setUp() { helper.call(""); sstore(0, 1) } (any selector): CALL helper, then SSTORE(0,1), STOP
        HELPER = 0xAAAA0001
        runtime = bytes([0x60, 0, 0x60, 0, 0x60, 0, 0x60, 0, 0x60, 0, 0x63]) + HELPER.to_bytes(4, "big") + bytes([0x5A, 0xF1, 0x50, 0x60, 1, 0x60, 0, 0x55, 0x00])
        # constructor: deploy `helper` is not possible without CREATE plumbing here; instead pre-install it through vm.etch-like direct code map after deploy_test
        init = bytes([0x60, len(runtime), 0x60, 0x0C, 0x60, 0, 0x39, 0x60, len(runtime), 0x60, 0, 0xF3]) + runtime
        args = hm.default_config() if hasattr(hm, "default_config") else None
        from halmos.config import default_config

        args = default_config()
        BuildOut().set_build_out({})
        mi = {"setUp()": "0a9254e4"}
        from halmos.calldata import get_abi

        cj = {"abi": [{"type": "function", "name": "setUp", "inputs": [], "outputs": [], "stateMutability": "nonpayable"}], "methodIdentifiers": mi}
        cctx = ContractContext(args=args, name="T", funsigs=[], creation_hexcode=init.hex(), deployed_hexcode=runtime.hex(), abi=get_abi(cj), method_identifiers=mi, contract_json=cj, libs={}, build_out_map={})
        fctx = FunctionContext(args=args, info=FunctionInfo("T", "setUp", "setUp()", "0a9254e4"), solver=hm.mk_solver(args), contract_ctx=cctx)
        real_deploy = hm.deploy_test

        def deploy_and_install(ctx_, sevm_):
            ex = real_deploy(ctx_, sevm_)
            from halmos.utils import con_addr

            ex.code[con_addr(HELPER)] = hs.Contract(helper)
            ex.storage[con_addr(HELPER)] = sevm_.mk_storagedata()
            ex.transient_storage[con_addr(HELPER)] = sevm_.mk_storagedata()
            return ex

        hm.deploy_test = deploy_and_install
        try:
            try:
                ex = hm.setup(fctx)
                outcome = "returned a post-setUp state"
            except Exception as e:  # noqa
                ex, outcome = None, f"raised {type(e).__name__}: {e}"
        finally:
            hm.deploy_test = real_deploy
    finally:
        logging.getLogger("halmos").removeHandler(h)
    warned = [m for m in got if "stuck" in m or "internal" in m.lower() or "Unsupported" in m]
    if ex is not None and not warned:
        return {"reproduced": True, "detail": "setUp() calls a helper whose first opcode is unsupported (0x0c): setup() returned the state at the point where execution stopped as the post-setUp state, with no warning; every test of the contract would start from a half-executed setUp()", "inputs": "setUp() { helper.call(''); flag = 1 } with helper code 0c"}
    return {"reproduced": False, "detail": f"setup() {outcome}; warnings: {warned[:1]}"}


class StubGenSevm:
    """an engine whose run cuts `n` loops while it yields two end states"""

    def __init__(self, n):
        self.logs = hs.HalmosLogs()
        self.n = n
        self.ran = 0

    def run_message(self, ex, message, path):
        self.ran += 1
        self.logs.bounded_loops.extend([(7, (k,)) for k in range(self.n)])
        return ["<end state 1>", "<end state 2>"]


def owner_cases():
    out = []
    for n in (0, 2):

        def harness(interp, n=n):
            ctx = interp.ctx
            made = []

            def mk_sevm(i, a, k):
                s = StubGenSevm(n)
                made.append(s)
                return s

            interp.contracts["halmos.sevm:SEVM"] = mk_sevm
            interp.contracts["halmos.__main__:mk_solver"] = lambda i, a, k: "<solver>"
            interp.contracts["halmos.sevm:Path"] = lambda i, a, k: NS(extend_path=lambda p: None, process_dyn_params=lambda d: None, append=lambda c: None)
            interp.contracts["halmos.calldata:mk_calldata"] = lambda i, a, k: ("<calldata>", [])
            interp.contracts["halmos.__main__:mk_calldata"] = lambda i, a, k: ("<calldata>", [])
            interp.contracts["halmos.sevm:Message"] = lambda i, a, k: NS(**k)
            interp.contracts["halmos.__main__:reset"] = lambda i, a, k: None
            interp.externals[hm.reset] = lambda i, *a, **k: None
            interp.externals[hm.mk_calldata] = lambda i, *a, **k: ("<calldata>", [])
            interp.externals[hm.mk_solver] = lambda i, *a, **k: "<solver>"
            n0 = len(ctx.ghost_log)
            ex = NS(path="<path>", new_symbol_id=lambda: 1)
            fun_info = NS(sig="transfer(address,uint256)", name="transfer")
            try:
                g = interp.call(hm.run_target_function, [NS(loop=2), ex, "<addr>", {}, fun_info, "<origin>", "<sender>", "<value>"], {})
                outs = list(g)
            except BaseException as e:
                if isinstance(e, _ENGINE):
                    raise
                ctx.oblige(f"no-exception[{type(e).__name__}]", z3.BoolVal(False), info={"msg": str(e)[:200]})
                return
            ctx.oblige("every end state of the call is passed on", z3.BoolVal(outs == ["<end state 1>", "<end state 2>"] and len(made) == 1 and made[0].ran == 1))
            w = warned_with(ctx, n0, code=LOOP_BOUND)
            ctx.oblige("loops cut during an invariant-test call are reported (LOOP_BOUND) by the function that owns the engine", z3.BoolVal(w == (n > 0)), info={"cut": n, "warned": w})

        out.append(Case(f"{PROP}/__main__.run_target_function", f"{n} cut loop(s)", harness, replay=replay_owner, sources=("halmos.__main__:run_target_function",)))
    return out


def replay_owner(r):
    """real run_target_function on a contract whose loop has a symbolic bound"""
    import io
    from contextlib import redirect_stderr, redirect_stdout

    from contracts.common import config, mk_ex, mk_sevm
    from halmos.calldata import FunctionInfo
    import halmos.logs as hl

    # loop: x = calldataload(4); while x != 0: x -= 1
    # 0: PUSH1 4; 2: CALLDATALOAD; 3: JUMPDEST; 4: DUP1; 5: ISZERO; 6: PUSH1 0x11; 8: JUMPI; 9: PUSH1 1; 11: SWAP1; 12: SUB; 13: PUSH1 3; 15: JUMP; 16: STOP ; 17: JUMPDEST; 18: STOP
    code = bytes([0x60, 4, 0x35, 0x5B, 0x80, 0x15, 0x60, 0x11, 0x57, 0x60, 1, 0x90, 0x03, 0x60, 3, 0x56, 0x00, 0x5B, 0x00])
    sevm0 = mk_sevm()
    ex = mk_ex(sevm0, code)
    addr = next(iter(ex.code))
    abi = {"f(uint256)": {"type": "function", "name": "f", "inputs": [{"name": "x", "type": "uint256"}]}}
    seen = []
    orig = hl.warn_code
    orig_main = hm.warn_code

    def spy(code_, msg, *a, **k):
        seen.append((code_, msg))

    hm.warn_code = spy
    try:
        args = config()
        fi = FunctionInfo("C", "f", "f(uint256)", "b3de648b")
        with redirect_stdout(io.StringIO()), redirect_stderr(io.StringIO()):
            outs = list(hm.run_target_function(args, ex, addr, abi, fi, z3.BitVec("o", 160), z3.BitVec("s", 160), z3.BitVec("v", 256)))
    except Exception as e:  # noqa
        return {"reproduced": None, "detail": f"replay could not drive run_target_function: {type(e).__name__}: {e}"}
    finally:
        hm.warn_code = orig_main
    cut = len(outs) >= 1 and not any(c is LOOP_BOUND for c, _ in seen)
    if cut and len(outs) <= args.loop + 1:
        return {"reproduced": True, "detail": f"run_target_function on a loop with a symbolic bound returned {len(outs)} path(s) (unrolling bound --loop {args.loop}) and emitted no LOOP_BOUND warning: the cut is silent", "inputs": code.hex()}
    return {"reproduced": False, "detail": f"{len(outs)} path(s); warnings: {[str(c) for c, _ in seen]}"}


def engine_logs_frame_cases():
    """the engine's record of cut loops only grows while it runs messages (nothing resets it between the
    states of one test, whose LOOP_BOUND check reads it once at the end)"""
    out = []

    def harness(interp):
        ctx = interp.ctx
        from contracts.common import mk_ex, mk_sevm

        sevm = mk_sevm()
        logs0 = sevm.logs
        logs0.bounded_loops.append((7, (1,)))
        pre = mk_ex(sevm)
        ran = []

        def run(i, a, k):
            ran.append(a[1])
            a[0].logs.bounded_loops.append((9, (2,)))
            return ["<end state>"]

        interp.contracts["halmos.sevm:SEVM.run"] = run
        msg = hs.Message(target=next(iter(pre.code)), caller=z3.BitVec("c", 160), origin=z3.BitVec("o", 160), value=0, data=ByteVec(), call_scheme=0xF1)
        outs = list(interp.call(hs.SEVM.__dict__["run_message"], [sevm, pre, msg, pre.path], {}))
        ctx.oblige("run_message yields what run yields for one fresh top-level state", z3.BoolVal(outs == ["<end state>"] and len(ran) == 1))
        ctx.oblige("frame: run_message keeps the engine's record of cut loops (same object, earlier entries kept, new ones added)", z3.BoolVal(sevm.logs is logs0 and logs0.bounded_loops == [(7, (1,)), (9, (2,))]), info={"logs": str(sevm.logs.bounded_loops)})

    out.append(Case(f"{PROP}/sevm.SEVM.run_message#logs-frame", "one message after an earlier cut", harness, sources=("halmos.sevm:SEVM.run_message",)))

    def ground_like(interp):
        ctx = interp.ctx
        import ast as _ast

        sf = loader.module_file("halmos.sevm")
        bad = []
        for n in _ast.walk(sf.tree):
            if isinstance(n, (_ast.Assign, _ast.AugAssign)):
                tg = n.targets if isinstance(n, _ast.Assign) else [n.target]
                for t_ in tg:
                    src = _ast.unparse(t_)
                    if src in ("self.logs", "self.logs.bounded_loops") and not (isinstance(n, _ast.Assign) and _ast.unparse(n.value) in ("HalmosLogs()", "[]") and any(isinstance(f, _ast.FunctionDef) and f.name == "__init__" and n in list(_ast.walk(f)) for f in _ast.walk(sf.tree))):
                        bad.append(f"line {n.lineno}: {_ast.unparse(n)[:60]}")
            if isinstance(n, _ast.Call) and _ast.unparse(n.func) in ("self.logs.bounded_loops.clear", "self.logs.bounded_loops.pop"):
                bad.append(f"line {n.lineno}: {_ast.unparse(n)[:60]}")
        ctx.oblige("the record of cut loops is created in __init__ only and never reset or shrunk anywhere in sevm.py (syntactic)", z3.BoolVal(not bad), info={"statements": str(bad)[:200]})

    out.append(Case(f"{PROP}/sevm.SEVM#logs-frame", "module scan", ground_like, sources=("halmos.sevm:SEVM.__init__",)))
    return out


def width_and_stuck_cases():
    from contracts import c05

    out = []
    for c in c05.classification_cases():
        kind = c.case
        if kind.startswith(("stuck", "substuck")) or kind in ("success", "revert"):
            out.append(Case(f"{PROP}/__main__.run_test#path-loop", kind, c.harness, replay=replay_script("nested_stuck_classification.py", "a test that calls a helper whose first opcode is unsupported"), sources=c.sources))
    return out


def frontier_stuck_cases():
    def harness(interp):
        ctx = interp.ctx
        sf, node = loader.func_node(hm._compute_frontier)
        loops = [n for n in ast.walk(node) if isinstance(n, ast.For) and ast.unparse(n.iter) == "post_exs"]
        if len(loops) != 1:
            raise loader.BindingError("loop over post_exs not found in _compute_frontier")
        hits = [n for n in loops[0].body if isinstance(n, ast.If) and "is_stuck" in ast.unparse(n.test)]
        if len(hits) != 1:
            raise loader.BindingError("stuck check not found in _compute_frontier")
        for stuck in (True, False):
            n0 = len(ctx.ghost_log)
            sub = NS(is_stuck=lambda s=stuck: s, get_stuck_reason=lambda: "Unsupported opcode")
            env = Env({"subcall": sub, "depth": 1, "addr": z3.BitVecVal(0xAA, 160)}, None, hm.__dict__)
            kind, payload, _ = interp.exec_fragment([hits[0]], env, qual="halmos.__main__:_compute_frontier#stuck")
            if stuck:
                ctx.oblige("a stuck call in invariant testing is reported as an error", z3.BoolVal(kind == "continue" and warned_with(ctx, n0)), info={"kind": kind})
            else:
                ctx.oblige("a call that is not stuck is not reported", z3.BoolVal(kind == "fallthrough" and not warned_with(ctx, n0)))

    return [Case(f"{PROP}/__main__._compute_frontier#stuck", "stuck / not stuck", harness, sources=("halmos.__main__:_compute_frontier",))]


def unsupported_jump_ref():
    """an unsupported feature that stops a path is flagged: a symbolic jump target without --symbolic-jump ends the path stuck (C02's unit)"""
    from contracts import c02
    from contracts.common import rewrap

    return rewrap(PROP, c02.symbolic_jump_cases(), "unsupported-is-flagged")


def frontier_body_cases():
    """the body of the target-call loop of _compute_frontier, in the order the code runs it (C15's unit): a stuck call is
    logged before any `ignore` exit"""
    from contracts import c15
    from contracts.common import rewrap

    return rewrap(PROP, c15.frontier_cases(), "stuck-call-reported", lambda c: c.case in ("stuck", "reverted"))


def build_cases(tier="quick"):
    return unsupported_jump_ref() + frontier_body_cases() + logs_cases() + setup_cases() + jumpi_cases() + depth_cases() + except_arm_cases() + loop_bound_cases() + owner_cases() + engine_logs_frame_cases() + width_and_stuck_cases() + frontier_stuck_cases()


ASSUMPTIONS = [
    "pyvc (VC generator, Python-subset semantics) is trusted; path covers guard vacuity",
    "the observable is the ghost log of calls to halmos.logs.warn / warn_code / error; their rendering (and the duplicate filter of warn(allow_duplicate=False): the --depth warning is printed once per distinct message per process) is not modelled",
    "Exec.check and create_branch are used through their contracts in the jumpi proof; the worklist discipline of SEVM.run is not under contract",
    "a stuck path makes the test non-PASS through the verdict chain proved in the C05 pack (stuck > 0 => ERROR)",
    "the engine-ownership clause for run_test / setup is partly syntactic (the statement reading bounded_loops names the engine object that is passed to run_message / run)",
]
TRUSTED = ["pyvc (this repository's verifier)", "z3 4.12.6 (LIA)"]
TECHNIQUE = "fragment and function VCs generated from the real source AST by pyvc (solver answers, visit counts, --loop/--depth/--width values universally quantified; ghost warning log), z3"
