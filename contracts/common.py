"""shared harness helpers: real SEVM / Exec objects built through halmos's own constructors"""
from __future__ import annotations

import z3

from pyvc import loader

loader.import_repo()

import halmos.__main__ as hm  # noqa: E402
import halmos.sevm as hs  # noqa: E402
from halmos.bytevec import ByteVec  # noqa: E402
from halmos.config import default_config  # noqa: E402
from halmos.utils import EVM  # noqa: E402

_args = None


def config(**overrides):
    global _args
    if _args is None:
        _args = default_config()
    if overrides:
        from halmos.config import ConfigSource

        return _args.with_overrides(source=ConfigSource.command_line, **overrides)
    return _args


def mk_sevm(**overrides):
    return hs.SEVM(config(**overrides), hs.FunctionInfo())


THIS = z3.BitVec("this_address", 160)
CALLER = z3.BitVec("msg_sender", 160)
ORIGIN = z3.BitVec("tx_origin", 160)
CALLVALUE = z3.BitVec("msg_value", 256)


def mk_ex(sevm, code=b"\x00", data=None, is_static=False, scheme=None, value=None):
    contract = hs.Contract(code) if not isinstance(code, hs.Contract) else code
    msg = hs.Message(
        target=THIS,
        caller=CALLER,
        origin=ORIGIN,
        value=CALLVALUE if value is None else value,
        data=ByteVec() if data is None else data,
        call_scheme=scheme or EVM.CALL,
        is_static=is_static,
    )
    balance = z3.Array("balance_0", z3.BitVecSort(160), z3.BitVecSort(256))
    ex = sevm.mk_exec(
        code={THIS: contract},
        storage={THIS: sevm.mk_storagedata()},
        transient_storage={THIS: sevm.mk_storagedata()},
        balance=balance,
        block=hm.mk_block(),
        context=hs.CallContext(msg),
        pgm=contract,
        path=hs.Path(hm.mk_solver(config())),
    )
    return ex


class RecordingPath:
    """stub for ex.path in units that only append conditions"""

    def __init__(self):
        self.appended = []

    def append(self, cond, branching=False):
        self.appended.append(cond)


class StubEx:
    def __init__(self):
        self.path = RecordingPath()


def rewrap(prop, cases, tag, pred=None):
    """re-use the cases of another pack under this property's id (the obligations are the same; the property that
    depends on them names them as its own, so that a change breaking them is reported for it too)"""
    from pyvc.pack import Case

    out = []
    for c in cases:
        if pred is not None and not pred(c):
            continue
        out.append(Case(f"{prop}/" + c.unit.split("/", 1)[1] + f"#{tag}", c.case, c.harness, replay=c.replay, contracts=c.contracts, externals=c.externals, loop_specs=c.loop_specs, opts=c.opts, sources=c.sources))
    return out


def ground_script(name, what, claim):
    """a ground obligation decided by a native scenario script on the real code (exit 1 = the scenario shows the violation)"""

    def run():
        rep = replay_script(name, what)({})
        return [(claim, not rep.get("reproduced"), str(rep.get("detail"))[:400])]

    return run


def replay_script(name, what):
    """native replay by a standalone script under contracts/replays/ (exit 0 = property holds on the real code,
    exit 1 = the script's scenario breaks it; anything else = could not run)"""
    import os
    import subprocess
    import sys

    path = os.path.join(os.path.dirname(os.path.abspath(__file__)), "replays", name)

    def replay(r):
        env = dict(os.environ, PYTHONPATH=loader.REPO_SRC)
        try:
            p = subprocess.run([sys.executable, path], capture_output=True, text=True, timeout=600, env=env, cwd=os.path.dirname(path))
        except Exception as e:  # noqa
            return {"reproduced": None, "detail": f"replay script {name} could not run: {type(e).__name__}: {e}"}
        tail = " | ".join(l.strip() for l in (p.stdout or "").strip().splitlines()[-6:])[:700]
        if p.returncode == 1:
            return {"reproduced": True, "detail": f"{what}: {tail}", "inputs": f"contracts/replays/{name}"}
        if p.returncode == 0:
            return {"reproduced": False, "detail": f"{what}: the scenario of contracts/replays/{name} behaves correctly on the real code"}
        return {"reproduced": None, "detail": f"replay script {name} exited {p.returncode}: {(p.stderr or '')[-300:]}"}

    return replay
