"""C06 — word-level instruction semantics are exact and total.

Sidecar contracts for halmos.bitvec (HalmosBitVec / HalmosBool operations), halmos.sevm
(`bitwise`, `SEVM.arith`, `SEVM.sym_byte_of`) and the dispatch arms of `SEVM.run` for the word
instructions.  The postconditions come from the property statement and the Yellow Paper table
in /verif/specs/evm_word.py, not from the code.

Contract of every operation (DESIGN 4/C06):
  requires  operand sizes equal; class invariants of the operands; abstraction = the f_evm_*
            declaration used at the call sites in sevm.py
  ensures   (a) no exception            (clause no-exception[<type>])
            (b) class invariant of the result, right size   (clause inv/...)
            (c) den(result) = SPEC(den(operands)) under the exact definitions D_f (clause meaning)
            (d) cost: no unbounded-cost big-int operation (clauses cost/pow, cost/shift)
"""
from __future__ import annotations

import ast
import itertools
import random

import z3

from pyvc import loader
from pyvc.interp import Env, PathEnd
from pyvc.pack import Bounded, Case, Ground
from pyvc.sym import SymBool, SymInt, int_input, iexpr, is_sym, to_bv
from specs import evm_word as W

loader.import_repo()
import halmos.bitvec as hb  # noqa: E402
import halmos.sevm as hs  # noqa: E402

PROP = "C06"
DEFS = W.definitions(hs)

# --------------------------------------------------------------------------------------
# operands


def mk_bv(ctx, name, kind, size=256):
    """kind: 'int' (int-backed, symbolic value), 'term' (term-backed), ('const', c),
    'int!pow2' (int-backed, value not a power of two >= 2)"""
    if isinstance(kind, tuple) and kind[0] == "const":
        return hb.HalmosBitVec(kind[1], size=size)
    o = object.__new__(hb.HalmosBitVec)
    o._size = size
    if kind in ("int", "int!pow2"):
        s = ctx.new_int_input(name, size)
        if kind == "int!pow2":
            b = s.view[0]
            ctx.assume(z3.And(*[s.e != (1 << k) for k in range(1, size)]), z3.And(*[b != (1 << k) for k in range(1, size)]))
        o._value = s
        o._symbolic = False
    elif kind == "term":
        o._value = z3.BitVec(name, size)
        o._symbolic = True
    else:
        raise ValueError(kind)
    return o


def mk_bool(ctx, name, kind):
    if kind == "T":
        return hb.TRUE
    if kind == "F":
        return hb.FALSE
    o = object.__new__(hb.HalmosBool)
    o.con_val = None
    o.sym_val = z3.Bool(name)
    return o


def den_bv(o, size=None):
    """bit-vector denotation of a HalmosBitVec / HalmosBool / raw value (as a word of `size`)"""
    if type(o) is hb.HalmosBool:
        b = den_bool_b(o)
        n = size or 256
        return z3.If(b, z3.BitVecVal(1, n), z3.BitVecVal(0, n))
    if type(o) is hb.HalmosBitVec:
        v = o._value
        if o._symbolic is True:
            t = v
        else:
            t = to_bv(v, o._size)
        t = W.interpret(t, DEFS)
        return t
    raise TypeError(type(o))


def den_int(o):
    if type(o) is hb.HalmosBitVec and o._symbolic is False:
        return iexpr(o._value)
    return None


def den_bool_b(o):
    if o is hb.TRUE:
        return z3.BoolVal(True)
    if o is hb.FALSE:
        return z3.BoolVal(False)
    t = o.sym_val
    return W.interpret(t, DEFS)


def singletons_intact():
    return hb.TRUE.con_val is True and hb.TRUE.sym_val is None and hb.FALSE.con_val is False and hb.FALSE.sym_val is None


def restore_singletons():
    hb.TRUE.con_val, hb.TRUE.sym_val, hb.FALSE.con_val, hb.FALSE.sym_val = True, None, False, None


def replay_singletons(method):
    """native: the comparison of a symbolic word with itself, then the concrete-ness queries on TRUE/FALSE"""

    def replay(r):
        x = hb.HalmosBitVec(z3.BitVec("x", 256))
        try:
            res = getattr(x, method)(x)
            bad = not singletons_intact()
            detail = f"x.{method}(x) for a symbolic word x returns {'TRUE' if res is hb.TRUE else 'FALSE' if res is hb.FALSE else res!r}; afterwards TRUE=(con_val={hb.TRUE.con_val!r}, sym_val={hb.TRUE.sym_val!r}) FALSE=(con_val={hb.FALSE.con_val!r}, sym_val={hb.FALSE.sym_val!r})"
            if bad:
                try:
                    int(res)
                except Exception as e:  # noqa
                    detail += f"; int(result) raises {type(e).__name__}: {e}"
        finally:
            restore_singletons()
        return {"reproduced": bad, "detail": detail, "inputs": ["x", "x"]}

    return replay


def check_inv(ctx, r, size, tag="result"):
    """class invariant of a result value"""
    if type(r) is hb.HalmosBitVec:
        ctx.oblige(f"inv/{tag}-size", z3.BoolVal(r._size == size and not is_sym(r._size)))
        if r._symbolic is False:
            v = r._value
            if isinstance(v, int) and not is_sym(v):
                ctx.oblige(f"inv/{tag}-range", z3.BoolVal(0 <= v < (1 << size)))
            elif type(v) is SymInt:
                exact = v.view is not None and v.view[2] and v.view[1] <= size
                ctx.oblige(f"inv/{tag}-range", z3.And(v.e >= 0, v.e < (1 << size)), z3.BoolVal(True) if exact else z3.And(v.e >= 0, v.e < (1 << size)))
            else:
                ctx.oblige(f"inv/{tag}-range", z3.BoolVal(False), info={"value_type": type(v).__name__})
        elif r._symbolic is True:
            v = r._value
            ok = isinstance(v, z3.BitVecRef) and v.size() == size
            ctx.oblige(f"inv/{tag}-term-width", z3.BoolVal(ok))
        else:
            ctx.oblige(f"inv/{tag}-flag", z3.BoolVal(False))
    elif type(r) is hb.HalmosBool:
        if r is hb.TRUE or r is hb.FALSE:
            # the singletons are shared by every word of every path: no operation may re-initialise
            # them (python runs __init__ on whatever __new__ returns)
            ok = singletons_intact()
            ctx.oblige(f"inv/{tag}-bool", z3.BoolVal(ok), info={"TRUE": (repr(hb.TRUE.con_val), repr(hb.TRUE.sym_val)), "FALSE": (repr(hb.FALSE.con_val), repr(hb.FALSE.sym_val))})
            if not ok:
                restore_singletons()
        else:
            ok = r.con_val is None and isinstance(r.sym_val, z3.BoolRef)
            ctx.oblige(f"inv/{tag}-bool", z3.BoolVal(ok))
    else:
        ctx.oblige(f"inv/{tag}-type", z3.BoolVal(False), info={"type": type(r).__name__})


def meaning(ctx, spec, operands, result, size, *, bool_result=False, out_size=None, clause="meaning"):
    """den(result) == SPEC(den(operands)); operands are HalmosBitVec/HalmosBool or python ints
    (int operands of the API such as byte(idx) / signextend(size))"""
    out_size = out_size or size
    args_b, args_i, all_int = [], [], True
    for o in operands:
        if is_sym(o) or isinstance(o, int):
            args_b.append(to_bv(o, size))
            args_i.append(iexpr(o))
        else:
            args_b.append(den_bv(o, size))
            di = den_int(o)
            if di is None:
                all_int = False
            args_i.append(di)
    spec_b = W.BV[spec](*args_b, size=size)
    if spec in W.BOOL_RESULT:
        spec_b = z3.If(spec_b, z3.BitVecVal(1, out_size), z3.BitVecVal(0, out_size))
    elif out_size != size:
        spec_b = z3.Extract(out_size - 1, 0, spec_b) if out_size < size else z3.ZeroExt(out_size - size, spec_b)
    res_b = den_bv(result, out_size)
    goal_b = res_b == spec_b
    goal_i = goal_b
    if all_int and spec in W.INT:
        ri = den_int(result)
        if type(result) is hb.HalmosBool and (result is hb.TRUE or result is hb.FALSE):
            ri = z3.IntVal(1 if result is hb.TRUE else 0)
        if ri is not None:
            si = W.INT[spec](*args_i, size=size)
            if spec in W.BOOL_RESULT:
                si = z3.If(si, z3.IntVal(1), z3.IntVal(0))
            elif out_size < size:
                si = si % (1 << out_size)
            goal_i = ri == si
    ctx.oblige(clause, goal_i, goal_b)


def pow_axioms(ctx, base_obj, size, ks=(0, 1, 2, 3, 4, 5)):
    """defining equations of exponentiation for the specification functions (int and bv form)"""
    f = W.bv_exp_uf(size)
    from pyvc.sym import POW

    xb = den_bv(base_obj, size)
    prev = z3.BitVecVal(1, size)
    for k in ks:
        if k == 0:
            ctx.assume(z3.BoolVal(True), f(xb, z3.BitVecVal(0, size)) == 1)
        else:
            prev = xb * prev if k > 1 else xb
            ctx.assume(z3.BoolVal(True), f(xb, z3.BitVecVal(k, size)) == prev)
    xi = den_int(base_obj)
    if xi is not None:
        ctx.assume(z3.And(POW(xi, 0) == 1, POW(xi, 1) == xi), z3.BoolVal(True))


# --------------------------------------------------------------------------------------
# HalmosBitVec methods


def kinds_for(role, method):
    """operand shapes; power-of-two fast paths get one concrete case per exponent"""
    base = ["int", "term"]
    return base


def f_mod(n):
    return hs.f_mod[n]


def f_mul(n):
    return hs.f_mul[n]


# method -> (spec, operand order, kwargs factory, special splits)
BIN = {
    "add": ("ADD", None),
    "sub": ("SUB", None),
    "mul": ("MUL", lambda s: {"abstraction": f_mul(s)}),
    "div": ("DIV", lambda s: {"abstraction": hs.f_div}),
    "sdiv": ("SDIV", lambda s: {"abstraction": hs.f_sdiv}),
    "mod": ("MOD", lambda s: {"abstraction": f_mod(s)}),
    "smod": ("SMOD", lambda s: {"abstraction": hs.f_smod}),
    "bitwise_and": ("AND", None),
    "bitwise_or": ("OR", None),
    "bitwise_xor": ("XOR", None),
    "ult": ("LT", None),
    "ugt": ("GT", None),
    "slt": ("SLT", None),
    "sgt": ("SGT", None),
    "ule": ("ULE", None),
    "uge": ("UGE", None),
    "eq": ("EQ", None),
}
SHIFT = {"lshl": "SHL", "lshr": "SHR", "ashr": "SAR"}
POW2_SPLIT = {"mul": (0, 1), "div": (1,), "mod": (1,)}  # which operand positions have a power-of-two fast path


def call_method(interp, obj, name, args, kwargs):
    cls = type(obj)
    f = cls.__dict__[name]
    return interp.call(f, [obj] + list(args), kwargs)


def guarded(interp, thunk, allowed=()):
    """run thunk; an exception is a refutable obligation no-exception[<type>] unless allowed"""
    try:
        return True, thunk()
    except (PathEnd,):
        raise
    except BaseException as e:
        from pyvc.interp import _ENGINE

        if isinstance(e, _ENGINE):
            raise
        if isinstance(e, allowed):
            return False, e
        interp.ctx.oblige(f"no-exception[{type(e).__name__}]", z3.BoolVal(False), info={"exc": type(e).__name__, "msg": str(e)[:200]})
        return False, e


def replay_bv_method(method, spec, kinds, size, kwargs_f, arg_order=None, extra_int=None, out_size=None):
    """native replay: build concrete/symbolic operands from the model, run the real method,
    compare with the pure-python reference"""

    def replay(r):
        model = r.get("model") or {}
        names = ["a", "b", "c"][: len(kinds)]
        vals = []
        objs = []
        sub = []
        for nm, k in zip(names, kinds):
            if isinstance(k, tuple):
                v = k[1]
                if extra_int is not None and k[0] == "pyint":
                    objs.append(v)
                else:
                    objs.append(hb.HalmosBitVec(v, size=size))
            elif k == "pyint":
                v = model.get(nm + "!i", model.get(nm, 0))
                objs.append(v)
            else:
                if str(r.get("form") or "").startswith("int"):
                    v = model.get(nm + "!i", model.get(nm, 0))
                else:
                    v = model.get(nm, model.get(nm + "!i", 0))
                if not isinstance(v, int):
                    v = 0
                v %= 1 << size
                if k == "term":
                    x = z3.BitVec(nm, size)
                    objs.append(hb.HalmosBitVec(x, size=size))
                    sub.append((x, z3.BitVecVal(v, size)))
                else:
                    objs.append(hb.HalmosBitVec(v, size=size))
            vals.append(v)
        kwargs = kwargs_f(size) if kwargs_f else {}
        desc = f"HalmosBitVec.{method} kinds={kinds} values={[hex(v) if isinstance(v, int) else v for v in vals]}"
        import signal

        def on_alarm(*a):
            raise TimeoutError("not produced within 10 s")

        old = signal.signal(signal.SIGALRM, on_alarm)
        signal.alarm(10)
        try:
            try:
                res = getattr(objs[0], method)(*objs[1:], **kwargs)
            finally:
                signal.alarm(0)
                signal.signal(signal.SIGALRM, old)
        except BaseException as e:  # noqa
            return {"reproduced": True, "detail": f"{desc}: raised {type(e).__name__}: {e}", "inputs": vals}
        order = arg_order or list(range(len(vals)))
        exp = W.PY[spec](*[vals[i] for i in order], size=size)
        if out_size:
            exp %= 1 << out_size
        got = concrete_den(res, sub)
        if got != exp:
            return {"reproduced": True, "detail": f"{desc}: result denotes {got:#x}, EVM says {exp:#x}", "inputs": vals}
        return {"reproduced": False, "detail": f"{desc}: real code agrees with the reference ({exp:#x}) on the solver's model", "inputs": vals}

    return replay


def concrete_den(res, sub):
    if type(res) is hb.HalmosBool:
        v = res.value
        if isinstance(v, bool):
            return int(v)
        t = v
    else:
        v = res.value
        if isinstance(v, int):
            return v
        t = v
    t = W.interpret(t, DEFS_CONCRETE)
    t = z3.simplify(z3.substitute(t, *sub)) if sub else z3.simplify(t)
    if z3.is_true(t):
        return 1
    if z3.is_false(t):
        return 0
    if z3.is_bv_value(t):
        return t.as_long()
    # evaluate through a model (e.g. spec_exp applied to constants)
    return -1


def _concrete_defs():
    out = []
    for f, body in DEFS:
        if f.name() == "f_evm_exp_256":
            continue
        out.append((f, body))
    return out


DEFS_CONCRETE = _concrete_defs()


def bv_binary_case(method, ka, kb, size=256):
    spec, kwf = BIN[method]

    def harness(interp):
        ctx = interp.ctx
        a = mk_bv(ctx, "a", ka, size)
        b = a if kb == "same" else mk_bv(ctx, "b", kb, size)  # 'same': the two operands are one term (DUP1; op)
        kwargs = kwf(size) if kwf else {}
        ok, r = guarded(interp, lambda: call_method(interp, a, method, [b], kwargs))
        if not ok:
            return
        check_inv(ctx, r, size)
        meaning(ctx, spec, [a, b], r, size)

    def kname(k):
        return k if isinstance(k, str) else (f"2^{k[1].bit_length() - 1}" if k[1] > 1 and k[1] & (k[1] - 1) == 0 else f"c{k[1]}")

    return Case(
        f"{PROP}/bitvec.HalmosBitVec.{method}",
        f"{kname(ka)},{kname(kb)}@{size}",
        harness,
        replay=replay_singletons(method) if kb == "same" and spec in W.BOOL_RESULT else replay_bv_method(method, spec, [ka, ka if kb == "same" else kb], size, kwf),
        sources=(f"halmos.bitvec:HalmosBitVec.{method}", "halmos.bitvec:HalmosBitVec.__init__", "halmos.bitvec:HalmosBitVec.__new__", "halmos.bitvec:HalmosBool.__init__", "halmos.bitvec:HalmosBool.__new__"),
    )


def bv_binary_cases(sizes=(256,)):
    out = []
    for size in sizes:
        for method in BIN:
            split = POW2_SPLIT.get(method, ())
            for ka, kb in itertools.product(["int", "term"], repeat=2):
                kinds = [ka, kb]
                variants = [tuple(kinds)]
                # power-of-two fast paths: one concrete case per exponent for the int-backed
                # operand at that position while the other operand is term-backed, and the
                # generic int case excludes powers of two >= 2 (complete split: r = 2^k for
                # some k in [1,size) or not)
                for pos in split:
                    other = 1 - pos
                    if kinds[pos] == "int" and kinds[other] == "term":
                        generic = list(kinds)
                        generic[pos] = "int!pow2"
                        variants = [tuple(generic)]
                        for k in range(1, size):
                            v = list(kinds)
                            v[pos] = ("const", 1 << k)
                            variants.append(tuple(v))
                for va, vb in variants:
                    out.append(bv_binary_case(method, va, vb, size))
            out.append(bv_binary_case(method, "term", "same", size))
    return out


def shift_cases(size=256):
    out = []
    for method, spec in SHIFT.items():
        for ka, kb in itertools.product(["int", "term"], repeat=2):

            def harness(interp, method=method, spec=spec, ka=ka, kb=kb):
                ctx = interp.ctx
                a = mk_bv(ctx, "a", ka, size)  # value
                b = mk_bv(ctx, "b", kb, size)  # shift amount
                ok, r = guarded(interp, lambda: call_method(interp, a, method, [b], {}))
                if not ok:
                    return
                check_inv(ctx, r, size)
                meaning(ctx, spec, [b, a], r, size)

            out.append(
                Case(
                    f"{PROP}/bitvec.HalmosBitVec.{method}",
                    f"{ka},{kb}@{size}",
                    harness,
                    replay=replay_bv_method(method, spec, [ka, kb], size, None, arg_order=[1, 0]),
                    sources=(f"halmos.bitvec:HalmosBitVec.{method}",),
                )
            )
    return out


def unary_cases(size=256):
    out = []
    for method, spec in (("bitwise_not", "NOT"), ("is_zero", "ISZERO")):
        for ka in ("int", "term"):

            def harness(interp, method=method, spec=spec, ka=ka):
                ctx = interp.ctx
                a = mk_bv(ctx, "a", ka, size)
                ok, r = guarded(interp, lambda: call_method(interp, a, method, [], {}))
                if not ok:
                    return
                check_inv(ctx, r, size)
                meaning(ctx, spec, [a], r, size)

            out.append(Case(f"{PROP}/bitvec.HalmosBitVec.{method}", f"{ka}@{size}", harness, replay=replay_bv_method(method, spec, [ka], size, None), sources=(f"halmos.bitvec:HalmosBitVec.{method}",)))

    # is_non_zero = not ISZERO
    for ka in ("int", "term"):

        def harness(interp, ka=ka):
            ctx = interp.ctx
            a = mk_bv(ctx, "a", ka, size)
            ok, r = guarded(interp, lambda: call_method(interp, a, "is_non_zero", [], {}))
            if not ok:
                return
            check_inv(ctx, r, size)
            rb = den_bool_b(r)
            ab = den_bv(a, size)
            ctx.oblige("meaning", rb == (ab != 0))

        out.append(Case(f"{PROP}/bitvec.HalmosBitVec.is_non_zero", f"{ka}@{size}", harness, sources=("halmos.bitvec:HalmosBitVec.is_non_zero",)))
    return out


def ternary_cases(size=256):
    out = []
    for method, spec in (("addmod", "ADDMOD"), ("mulmod", "MULMOD")):
        for kinds in itertools.product(["int", "term"], repeat=3):

            def kwf(s, method=method):
                if method == "addmod":
                    return {"abstraction": f_mod(s + 8)}
                return {"mul_abstraction": f_mul(2 * s), "mod_abstraction": f_mod(2 * s)}

            variants = [kinds]
            # power-of-two fast paths of the inner mul/mod: concrete exponent cases for an
            # int-backed modulus / factor next to term-backed partners
            def harness(interp, method=method, spec=spec, kinds=kinds, kwf=kwf):
                ctx = interp.ctx
                a = mk_bv(ctx, "a", kinds[0], size)
                b = mk_bv(ctx, "b", kinds[1], size)
                n = mk_bv(ctx, "c", kinds[2], size)
                ok, r = guarded(interp, lambda: call_method(interp, a, method, [b, n], kwf(size)))
                if not ok:
                    return
                check_inv(ctx, r, size)
                meaning(ctx, spec, [a, b, n], r, size)

            out.append(Case(f"{PROP}/bitvec.HalmosBitVec.{method}", ",".join(kinds) + f"@{size}", harness, replay=replay_bv_method(method, spec, list(kinds), size, kwf), sources=(f"halmos.bitvec:HalmosBitVec.{method}", "halmos.bitvec:HalmosBitVec.mod", "halmos.bitvec:HalmosBitVec.mul", "halmos.bitvec:HalmosBitVec.add")))
    return out



# --------------------------------------------------------------------------------------
# contracts used modularly by callers (a caller is checked against these, not the bodies)


def _same_decl(a, b):
    if a is b:
        return True
    try:
        return isinstance(a, z3.FuncDeclRef) and isinstance(b, z3.FuncDeclRef) and a.eq(b)
    except Exception:
        return False


def fresh_bv_result(ctx, spec, ops, size, out_size=None, tag="r"):
    """havoc + assume post: a HalmosBitVec of unknown representation denoting SPEC(ops)"""
    out_size = out_size or size
    args_b, args_i, all_int = [], [], True
    for o in ops:
        if is_sym(o) or isinstance(o, int):
            args_b.append(to_bv(o, size))
            args_i.append(iexpr(o))
        else:
            args_b.append(den_bv(o, size))
            di = den_int(o)
            all_int = all_int and di is not None
            args_i.append(di)
    spec_b = W.BV[spec](*args_b, size=size)
    if out_size != size:
        spec_b = z3.Extract(out_size - 1, 0, spec_b) if out_size < size else z3.ZeroExt(out_size - size, spec_b)
    name = ctx.fresh(tag)
    o = object.__new__(hb.HalmosBitVec)
    o._size = out_size
    if ctx.choose(2) == 0:
        r = z3.BitVec(name, out_size)
        ctx.assume(r == spec_b)
        o._value = r
        o._symbolic = True
    else:
        s = ctx.new_int_input(name, out_size)
        fi = z3.BoolVal(True)
        if all_int and spec in W.INT and out_size == size:
            fi = s.e == W.INT[spec](*args_i, size=size)
        ctx.assume_checked(fi, s.view[0] == spec_b)
        o._value = s
        o._symbolic = False
    return o


def fresh_bool_result(ctx, spec_bool_b, tag="p"):
    k = ctx.choose(3)
    if k == 0:
        ctx.assume_checked(spec_bool_b)
        return hb.TRUE
    if k == 1:
        ctx.assume_checked(z3.Not(spec_bool_b))
        return hb.FALSE
    o = object.__new__(hb.HalmosBool)
    o.con_val = None
    p = z3.Bool(ctx.fresh(tag))
    ctx.assume(p == spec_bool_b)
    o.sym_val = p
    return o


def bv_method_contract(method, spec, expected_kwargs=None, order=None, bool_result=False):
    def contract(interp, args, kwargs):
        ctx = interp.ctx
        self_ = args[0]
        others = list(args[1:])
        size = self_._size
        ok = all(type(o) is hb.HalmosBitVec and o._size == size for o in others)
        ctx.oblige(f"pre[{method}]/sizes-equal", z3.BoolVal(ok))
        if expected_kwargs is not None:
            exp = expected_kwargs(size)
            good = set(kwargs) <= set(exp) | {"smt_exp_by_const"} and all(_same_decl(kwargs.get(k), v) for k, v in exp.items())
            ctx.oblige(f"pre[{method}]/abstraction-is-declared-f_evm", z3.BoolVal(bool(good)), info={"kwargs": list(kwargs)})
        elif kwargs:
            ctx.oblige(f"pre[{method}]/no-kwargs", z3.BoolVal(False))
        ops = [self_] + others
        if order:
            ops = [ops[i] for i in order]
        if bool_result:
            sb = W.BV[spec](*[den_bv(o, size) for o in ops], size=size)
            return fresh_bool_result(ctx, sb)
        return fresh_bv_result(ctx, spec, ops, size)

    return contract


def exp_kwargs(size):
    return {"exp_abstraction": hs.f_exp, "mul_abstraction": f_mul(size)}


def bv_contracts():
    c = {}
    for m, (spec, kwf) in BIN.items():
        c[f"halmos.bitvec:HalmosBitVec.{m}"] = bv_method_contract(m, spec, kwf, bool_result=spec in W.BOOL_RESULT)
    for m, spec in SHIFT.items():
        c[f"halmos.bitvec:HalmosBitVec.{m}"] = bv_method_contract(m, spec, None, order=[1, 0])
    c["halmos.bitvec:HalmosBitVec.bitwise_not"] = bv_method_contract("bitwise_not", "NOT")
    c["halmos.bitvec:HalmosBitVec.is_zero"] = bv_method_contract("is_zero", "ISZERO", bool_result=True)
    c["halmos.bitvec:HalmosBitVec.exp"] = bv_method_contract("exp", "EXP", exp_kwargs)
    c["halmos.bitvec:HalmosBitVec.addmod"] = bv_method_contract("addmod", "ADDMOD", lambda s: {"abstraction": f_mod(s + 8)})
    c["halmos.bitvec:HalmosBitVec.mulmod"] = bv_method_contract("mulmod", "MULMOD", lambda s: {"mul_abstraction": f_mul(2 * s), "mod_abstraction": f_mod(2 * s)})

    def signextend(interp, args, kwargs):
        ctx = interp.ctx
        self_, k = args
        ctx.oblige("pre[signextend]/size-256", z3.BoolVal(self_._size == 256))
        return fresh_bv_result(ctx, "SIGNEXTEND", [k, self_], 256)

    c["halmos.bitvec:HalmosBitVec.signextend"] = signextend

    def byte(interp, args, kwargs):
        ctx = interp.ctx
        self_, idx = args
        out = kwargs.get("output_size", 8)
        nonneg = interp.compare(ast.GtE, idx, 0)
        ctx.oblige("pre[byte]/idx-nonnegative", *( (nonneg.i, nonneg.b) if type(nonneg) is SymBool else (z3.BoolVal(bool(nonneg)),)))
        return fresh_bv_result(ctx, "BYTE", [idx, self_], 256, out_size=out)

    c["halmos.bitvec:HalmosBitVec.byte"] = byte
    return c


def bool_contracts():
    c = {}

    def unary_not(name):
        def f(interp, args, kwargs):
            return fresh_bool_result(interp.ctx, z3.Not(den_bool_b(args[0])))

        return f

    for n in ("is_zero", "neg", "bitwise_not"):
        c[f"halmos.bitvec:HalmosBool.{n}"] = unary_not(n)

    def binary(fn):
        def f(interp, args, kwargs):
            a, b = args
            interp.ctx.oblige("pre[bool-op]/both-bool", z3.BoolVal(type(a) is hb.HalmosBool and type(b) is hb.HalmosBool))
            return fresh_bool_result(interp.ctx, fn(den_bool_b(a), den_bool_b(b)))

        return f

    c["halmos.bitvec:HalmosBool.bitwise_and"] = binary(z3.And)
    c["halmos.bitvec:HalmosBool.bitwise_or"] = binary(z3.Or)
    c["halmos.bitvec:HalmosBool.bitwise_xor"] = binary(z3.Xor)
    c["halmos.bitvec:HalmosBool.eq"] = binary(lambda x, y: x == y)
    return c


def sevm_contracts():
    c = {}

    def bitwise(interp, args, kwargs):
        op, x, y = args
        spec = {hs.OP_AND: "AND", hs.OP_OR: "OR", hs.OP_XOR: "XOR"}.get(op)
        interp.ctx.oblige("pre[bitwise]/op", z3.BoolVal(spec is not None))
        if type(x) is hb.HalmosBool and type(y) is hb.HalmosBool:
            fn = {"AND": z3.And, "OR": z3.Or, "XOR": z3.Xor}[spec]
            return fresh_bool_result(interp.ctx, fn(den_bool_b(x), den_bool_b(y)))
        return fresh_bv_result(interp.ctx, spec, [x, y], 256)

    c["halmos.sevm:bitwise"] = bitwise

    def arith(interp, args, kwargs):
        self_, ex, op, w1, w2 = args
        spec = ARITH_SPEC.get(op)
        interp.ctx.oblige("pre[arith]/op", z3.BoolVal(spec is not None))
        interp.ctx.oblige("pre[arith]/operands", z3.BoolVal(type(w1) is hb.HalmosBitVec and type(w2) is hb.HalmosBitVec and w1._size == 256 and w2._size == 256))
        # frame: may append conditions to ex.path that are valid under D_f (proved for arith itself)
        return fresh_bv_result(interp.ctx, spec, [w1, w2], 256)

    c["halmos.sevm:SEVM.arith"] = arith

    def sym_byte_of(interp, args, kwargs):
        self_, idx, w = args
        ok = isinstance(idx, z3.BitVecRef) and isinstance(w, z3.BitVecRef) and idx.size() == 256 and w.size() == 256
        interp.ctx.oblige("pre[sym_byte_of]/terms-256", z3.BoolVal(ok))
        r = z3.BitVec(interp.ctx.fresh("byte"), 256)
        interp.ctx.assume(r == W.interpret(W.bv_byte(idx, w), DEFS))
        return r

    c["halmos.sevm:SEVM.sym_byte_of"] = sym_byte_of
    return c


ARITH_SPEC = {hs.OP_ADD: "ADD", hs.OP_SUB: "SUB", hs.OP_MUL: "MUL", hs.OP_DIV: "DIV", hs.OP_MOD: "MOD", hs.OP_SDIV: "SDIV", hs.OP_SMOD: "SMOD", hs.OP_EXP: "EXP"}


def pick(contracts, *names):
    return {k: v for k, v in contracts.items() if k.rsplit(".", 1)[-1] in names or k in names}


# --------------------------------------------------------------------------------------
# ternary ops, exp, signextend, byte (callers of other operations: verified against contracts)


def ternary_cases(size=256):
    out = []
    inner = pick(bv_contracts(), "add", "mul", "mod")
    for method, spec in (("addmod", "ADDMOD"), ("mulmod", "MULMOD")):
        for kinds in itertools.product(["int", "term"], repeat=3):

            def kwf(s, method=method):
                if method == "addmod":
                    return {"abstraction": f_mod(s + 8)}
                return {"mul_abstraction": f_mul(2 * s), "mod_abstraction": f_mod(2 * s)}

            def harness(interp, method=method, spec=spec, kinds=kinds, kwf=kwf):
                ctx = interp.ctx
                a = mk_bv(ctx, "a", kinds[0], size)
                b = mk_bv(ctx, "b", kinds[1], size)
                n = mk_bv(ctx, "c", kinds[2], size)
                ok, r = guarded(interp, lambda: call_method(interp, a, method, [b, n], kwf(size)))
                if not ok:
                    return
                check_inv(ctx, r, size)
                meaning(ctx, spec, [a, b, n], r, size)

            out.append(Case(f"{PROP}/bitvec.HalmosBitVec.{method}", ",".join(kinds) + f"@{size}", harness, contracts=inner, replay=replay_bv_method(method, spec, list(kinds), size, kwf), sources=(f"halmos.bitvec:HalmosBitVec.{method}",)))
    return out


def exp_cases(size=256):
    out = []
    inner = pick(bv_contracts(), "mul")
    kwf = lambda s: {"exp_abstraction": hs.f_exp, "mul_abstraction": f_mul(s)}  # noqa
    for by_const in (0, 2, 5):
        shapes = list(itertools.product(["int", "term"], ["int", "term"]))
        shapes += [(ka, ("const", c)) for ka in ("int", "term") for c in (0, 1, 2, 3, 4, 5, 6)]
        for ka, kb in shapes:

            def harness(interp, ka=ka, kb=kb, by_const=by_const):
                ctx = interp.ctx
                a = mk_bv(ctx, "a", ka, size)
                b = mk_bv(ctx, "b", kb, size)
                if kb == "int" and by_const >= 2:
                    # complete split of the exponent: the constants 0..6 are separate cases
                    ctx.assume(b._value.e > by_const, z3.UGT(b._value.view[0], by_const))
                pow_axioms(ctx, a, size)
                kw = dict(kwf(size), smt_exp_by_const=by_const)
                ok, r = guarded(interp, lambda: call_method(interp, a, "exp", [b], kw))
                if not ok:
                    return
                check_inv(ctx, r, size)
                meaning(ctx, "EXP", [a, b], r, size)

            kb_name = kb if isinstance(kb, str) else f"c{kb[1]}"
            out.append(Case(f"{PROP}/bitvec.HalmosBitVec.exp", f"{ka},{kb_name}@{size};smt_exp_by_const={by_const}", harness, contracts=inner, replay=replay_bv_method("exp", "EXP", [ka, kb], size, lambda s, by_const=by_const: dict(kwf(s), smt_exp_by_const=by_const)), sources=("halmos.bitvec:HalmosBitVec.exp",)))
    return out


def signextend_cases():
    out = []
    for ka in ("int", "term"):
        ks = [("pyint", k) for k in range(0, 31)] + ["pyint>=31"]
        for kk in ks:

            def harness(interp, ka=ka, kk=kk):
                ctx = interp.ctx
                a = mk_bv(ctx, "a", ka, 256)
                if kk == "pyint>=31":
                    k = ctx.new_int_input("b", 256)
                    ctx.assume(k.e >= 31, z3.UGE(k.view[0], 31))
                else:
                    k = kk[1]
                ok, r = guarded(interp, lambda: call_method(interp, a, "signextend", [k], {}))
                if not ok:
                    return
                check_inv(ctx, r, 256)
                meaning(ctx, "SIGNEXTEND", [k, a], r, 256)

            nm = kk if isinstance(kk, str) else f"k={kk[1]}"
            out.append(Case(f"{PROP}/bitvec.HalmosBitVec.signextend", f"{ka};{nm}", harness, replay=replay_bv_method("signextend", "SIGNEXTEND", [ka, kk if not isinstance(kk, str) else "pyint"], 256, None, arg_order=[1, 0], extra_int=True), sources=("halmos.bitvec:HalmosBitVec.signextend",)))
    return out


def byte_cases():
    out = []
    for ka in ("int", "term"):
        for out_size in (8, 256):
            ks = [("pyint", k) for k in range(0, 32)] + ["pyint>=32"]
            for kk in ks:

                def harness(interp, ka=ka, kk=kk, out_size=out_size):
                    ctx = interp.ctx
                    a = mk_bv(ctx, "a", ka, 256)
                    if kk == "pyint>=32":
                        k = ctx.new_int_input("b", 256)
                        ctx.assume(k.e >= 32, z3.UGE(k.view[0], 32))
                    else:
                        k = kk[1]
                    ok, r = guarded(interp, lambda: call_method(interp, a, "byte", [k], {"output_size": out_size}))
                    if not ok:
                        return
                    check_inv(ctx, r, out_size)
                    meaning(ctx, "BYTE", [k, a], r, 256, out_size=out_size)

                nm = kk if isinstance(kk, str) else f"i={kk[1]}"
                out.append(Case(f"{PROP}/bitvec.HalmosBitVec.byte", f"{ka};{nm};out={out_size}", harness, replay=replay_bv_method("byte", "BYTE", [ka, kk if not isinstance(kk, str) else "pyint"], 256, lambda s, out_size=out_size: {"output_size": out_size}, arg_order=[1, 0], extra_int=True, out_size=out_size), sources=("halmos.bitvec:HalmosBitVec.byte",)))
    return out


# --------------------------------------------------------------------------------------
# HalmosBool


def bool_cases():
    out = []
    kinds = ("T", "F", "sym")
    for method in ("is_zero", "neg", "bitwise_not", "is_non_zero"):
        for ka in kinds:

            def harness(interp, method=method, ka=ka):
                ctx = interp.ctx
                a = mk_bool(ctx, "p", ka)
                ok, r = guarded(interp, lambda: call_method(interp, a, method, [], {}))
                if not ok:
                    return
                check_inv(ctx, r, 1)
                want = den_bool_b(a) if method == "is_non_zero" else z3.Not(den_bool_b(a))
                ctx.oblige("meaning", den_bool_b(r) == want)

            out.append(Case(f"{PROP}/bitvec.HalmosBool.{method}", ka, harness, sources=(f"halmos.bitvec:HalmosBool.{method}",)))
    for method, fn in (("bitwise_and", z3.And), ("bitwise_or", z3.Or), ("bitwise_xor", z3.Xor), ("eq", lambda x, y: x == y)):
        for ka, kb in itertools.product(kinds, repeat=2):

            def harness(interp, method=method, fn=fn, ka=ka, kb=kb):
                ctx = interp.ctx
                a = mk_bool(ctx, "p", ka)
                b = mk_bool(ctx, "q", kb)
                ok, r = guarded(interp, lambda: call_method(interp, a, method, [b], {}))
                if not ok:
                    return
                check_inv(ctx, r, 1)
                ctx.oblige("meaning", den_bool_b(r) == fn(den_bool_b(a), den_bool_b(b)))

            out.append(Case(f"{PROP}/bitvec.HalmosBool.{method}", f"{ka},{kb}", harness, sources=(f"halmos.bitvec:HalmosBool.{method}",)))
    # Bool -> word coercion
    for ka in kinds:
        for size in (1, 8, 256):

            def harness(interp, ka=ka, size=size):
                ctx = interp.ctx
                a = mk_bool(ctx, "p", ka)
                ok, r = guarded(interp, lambda: call_method(interp, a, "as_bv", [], {"size": size}))
                if not ok:
                    return
                check_inv(ctx, r, size)
                ctx.oblige("meaning", den_bv(r, size) == z3.If(den_bool_b(a), z3.BitVecVal(1, size), z3.BitVecVal(0, size)))

            out.append(Case(f"{PROP}/bitvec.HalmosBool.as_bv", f"{ka}@{size}", harness, sources=("halmos.bitvec:HalmosBool.as_bv",)))
    return out


def constructor_cases():
    """HalmosBitVec(value, size=) and HalmosBool(value): class invariant established, meaning
    = truncation / zero-extension of the argument"""
    out = []

    def mk(kind, ctx):
        if kind == "pyint":
            s = ctx.new_int_input("a", 300)  # any non-negative python int below 2^300
            return s, s.view[0], 300
        if kind == "pyint-neg":
            s = ctx.new_int_input("a", 300)  # minus any such int: two's complement at any width
            neg = interp_neg(s)
            return neg, -(z3.ZeroExt(300, s.view[0])), 600
        if kind in ("int", "term"):
            o = mk_bv(ctx, "a", kind, 256)
            return o, den_bv(o, 256), 256
        if kind == "z3term":
            x = z3.BitVec("a", 256)
            return x, x, 256
        if kind == "z3term8":
            x = z3.BitVec("a", 8)
            return x, x, 8
        if kind in ("T", "F", "sym"):
            o = mk_bool(ctx, "p", kind)
            return o, z3.If(den_bool_b(o), z3.BitVecVal(1, 1), z3.BitVecVal(0, 1)), 1
        if kind == "z3bool":
            p = z3.Bool("p")
            return p, z3.If(p, z3.BitVecVal(1, 1), z3.BitVecVal(0, 1)), 1
        raise ValueError(kind)

    def interp_neg(s):
        return SymInt(-s.e, (-(z3.ZeroExt(300, s.view[0])), 600, False))

    for kind in ("pyint", "pyint-neg", "int", "term", "z3term", "z3term8", "T", "F", "sym", "z3bool"):
        for size in (8, 160, 256, 264, 512):

            def harness(interp, kind=kind, size=size):
                ctx = interp.ctx
                v, vb, w = mk(kind, ctx)
                ok, r = guarded(interp, lambda: interp.call(hb.HalmosBitVec, [v], {"size": size}))
                if not ok:
                    return
                check_inv(ctx, r, size)
                want = vb if w == size else (z3.Extract(size - 1, 0, vb) if w > size else z3.ZeroExt(size - w, vb))
                ctx.oblige("meaning", den_bv(r, size) == want)

            out.append(Case(f"{PROP}/bitvec.HalmosBitVec.__init__", f"{kind}->{size}", harness, sources=("halmos.bitvec:HalmosBitVec.__init__", "halmos.bitvec:HalmosBitVec.__new__", "halmos.bitvec:as_int")))

    # HalmosBitVec(v) with no size, v an existing value of any width: v itself, untouched (values are shared: stack, DUP)
    for kind in ("int", "term"):
        for width in (1, 8, 160, 256, 264, 512):

            def harness_same(interp, kind=kind, width=width):
                ctx = interp.ctx
                v = mk_bv(ctx, "a", kind, width)
                before = (v._size, v._symbolic, v._value)
                ok, r = guarded(interp, lambda: interp.call(hb.HalmosBitVec, [v], {}))
                if not ok:
                    return
                ctx.oblige("without a size an existing value is returned as it is", z3.BoolVal(r is v))
                ctx.oblige("frame: the value keeps its width, kind and content (values are immutable)", z3.BoolVal(v._size == before[0] and v._symbolic is before[1] and v._value is before[2]), info={"size": v._size})

            def replay_same(r, width=width):
                x = hb.HalmosBitVec(5, size=width)
                hb.HalmosBitVec(x)
                return {"reproduced": x.size != width, "detail": f"x = HalmosBitVec(5, size={width}); HalmosBitVec(x); x.size == {x.size}", "inputs": [5, width]}

            out.append(Case(f"{PROP}/bitvec.HalmosBitVec.__init__", f"{kind}@{width}, no size given", harness_same, replay=replay_same, sources=("halmos.bitvec:HalmosBitVec.__init__", "halmos.bitvec:HalmosBitVec.__new__")))

    for kind in ("int", "term", "T", "F", "sym", "z3bool", "pybool"):

        def harness(interp, kind=kind):
            ctx = interp.ctx
            if kind == "pybool":
                p = z3.Bool("p")
                v, want = SymBool(p), p
            elif kind in ("int", "term"):
                v = mk_bv(ctx, "a", kind, 256)
                want = den_bv(v, 256) != 0
            elif kind == "z3bool":
                v = z3.Bool("p")
                want = v
            else:
                v = mk_bool(ctx, "p", kind)
                want = den_bool_b(v)
            ok, r = guarded(interp, lambda: interp.call(hb.HalmosBool, [v], {}))
            if not ok:
                return
            check_inv(ctx, r, 1)
            ctx.oblige("meaning", den_bool_b(r) == want)

        out.append(Case(f"{PROP}/bitvec.HalmosBool.__new__", kind, harness, sources=("halmos.bitvec:HalmosBool.__new__", "halmos.bitvec:HalmosBool.__init__")))
    return out


# --------------------------------------------------------------------------------------
# sevm: bitwise, arith, sym_byte_of


STACK_KINDS = ("int", "term", "T", "F", "sym")


def mk_word(ctx, name, kind):
    if kind in ("int", "term"):
        return mk_bv(ctx, name, kind, 256)
    return mk_bool(ctx, name, kind)


def den_word(o):
    return den_bv(o, 256)


def word_inv(ctx, r, tag="result"):
    if type(r) is hb.HalmosBool:
        check_inv(ctx, r, 1, tag)
    else:
        check_inv(ctx, r, 256, tag)


def bitwise_cases():
    out = []
    inner = {}
    inner.update(pick(bv_contracts(), "bitwise_and", "bitwise_or", "bitwise_xor"))
    inner.update(pick(bool_contracts(), "halmos.bitvec:HalmosBool.bitwise_and", "halmos.bitvec:HalmosBool.bitwise_or", "halmos.bitvec:HalmosBool.bitwise_xor"))
    inner = {k: v for k, v in inner.items()}
    for op, spec in ((hs.OP_AND, "AND"), (hs.OP_OR, "OR"), (hs.OP_XOR, "XOR")):
        for ka, kb in itertools.product(STACK_KINDS, repeat=2):

            def harness(interp, op=op, spec=spec, ka=ka, kb=kb):
                ctx = interp.ctx
                a = mk_word(ctx, "a", ka)
                b = mk_word(ctx, "b", kb)
                ok, r = guarded(interp, lambda: interp.call(hs.bitwise, [op, a, b], {}))
                if not ok:
                    return
                word_inv(ctx, r)
                ctx.oblige("meaning", den_word(r) == W.BV[spec](den_word(a), den_word(b)))

            out.append(Case(f"{PROP}/sevm.bitwise", f"{spec};{ka},{kb}", harness, contracts=inner, sources=("halmos.sevm:bitwise",)))
    return out


def arith_cases():
    out = []
    from contracts.common import StubEx, mk_sevm

    inner = pick(bv_contracts(), "add", "sub", "mul", "div", "mod", "sdiv", "smod", "exp")
    for op, spec in ARITH_SPEC.items():
        for ka, kb in itertools.product(["int", "term"], repeat=2):

            def harness(interp, op=op, spec=spec, ka=ka, kb=kb):
                ctx = interp.ctx
                sevm = mk_sevm()
                ex = StubEx()
                a = mk_bv(ctx, "a", ka, 256)
                b = mk_bv(ctx, "b", kb, 256)
                ok, r = guarded(interp, lambda: interp.call(hs.SEVM.arith, [sevm, ex, op, a, b], {}))
                if not ok:
                    return
                check_inv(ctx, r, 256)
                meaning(ctx, spec, [a, b], r, 256)
                # every auxiliary condition added to the path is valid under the exact definitions
                for k, cond in enumerate(ex.path.appended):
                    ctx.oblige(f"axiom-valid[{k}]", W.interpret(cond, DEFS) if isinstance(cond, z3.ExprRef) else z3.BoolVal(False))

            out.append(Case(f"{PROP}/sevm.SEVM.arith", f"{spec};{ka},{kb}", harness, contracts=inner, sources=("halmos.sevm:SEVM.arith",)))
    return out


def sym_byte_cases():
    from contracts.common import mk_sevm

    def harness(interp):
        ctx = interp.ctx
        sevm = mk_sevm()
        idx = z3.BitVec("a", 256)
        w = z3.BitVec("b", 256)
        ok, r = guarded(interp, lambda: interp.call(hs.SEVM.sym_byte_of, [sevm, idx, w], {}))
        if not ok:
            return
        ctx.oblige("inv/result-term-width", z3.BoolVal(isinstance(r, z3.BitVecRef) and r.size() == 256))
        ctx.oblige("meaning", r == W.bv_byte(idx, w))

    return [Case(f"{PROP}/sevm.SEVM.sym_byte_of", "term,term", harness, sources=("halmos.sevm:SEVM.sym_byte_of",))]


# --------------------------------------------------------------------------------------
# dispatch arms of SEVM.run


def run_dispatch_chain():
    """the if/elif chain of the opcode dispatch inside SEVM.run (first `if` whose test mentions OP_PUSH1)"""
    sf, fn = loader.find_unit("halmos.sevm:SEVM.run")
    first = loader.find_dispatch_arm(fn, "OP_PUSH1")
    return sf, fn, first


def select_arm(interp, first, env):
    """evaluate the dispatch tests in order with the real globals, return the body that runs"""
    node = first
    while True:
        if interp.truth(interp.eval(node.test, env)):
            return node.body
        if len(node.orelse) == 1 and isinstance(node.orelse[0], ast.If):
            node = node.orelse[0]
            continue
        return node.orelse


# opcode -> (spec, arity, operand order: stack positions (0 = top) in spec-argument order)
WORD_OPS = {
    "ADD": (hs.OP_ADD, 2), "MUL": (hs.OP_MUL, 2), "SUB": (hs.OP_SUB, 2), "DIV": (hs.OP_DIV, 2), "SDIV": (hs.OP_SDIV, 2),
    "MOD": (hs.OP_MOD, 2), "SMOD": (hs.OP_SMOD, 2), "ADDMOD": (hs.OP_ADDMOD, 3), "MULMOD": (hs.OP_MULMOD, 3), "EXP": (hs.OP_EXP, 2),
    "SIGNEXTEND": (hs.OP_SIGNEXTEND, 2), "LT": (hs.OP_LT, 2), "GT": (hs.OP_GT, 2), "SLT": (hs.OP_SLT, 2), "SGT": (hs.OP_SGT, 2),
    "EQ": (hs.OP_EQ, 2), "ISZERO": (hs.OP_ISZERO, 1), "AND": (hs.OP_AND, 2), "OR": (hs.OP_OR, 2), "XOR": (hs.OP_XOR, 2),
    "NOT": (hs.OP_NOT, 1), "BYTE": (hs.OP_BYTE, 2), "SHL": (hs.OP_SHL, 2), "SHR": (hs.OP_SHR, 2), "SAR": (hs.OP_SAR, 2),
}


def run_arm_cases():
    from contracts.common import mk_ex, mk_sevm
    from halmos.exceptions import EvmException, NotConcreteError

    out = []
    inner = {}
    inner.update(bv_contracts())
    inner.update(bool_contracts())
    inner.update(sevm_contracts())
    sf, fn, first = run_dispatch_chain()
    MARK = 0xDEAD

    for name, (opcode, arity) in WORD_OPS.items():
        shapes = list(itertools.product(STACK_KINDS, repeat=arity)) if arity < 3 else list(itertools.product(("int", "term", "sym"), repeat=arity))
        if arity == 2:
            shapes.append(("term", "same"))  # DUP1; op: both operands are one term (z3 folds x == x, x - x, x ^ x ...)
        shapes += [("underflow", n) for n in range(arity)]
        for shape in shapes:

            def harness(interp, name=name, opcode=opcode, arity=arity, shape=shape):
                ctx = interp.ctx
                sevm = mk_sevm()
                ex = mk_ex(sevm, bytes([opcode, 0]))
                marker = hb.HalmosBitVec(MARK)
                state = ex.st
                if shape[0] == "underflow":
                    ops = [mk_word(ctx, "abc"[k], "int") for k in range(shape[1])]
                    for o in reversed(ops):
                        state.stack.append(o)
                else:
                    state.stack.append(marker)
                    ops = []
                    for k, kd in enumerate(shape):
                        ops.append(ops[0] if kd == "same" else mk_word(ctx, "abc"[k], kd))
                    for o in reversed(ops):
                        state.stack.append(o)
                ex.fetch_instruction()
                insn = ex.insn
                env = Env({"self": sevm, "ex": ex, "state": state, "insn": insn, "opcode": insn.opcode, "stack": None}, None, hs.__dict__)
                ctx.oblige("dispatch/opcode-decoded", z3.BoolVal(insn.opcode == opcode))
                body = select_arm(interp, first, env)
                kind, payload, yields = interp.exec_fragment(body, env, qual="halmos.sevm:SEVM.run#arm")
                if shape[0] == "underflow":
                    okk = kind == "raise" and isinstance(payload, EvmException)
                    ctx.oblige("underflow-is-evm-exception", z3.BoolVal(okk), info={"kind": kind, "exc": type(payload).__name__})
                    return
                if kind == "raise":
                    # SIGNEXTEND / BYTE-independent: a symbolic SIGNEXTEND size is a documented
                    # unsupported feature (NotConcreteError is a HalmosException => path is flagged stuck)
                    if name == "SIGNEXTEND" and isinstance(payload, NotConcreteError) and shape[0] in ("term", "sym"):
                        ctx.oblige("flagged-unsupported", z3.BoolVal(True))
                        return
                    ctx.oblige(f"no-exception[{type(payload).__name__}]", z3.BoolVal(False), info={"exc": type(payload).__name__, "msg": str(payload)[:200]})
                    return
                ctx.oblige("falls-through-to-advance", z3.BoolVal(kind == "fallthrough" and not yields), info={"kind": kind})
                st = state.stack
                ctx.oblige("stack/shape", z3.BoolVal(len(st) == 2 and st[0] is marker))
                if len(st) != 2:
                    return
                r = st[-1]
                word_inv(ctx, r)
                spec_b = W.BV[name](*[den_word(o) for o in ops])
                if name in W.BOOL_RESULT:
                    spec_b = z3.If(spec_b, z3.BitVecVal(1, 256), z3.BitVecVal(0, 256))
                ctx.oblige("meaning", den_word(r) == spec_b)
                ctx.oblige("frame/pc-unchanged-by-arm", z3.BoolVal(ex.pc == 0))

            cname = ",".join(map(str, shape))
            out.append(Case(f"{PROP}/sevm.SEVM.run#{name}", cname, harness, contracts=inner, replay=replay_run_arm(name, opcode, shape), sources=("halmos.sevm:SEVM.run",)))
    return out


def replay_run_arm(name, opcode, shape):
    def replay(r):
        from contracts.common import mk_ex, mk_sevm

        if shape[0] == "underflow":
            return {"reproduced": None, "detail": "underflow case"}
        model = r.get("model") or {}
        sevm = mk_sevm()
        ex = mk_ex(sevm, bytes([opcode, 0]))
        vals, sub, objs = [], [], []
        for k, kd in enumerate(shape):
            nm = "abc"[k]
            if kd == "same":
                objs.append(objs[0])
                vals.append(vals[0])
            elif kd in ("T", "F"):
                objs.append(hb.TRUE if kd == "T" else hb.FALSE)
                vals.append(1 if kd == "T" else 0)
            elif kd == "sym":
                v = bool(model.get(nm, False))
                p = z3.Bool(nm)
                objs.append(hb.HalmosBool(p))
                sub.append((p, z3.BoolVal(v)))
                vals.append(int(v))
            else:
                v = model.get(nm, model.get(nm + "!i", 0))
                v = (v if isinstance(v, int) else 0) % (1 << 256)
                if kd == "term":
                    x = z3.BitVec(nm, 256)
                    objs.append(hb.HalmosBitVec(x))
                    sub.append((x, z3.BitVecVal(v, 256)))
                else:
                    objs.append(hb.HalmosBitVec(v))
                vals.append(v)
        for o in reversed(objs):
            ex.st.stack.append(o)
        desc = f"opcode {name} with stack (top first) kinds={shape} values={[hex(v) for v in vals]}"
        try:
            outs = list(sevm.run(ex))
        except BaseException as e:  # noqa
            return {"reproduced": True, "detail": f"{desc}: SEVM.run raised {type(e).__name__}: {e}"}
        if not singletons_intact():
            d = f"{desc}: afterwards TRUE=(con_val={hb.TRUE.con_val!r}, sym_val={hb.TRUE.sym_val!r}) FALSE=(con_val={hb.FALSE.con_val!r}, sym_val={hb.FALSE.sym_val!r}): the shared singletons were re-initialised"
            restore_singletons()
            return {"reproduced": True, "detail": d}
        if len(outs) != 1:
            return {"reproduced": None, "detail": f"{desc}: {len(outs)} paths"}
        o = outs[0]
        if o.context.output.error is not None:
            return {"reproduced": True, "detail": f"{desc}: path ended with {o.context.output.error!r}"}
        got = concrete_den(o.st.stack[-1], sub)
        exp = W.PY[name](*vals)
        if got != exp:
            return {"reproduced": True, "detail": f"{desc}: halmos leaves {got:#x} on the stack, the EVM leaves {exp:#x}"}
        return {"reproduced": False, "detail": f"{desc}: real code agrees with the reference ({exp:#x})"}

    return replay


def build_cases(tier="quick"):
    cases = []
    cases += bv_binary_cases()
    cases += bv_binary_cases_wide()
    cases += no_abstraction_cases()
    cases += shift_cases()
    cases += unary_cases()
    cases += ternary_cases()
    cases += exp_cases()
    cases += signextend_cases()
    cases += byte_cases()
    cases += bool_cases()
    cases += constructor_cases()
    cases += bitwise_cases()
    cases += arith_cases()
    cases += sym_byte_cases()
    cases += run_arm_cases()
    # SIGNEXTEND's size operand is resolved through the path's table of learnt equalities (ex.int_of): the result is only that of
    # THIS path's inputs if sibling paths do not share the table (C02's unit)
    from contracts import c02
    from contracts.common import rewrap

    cases += rewrap(PROP, c02.path_cases(), "operand-substitution-owned", lambda c: "Path.branch" in c.unit)
    return cases


def no_abstraction_cases(size=256):
    """abstraction=None is part of the API (default argument): (a) no exception and (b) the
    class invariant are required; (c) the meaning is required where the raw SMT-LIB operator
    coincides with the EVM one (mul always; the others when the divisor is known non-zero)"""
    out = []
    for method in ("mul", "div", "sdiv", "mod", "smod"):
        spec = BIN[method][0]
        for ka, kb in itertools.product(["int", "term"], repeat=2):
            kinds = [ka, kb]
            if method in ("mul", "div", "mod") and "int" in kinds and "term" in kinds:
                kinds = [k if k == "term" else "int!pow2" for k in kinds]
                if method != "mul" and kb == "term":
                    kinds = [ka, kb]

            def harness(interp, method=method, spec=spec, kinds=tuple(kinds)):
                ctx = interp.ctx
                a = mk_bv(ctx, "a", kinds[0], size)
                b = mk_bv(ctx, "b", kinds[1], size)
                ok, r = guarded(interp, lambda: call_method(interp, a, method, [b], {}))
                if not ok:
                    return
                check_inv(ctx, r, size)
                if method == "mul":
                    meaning(ctx, spec, [a, b], r, size)
                else:
                    bb = den_bv(b, size)
                    res_b = den_bv(r, size)
                    ctx.oblige("meaning-if-divisor-nonzero", z3.Implies(bb != 0, res_b == W.BV[spec](den_bv(a, size), bb, size=size)))

            out.append(Case(f"{PROP}/bitvec.HalmosBitVec.{method}", f"{kinds[0]},{kinds[1]}@{size};abstraction=None", harness, replay=replay_bv_method(method, spec, list(kinds), size, None), sources=(f"halmos.bitvec:HalmosBitVec.{method}",)))
    return out


def bv_binary_cases_wide():
    """the widths used internally by addmod (264) and mulmod (512)"""
    out = []
    for size, methods in ((264, ("add", "mod")), (512, ("mul", "mod"))):
        for c in bv_binary_cases(sizes=(size,)):
            if c.unit.rsplit(".", 1)[-1] in methods:
                out.append(c)
    return out


def grounds():
    from pyvc import engine

    def lemmas():
        out = []
        for oid, goal in engine.lemma_obligations(PROP):
            ok, be, dt = engine.prove_lemma(goal)
            out.append((oid.split("/", 1)[1], ok, f"{goal.sexpr()[:200]} [{dt:.1f}s]", be))
        return out

    return [Ground(f"{PROP}/lemma", lemmas), Ground(f"{PROP}/sevm.abstraction-tables#name-is-the-definition", ground_abstraction_names, sources=("halmos.solve:refine",))]


def ground_abstraction_names():
    """the meaning obligations above are proved `under the exact definitions of the arithmetic abstractions`, taken by the ROLE
    of each table entry (f_mod[264] is the remainder ADDMOD uses ...).  What the assertion solver is given is decided by the NAME
    of the function alone (solve.refine rewrites `declare-fun f_evm_<op>_<n>`): name and role must denote the same operation"""
    import re as _re

    out = []
    for f, body in DEFS:
        n = f.domain(0).size()
        x, y = z3.BitVec("x", n), z3.BitVec("y", n)
        role = z3.substitute_vars(body, x, y)
        m = _re.fullmatch(r"f_evm_(bvudiv|bvurem|bvsdiv|bvsrem|bvmul|exp)_(\d+)", f.name())
        oid = f"{f.name()} (width {n})"
        if not m:
            out.append((oid, False, f"the name {f.name()!r} is not one solve.refine recognises"))
            continue
        op, suffix = m.group(1), int(m.group(2))
        zero = z3.BitVecVal(0, n)
        named = {"bvmul": lambda: x * y, "bvudiv": lambda: z3.If(y == zero, zero, z3.UDiv(x, y)), "bvurem": lambda: z3.If(y == zero, zero, z3.URem(x, y)), "bvsdiv": lambda: z3.If(y == zero, zero, x / y), "bvsrem": lambda: z3.If(y == zero, zero, z3.SRem(x, y)), "exp": lambda: None}[op]()
        if suffix != n:
            out.append((oid, False, f"the width in the name ({suffix}) is not the width of the function ({n}): solve.refine would leave it undefined"))
            continue
        if named is None:
            out.append((oid, f is hs.f_exp, "exponentiation stays abstract (models that depend on it are labelled potentially invalid)"))
            continue
        if z3.eq(z3.simplify(role), z3.simplify(named)):
            out.append((oid, True, "role and name denote the same operation"))
            continue
        wit = None
        for xv, yv in ((7, 2), (9, 4), (1, 3), ((1 << n) - 1, 5), (5, 0)):
            a = z3.simplify(z3.substitute(role, (x, z3.BitVecVal(xv, n)), (y, z3.BitVecVal(yv, n))))
            b = z3.simplify(z3.substitute(named, (x, z3.BitVecVal(xv, n)), (y, z3.BitVecVal(yv, n))))
            if not z3.eq(a, b):
                wit = (xv, yv, a, b)
                break
        out.append((oid, False, f"the table entry is used as `{str(z3.simplify(role))[:60]}` but its name makes solve.refine define it as {op}: " + (f"for x = {wit[0]}, y = {wit[1]} the instruction's result denotes {wit[2]} while the solver computes {wit[3]}" if wit else "no concrete difference found on the probe points")))
    return out


def bounded():
    return []


ASSUMPTIONS = [
    "pyvc itself (VC generator) and the Python-subset semantics of DESIGN 2.3 are trusted; mitigated by path covers, the CPython cross-check and native replay",
    "arithmetic bridge (DESIGN 2.4/5): the integer and SMT-LIB renderings of the Yellow-Paper table agree; int-backed results are checked in the integer form or through an exact bit-vector view, term-backed ones in the SMT-LIB form",
    "z3.simplify preserves meaning; z3py operator coercions as listed in DESIGN 2.2",
    "object-level terms are modelled by their denotation: a term-backed operand is an arbitrary 256-bit value; code under contract does not inspect term syntax beyond is_bv_value",
    "EXP: exponentiation is an uninterpreted function shared by code and specification (with its defining equations for exponents 0..5); f_evm_exp_256 is interpreted as that function",
    "run arms: the stack below the operands is one sentinel element (list append/pop/[-1] are depth independent); generator protocol and worklist of SEVM.run are outside the arm contracts",
]
TRUSTED = ["pyvc (this repository's verifier)", "z3 4.12.6 / z3 5.1.0 / cvc5 1.0.3 SMT semantics", "specs/evm_word.py (Yellow Paper transcription)", "z3py operator overloading (signed <,>,>>,/; int coercion by BitVecVal)"]
