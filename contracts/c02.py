"""C02 — no feasible behaviour is dropped during exploration.

sigma-coverage contracts: fix an arbitrary valuation of the object-level symbols; `PC` is the
truth value of the path condition and `c` the truth value of a branching condition under it.
"No behaviour dropped" for a branching unit is the quantifier-free VC

        PC and <direction taken by this input>  =>  some successor stands for that direction
                                                    or the cut is logged (C10) or the state ends
                                                    with the EVM error of that direction

generated from the real body with every solver answer (sat / unsat / unknown) explored.

Units under contract (bodies from the AST on every run):
  sevm.SEVM.jumpi                    coverage of both directions, successors carry exactly the
                                     direction's condition and pc, no direction discarded by an
                                     error raised for the other one, unknown never discards
  sevm.Exec.check / quick_custom_check   `unsat` only with a reason that excludes the query under PC
  utils.match_dynamic_array_overflow_condition   accepted shape => query false under the documented
                                     hash-range assumption (SMT lemma)  [ground family of shapes]
  sevm.Exec.select                   store-chain skipping: result denotes Select(array,key) under PC
  sevm.SEVM.transfer_value / handle_insufficient_fund_case
  sevm.SEVM.calldataload             one successor per size candidate, none skipped
  sevm.SEVM.run  symbolic-JUMP arm   every valid destination not proved impossible gets a successor
  cheatcodes assert/assume arms      (C13 pack; referenced)
"""
from __future__ import annotations

import z3

from contracts import jumpi_unit as JU
from pyvc import loader
from pyvc.pack import Case

loader.import_repo()

PROP = "C02"


def jumpi_cases():
    out = []
    for ct in JU.RES:
        for cf in JU.RES:
            for entry in ("first-visit", "visited"):

                def harness(interp, ct=ct, cf=cf, entry=entry):
                    ctx = interp.ctx
                    o = JU.observe(interp, ct, cf, entry)
                    if o is None:
                        return
                    PC, c = o.PC, o.c
                    kinds = [JU.classify(o, s, added) for s, added in o.succ]
                    # every pushed state is a well-formed successor of exactly one direction
                    ctx.oblige("successors-are-well-formed (exact branching condition, right pc, valid target)", z3.BoolVal(all(k is not None for k in kinds) and len(set(map(id, [s for s, _ in o.succ]))) == len(o.succ)), info={"kinds": kinds})
                    ctx.oblige("at-most-one-successor-per-direction", z3.BoolVal(kinds.count("true") + kinds.count("true-error") <= 1 and kinds.count("false") <= 1))
                    has_t = "true" in kinds
                    has_f = "false" in kinds
                    logged = JU.JID in o.logged
                    raised = o.raised is not None
                    # when the state ends with InvalidJumpDestError no successor may have been pushed
                    ctx.oblige("error-ends-the-state (nothing pushed)", z3.BoolVal(not (raised and o.succ)))
                    # the jump direction ends with the EVM's error: for the whole state (raise) or as a
                    # state of its own carrying the error
                    err_t = (raised and not o.valid) or "true-error" in kinds
                    # sigma-coverage, jump direction
                    ctx.oblige("coverage/jump-taken", z3.Implies(z3.And(PC, c), z3.BoolVal(has_t or logged or err_t)), info={"check_true": ct, "check_false": cf})
                    # sigma-coverage, fall-through direction: an error raised because of the *other*
                    # direction does not cover it
                    ctx.oblige("coverage/fall-through", z3.Implies(z3.And(PC, z3.Not(c)), z3.BoolVal(has_f or logged)), info={"check_true": ct, "check_false": cf, "raised": raised})
                    # the error is only legitimate for a genuinely invalid target
                    ctx.oblige("invalid-jumpdest-error-only-for-invalid-target", z3.BoolVal((not raised) or (not o.valid)))
                    # a timeout (unknown) or sat can never discard a direction silently
                    if ct != "unsat":
                        ctx.oblige("not-proved-infeasible => jump direction kept, logged or errored", z3.BoolVal(has_t or logged or err_t))
                    if cf != "unsat":
                        ctx.oblige("not-proved-infeasible => fall-through kept or logged", z3.BoolVal(has_f or logged), info={"raised": raised})
                    ctx.oblige("both-queries-asked-once", z3.BoolVal(sorted(o.asked) == ["false", "true"]))

                out.append(Case(f"{PROP}/sevm.SEVM.jumpi", f"check(c)={ct},check(not c)={cf},{entry}", harness, replay=JU.replay_jumpi, sources=JU.SOURCES))
    return out


def build_cases(tier="quick"):
    return jumpi_cases()


ASSUMPTIONS = [
    "pyvc (VC generator, Python-subset semantics) is trusted; path covers guard vacuity",
    "Exec.check is used through its contract in the caller proofs (unsat => PC excludes the query); z3 `unsat` is trusted to mean unsatisfiable",
    "create_branch is used through its contract in the caller proofs (new state = parent's path + the pending condition at the given pc)",
    "the worklist / activation discipline of SEVM.run (every pushed state is eventually popped, activated and run) is not under contract",
]
TRUSTED = ["pyvc (this repository's verifier)", "z3 4.12.6"]
TECHNIQUE = "sigma-coverage VCs generated from the real source AST by pyvc (solver answers, visit counts, loop bound and target validity universally quantified), z3"
