"""C02 — no feasible behaviour is dropped during exploration.

sigma-coverage contracts: fix an arbitrary valuation of the object-level symbols; `PC` is the
truth value of the path condition and `c` the truth value of a branching condition under it.
"No behaviour dropped" for a branching unit is the quantifier-free VC

        PC and <direction taken by this input>  =>  some successor stands for that direction
                                                    or the cut is logged (C10) or the state ends
                                                    with the EVM error of that direction

generated from the real body with every solver answer (sat / unsat / unknown) explored.

Units under contract (bodies from the AST on every run):
  sevm.SEVM.jumpi                    coverage of both directions, successors carry exactly the
                                     direction's condition and pc, no direction discarded by an
                                     error raised for the other one, unknown never discards
  sevm.Exec.check / quick_custom_check   `unsat` only with a reason that excludes the query under PC
  utils.match_dynamic_array_overflow_condition   accepted shape => query false under the documented
                                     hash-range assumption (SMT lemma)  [ground family of shapes]
  sevm.Exec.select                   store-chain skipping: result denotes Select(array,key) under PC
  sevm.SEVM.transfer_value / handle_insufficient_fund_case
  sevm.SEVM.calldataload             one successor per size candidate, none skipped
  sevm.SEVM.run  symbolic-JUMP arm   every valid destination not proved impossible gets a successor
  cheatcodes assert/assume arms      (C13 pack; referenced)
"""
from __future__ import annotations

import z3

from contracts import jumpi_unit as JU
from pyvc import loader
from pyvc.interp import PathEnd, _ENGINE
from contracts.common import replay_script  # noqa: E402
from pyvc.pack import Case

loader.import_repo()

PROP = "C02"


def jumpi_cases():
    out = []
    for ct in JU.RES:
        for cf in JU.RES:
            for entry in ("first-visit", "visited"):

                def harness(interp, ct=ct, cf=cf, entry=entry):
                    ctx = interp.ctx
                    o = JU.observe(interp, ct, cf, entry)
                    if o is None:
                        return
                    PC, c = o.PC, o.c
                    kinds = [JU.classify(o, s, added) for s, added in o.succ]
                    # every pushed state is a well-formed successor of exactly one direction
                    ctx.oblige("successors-are-well-formed (exact branching condition, right pc, valid target)", z3.BoolVal(all(k is not None for k in kinds) and len(set(map(id, [s for s, _ in o.succ]))) == len(o.succ)), info={"kinds": kinds})
                    ctx.oblige("at-most-one-successor-per-direction", z3.BoolVal(kinds.count("true") + kinds.count("true-error") <= 1 and kinds.count("false") <= 1))
                    # the state that goes on in place is already active: the shared incremental solver holds ITS branching
                    # condition.  Pending siblings re-synchronise the solver when they are activated, the active state never
                    # does, so it must be the next one taken up: pushed last (the worklist is LIFO, see #worklist-protocol)
                    order = [s for s, _ in o.succ]
                    ctx.oblige("the state that continues in place is pushed after (above) every pending sibling", z3.BoolVal(o.ex not in order or order[-1] is o.ex), info={"position": str([("active" if s is o.ex else "pending") for s in order])})
                    has_t = "true" in kinds
                    has_f = "false" in kinds
                    logged = JU.JID in o.logged
                    raised = o.raised is not None
                    # when the state ends with InvalidJumpDestError no successor may have been pushed
                    ctx.oblige("error-ends-the-state (nothing pushed)", z3.BoolVal(not (raised and o.succ)))
                    # the jump direction ends with the EVM's error: for the whole state (raise) or as a
                    # state of its own carrying the error
                    err_t = (raised and not o.valid) or "true-error" in kinds
                    # sigma-coverage, jump direction
                    ctx.oblige("coverage/jump-taken", z3.Implies(z3.And(PC, c), z3.BoolVal(has_t or logged or err_t)), info={"check_true": ct, "check_false": cf})
                    # sigma-coverage, fall-through direction: an error raised because of the *other*
                    # direction does not cover it
                    ctx.oblige("coverage/fall-through", z3.Implies(z3.And(PC, z3.Not(c)), z3.BoolVal(has_f or logged)), info={"check_true": ct, "check_false": cf, "raised": raised})
                    # the error is only legitimate for a genuinely invalid target
                    ctx.oblige("invalid-jumpdest-error-only-for-invalid-target", z3.BoolVal((not raised) or (not o.valid)))
                    # a timeout (unknown) or sat can never discard a direction silently
                    if ct != "unsat":
                        ctx.oblige("not-proved-infeasible => jump direction kept, logged or errored", z3.BoolVal(has_t or logged or err_t))
                    if cf != "unsat":
                        ctx.oblige("not-proved-infeasible => fall-through kept or logged", z3.BoolVal(has_f or logged), info={"raised": raised})
                    ctx.oblige("both-queries-asked-once", z3.BoolVal(sorted(o.asked) == ["false", "true"]))

                out.append(Case(f"{PROP}/sevm.SEVM.jumpi", f"check(c)={ct},check(not c)={cf},{entry}", harness, replay=replay_jumpi_and_order, sources=JU.SOURCES))
    return out


# ---------------------------------------------------------------------------------------
# shared: the solver as a contract


class Oracle:
    """Exec.check / Path.check by contract: the answer is unknown to the proof (every answer is
    explored); an `unsat` answer carries the hypothesis  PC => not query  (solver soundness),
    nothing is promised for `sat` / `unknown`."""

    def __init__(self, ctx, PC):
        self.ctx = ctx
        self.PC = PC
        self.asked = []

    def __call__(self, q):
        k = self.ctx.choose(3, "solver answer")
        ans = ("unsat", "sat", "unknown")[k]
        if ans == "unsat":
            self.ctx.assume_checked(z3.Implies(self.PC, z3.Not(q)))
        self.asked.append((q, ans))
        return {"unsat": z3.unsat, "sat": z3.sat, "unknown": z3.unknown}[ans]


class NS:
    def __init__(self, **kw):
        self.__dict__.update(kw)


class RecPath:
    def __init__(self, ctx=None, PC=None):
        self.appended = []

    def append(self, cond, branching=False):
        self.appended.append((cond, branching))


# ---------------------------------------------------------------------------------------
# Exec.check / quick_custom_check


class GhostConds:
    """ex.path.conditions: membership is unknown to the proof; a member is implied by PC"""

    def __init__(self, ctx, PC):
        self.ctx, self.PC = ctx, PC
        self.queries = []


def _ghost_conds_contains(interp, container, item):
    b = container.ctx.choose(2, "membership") == 0
    if b:
        container.ctx.assume_checked(z3.Implies(container.PC, item))
    container.queries.append((item, b))
    return b


def check_cases():
    import halmos.sevm as hs
    from halmos.utils import f_sha3_256_name

    out = []
    slot = z3.BitVec("slot", 256)
    f_sha3 = z3.Function(f_sha3_256_name, z3.BitVecSort(256), z3.BitVecSort(256))
    h = f_sha3(slot)
    off = z3.BitVec("off", 256)
    shapes = {
        "opaque condition": lambda: z3.Bool("c"),
        "literally true": lambda: z3.BoolVal(True),
        "literally false": lambda: z3.BoolVal(False),
        "negated opaque condition": lambda: z3.Not(z3.Bool("c")),
        "dynamic-array overflow pattern (offset 2^64-1)": lambda: z3.Not(z3.ULE(h, z3.BitVecVal(2**64 - 1, 256) + h)),
        "dynamic-array overflow pattern (offset 1)": lambda: z3.Not(z3.ULE(h, z3.BitVecVal(1, 256) + h)),
        "overflow-like, offset 2^64 (outside the assumption)": lambda: z3.Not(z3.ULE(h, z3.BitVecVal(2**64, 256) + h)),
        "overflow-like, offset 2^256-1 (hash - 1, a negative word: outside the assumption)": lambda: z3.Not(z3.ULE(h, z3.BitVecVal(2**256 - 1, 256) + h)),
        "overflow-like, offset 2^255 (outside the assumption)": lambda: z3.Not(z3.ULE(h, z3.BitVecVal(2**255, 256) + h)),
        "overflow-like, offset 2^256-2^63 (outside the assumption)": lambda: z3.Not(z3.ULE(h, z3.BitVecVal(2**256 - 2**63, 256) + h)),
        "overflow-like, symbolic offset": lambda: z3.Not(z3.ULE(h, off + h)),
        "overflow-like, different bases": lambda: z3.Not(z3.ULE(h, z3.BitVecVal(1, 256) + f_sha3(off))),
        "overflow-like, not a hash": lambda: z3.Not(z3.ULE(slot, z3.BitVecVal(1, 256) + slot)),
        "overflow-like, unnegated": lambda: z3.ULE(h, z3.BitVecVal(1, 256) + h),
        "overflow-like, ULT": lambda: z3.Not(z3.ULT(h, z3.BitVecVal(1, 256) + h)),
        "overflow-like, three-term sum (simplified)": lambda: z3.simplify(z3.Not(z3.ULE(h, z3.BitVecVal(1000, 256) + h + off))),
        "overflow-like, three-term sum, base last": lambda: z3.simplify(z3.Not(z3.ULE(h, z3.BitVecVal(1000, 256) + off + h))),
        "overflow-like, offset on the right": lambda: z3.Not(z3.ULE(h, h + z3.BitVecVal(1, 256))),
    }
    for name, mk in shapes.items():

        def harness(interp, mk=mk):
            ctx = interp.ctx
            PC = z3.Bool("PC")
            cond = mk()
            # documented modelling assumption: every hash term on the path carries its range axiom
            ctx.assume(z3.Implies(PC, z3.ULE(h, z3.BitVecVal(2**256 - 2**64, 256))))
            ctx.assume(z3.Implies(PC, z3.ULE(f_sha3(off), z3.BitVecVal(2**256 - 2**64, 256))))
            oracle = Oracle(ctx, PC)
            ex = object.__new__(hs.Exec)
            ex.path = NS(conditions=GhostConds(ctx, PC), check=oracle)
            interp.externals[("contains", GhostConds)] = _ghost_conds_contains
            try:
                r = interp.call(hs.Exec.__dict__["check"], [ex, cond], {})
            except PathEnd:
                raise
            except BaseException as e:
                if isinstance(e, _ENGINE):
                    raise
                ctx.oblige(f"no-exception[{type(e).__name__}]", z3.BoolVal(False), info={"msg": str(e)[:200]})
                return
            ctx.oblige("answer-is-a-solver-verdict", z3.BoolVal(r in (z3.sat, z3.unsat, z3.unknown)), info={"r": str(r)})
            if r == z3.unsat:
                ctx.oblige("unsat only if the path condition excludes the query (proved, present negated, literally false, or the documented hash-range pattern)", z3.Implies(PC, z3.Not(cond)), info={"asked": str(oracle.asked)[:120]})
            if oracle.asked:
                ctx.oblige("the solver is asked about the query itself", z3.BoolVal(len(oracle.asked) == 1) if True else None)
                q = oracle.asked[0][0]
                ctx.oblige("the solver is asked about an equivalent query", q == cond)
                ctx.oblige("the solver's answer is returned unchanged", z3.BoolVal(str(r) == oracle.asked[0][1]))

        out.append(Case(f"{PROP}/sevm.Exec.check", name, harness, replay=replay_check, sources=("halmos.sevm:Exec.check", "halmos.sevm:Exec.quick_custom_check", "halmos.utils:match_dynamic_array_overflow_condition")))
    return out


def replay_check(r):
    """real Exec.check on real paths: `unsat` must never be returned for a query that the path
    condition (plus the documented hash-range axiom) admits"""
    from contracts.common import mk_ex, mk_sevm
    from halmos.utils import f_sha3_256_name

    slot, off, x = z3.BitVecs("slot off x", 256)
    f_sha3 = z3.Function(f_sha3_256_name, z3.BitVecSort(256), z3.BitVecSort(256))
    h = f_sha3(slot)
    hrange = z3.ULE(h, z3.BitVecVal(2**256 - 2**64, 256))
    queries = [
        z3.Not(z3.ULE(h, z3.BitVecVal(2**64, 256) + h)),
        z3.Not(z3.ULE(h, off + h)),
        z3.Not(z3.ULE(slot, z3.BitVecVal(1, 256) + slot)),
        z3.Not(z3.ULT(h, z3.BitVecVal(1, 256) + h)),
        z3.ULE(h, z3.BitVecVal(1, 256) + h),
        z3.Not(z3.ULE(h, z3.BitVecVal(1, 256) + f_sha3(off))),
        z3.simplify(z3.Not(z3.ULE(h, z3.BitVecVal(1000, 256) + h + off))),
        x == 1,
        z3.Not(x == 1),
        z3.UGT(x, 5),
    ]
    for pre in ([], [x == 1], [z3.Not(x == 1)], [z3.UGT(x, 7)]):
        for q in queries:
            sevm = mk_sevm()
            ex = mk_ex(sevm)
            ex.path.append(hrange)
            for p in pre:
                ex.path.append(p)
            try:
                got = ex.check(q)
            except Exception as e:  # noqa
                return {"reproduced": True, "detail": f"Exec.check({q}) raised {type(e).__name__}: {e}"}
            if got == z3.unsat:
                s = z3.Solver()
                s.add(hrange, *pre)
                s.add(q)
                if s.check() == z3.sat:
                    return {"reproduced": True, "detail": f"Exec.check answered unsat for the query {q} under path conditions {pre} (+ hash range axiom), but z3 finds it satisfiable: a feasible branch would be discarded", "inputs": str(q)}
    return {"reproduced": False, "detail": "real Exec.check never answered unsat for a satisfiable query on the replay grid"}


# ---------------------------------------------------------------------------------------
# Exec.select: store-chain skipping


def select_cases():
    import halmos.sevm as hs

    out = []
    S160, S256 = z3.BitVecSort(160), z3.BitVecSort(256)
    for shape in ("store(base,k0,v0), same key term", "store(base,k0,v0), other key term", "store(base,k0,v0), other key term, symbolic mode", "store(base,k0,v0), same key term, symbolic mode", "no definition", "initial empty array", "initial empty array, symbolic mode"):

        def harness(interp, shape=shape):
            ctx = interp.ctx
            PC = z3.Bool("PC")
            A = z3.Array("storage_user_7_1_0_01", S256, S256) if not shape.startswith("initial") else z3.Array("storage_user_7_1_0_00", S256, S256)
            B = z3.Array("storage_user_7_1_0_00x", S256, S256)
            k, k0, v0 = z3.BitVecs("k k0 v0", 256)
            arrays = {}
            key = k
            if shape.startswith("store"):
                arrays[A] = z3.Store(B, k0, v0)
                # the definition of every updated array is a path condition (added when the store was made)
                ctx.assume(z3.Implies(PC, A == z3.Store(B, k0, v0)))
                if "same key" in shape:
                    key = k0
            if shape.startswith("initial"):
                # documented: arrays named *_00 are the empty initial arrays (their emptiness axiom is a path condition)
                ctx.assume(z3.Implies(PC, z3.Select(A, key) == 0))
            oracle = Oracle(ctx, PC)
            ex = object.__new__(hs.Exec)
            ex.check = oracle
            rec = []

            def rec_select(i, a, kw):
                # inductive hypothesis for the recursive call on the base array
                rec.append((a[1:], dict(kw)))
                return z3.Select(a[1], a[2])

            fn = hs.Exec.__dict__["select"]
            interp.contracts["halmos.sevm:Exec.check"] = lambda i, a, kw: oracle(a[1])
            depth = {"n": 0}
            orig = interp.call

            def call_hook(f, args, kwargs):
                if f is fn:
                    depth["n"] += 1
                    if depth["n"] > 1:
                        depth["n"] -= 1
                        return rec_select(interp, args, kwargs)
                    try:
                        return orig(f, args, kwargs)
                    finally:
                        depth["n"] -= 1
                return orig(f, args, kwargs)

            interp.call = call_hook
            symbolic = shape.endswith("symbolic mode")
            r = interp.call(fn, [ex, A, key, arrays, symbolic], {})
            if hasattr(r, "as_z3"):
                r = r.as_z3()
            if isinstance(r, int):
                r = z3.BitVecVal(r, 256)
            ctx.oblige("result denotes Select(array, key) under the path condition", z3.Implies(PC, r == z3.Select(A, key)), info={"result": str(r)[:80], "asked": str(oracle.asked)[:120]})
            if shape.startswith("initial") and shape.endswith("symbolic mode"):
                ctx.oblige("symbolic-storage mode: the initial array is not assumed empty", z3.BoolVal(not z3.is_bv_value(r)))
            for a, kw in rec:
                flag = a[3] if len(a) > 3 else kw.get("symbolic", False)
                ctx.oblige("the recursion on the base array keeps the key, the definitions and the symbolic-storage flag (the induction hypothesis is used for the same mode)", z3.BoolVal(z3.eq(a[1], key) and a[2] is arrays and bool(flag) == symbolic and z3.eq(a[0], B)), info={"flag": str(flag), "mode": str(symbolic)})

        out.append(Case(f"{PROP}/sevm.Exec.select", shape, harness, replay=replay_select, sources=("halmos.sevm:Exec.select",)))
    return out


def replay_select(r):
    """real sstore/sload on an account whose storage is symbolic: a never-written key must not read as a constant"""
    import halmos.bitvec as hb
    import halmos.sevm as hs
    from contracts.common import THIS, mk_ex, mk_sevm

    for layout in ("solidity", "generic"):
        sevm = mk_sevm(storage_layout=layout)
        ex = mk_ex(sevm)
        ex.storage[THIS].symbolic = True

        def m(key):
            return hb.HalmosBitVec(ex.sha3_data(z3.Concat(z3.BitVecVal(key, 256), z3.BitVecVal(3, 256))))

        sevm.sstore(ex, THIS, m(1), hb.HalmosBitVec(0xAA))
        got = sevm.sload(ex, THIS, m(2))
        got = got.as_z3() if hasattr(got, "as_z3") else got
        if z3.is_bv_value(z3.simplify(got)):
            return {"reproduced": True, "detail": f"{layout} layout, symbolic storage: after m[1] = 0xaa the never-written m[2] reads the constant {z3.simplify(got)} instead of an unconstrained initial value", "inputs": "symbolic storage; sstore(m[1], 0xaa); sload(m[2])"}
    return {"reproduced": False, "detail": "with symbolic storage a never-written key reads an unconstrained value after a store to another key (both layouts)"}


# ---------------------------------------------------------------------------------------
# calldataload: one successor per size candidate


def calldataload_cases():
    import halmos.bitvec as hb
    import halmos.sevm as hs

    out = []
    for shape in ("plain word", "size symbol with 3 candidates", "size symbol with 1 candidate", "size symbol with 2 candidates", "size symbol already fixed by the path", "symbol without candidates"):

        def harness(interp, shape=shape):
            ctx = interp.ctx
            sym = z3.BitVec("p_bytes_length", 256)
            cands = [0, 32, 65]
            if shape == "size symbol with 1 candidate":
                cands = [65]
            elif shape == "size symbol with 2 candidates":
                cands = [0, 65]
            conc = hs.Concretization()
            loaded = sym
            if shape == "plain word":
                loaded = z3.BitVec("p_x", 256) + 1
            elif shape.startswith("size symbol with"):
                conc.candidates[sym] = list(cands)
            elif shape.startswith("size symbol already"):
                conc.candidates[sym] = list(cands)
                conc.substitution[sym] = z3.BitVecVal(32, 256)
            pushed = []
            advanced = []

            def mk_state():
                st = NS(items=[])
                st.push_any = lambda v: st.items.append(v)
                return st

            appended = []
            ex = NS(pc=11, path=NS(concretization=conc, appended=appended, append=lambda c, branching=False: appended.append((c, branching))), st=mk_state())
            ex.st.pop = lambda: hb.HalmosBitVec(4)
            ex.int_of = lambda x, msg=None: 4
            ex.calldata = lambda: NS(get_word=lambda off: loaded if off == 4 else None)
            ex.advance = lambda: advanced.append(ex)
            branches = []

            def create_branch(e, cond, pc):
                nx = NS(pc=pc, st=mk_state(), cond=inherit(e, cond))
                nx.advance = lambda: advanced.append(nx)
                branches.append(nx)
                return nx

            sevm = NS(create_branch=create_branch)
            stack = NS(push=lambda e: pushed.append(e))
            interp.call(hs.SEVM.__dict__["calldataload"], [sevm, ex, stack], {})
            if shape.startswith("size symbol with"):
                # whatever the number of candidates: a state that goes on with a concrete size has that size among its constraints
                for p_ in pushed:
                    v = p_.st.items[0] if len(p_.st.items) == 1 else None
                    cnd = p_.cond if p_ is not ex else (z3.And(*[c for c, _ in appended]) if appended else z3.BoolVal(True))
                    if isinstance(v, int) or (hasattr(v, "is_concrete") and v.is_concrete):
                        vv = v if isinstance(v, int) else v.value
                        ctx.oblige("a state that continues with a concrete length carries `length symbol == that length` in its path (the calldata stays one well-formed encoding)", z3.Implies(cnd, sym == vv), info={"value": str(vv)})
                ctx.oblige("coverage: size in candidates => some continued state's condition holds", z3.Implies(z3.Or(*[sym == c_ for c_ in cands]), z3.Or(*[(p_.cond if p_ is not ex else z3.BoolVal(True)) for p_ in pushed]) if pushed else z3.BoolVal(False)))
            if shape == "size symbol with 3 candidates":
                ok = len(branches) == 3 and pushed == branches and all(b in advanced for b in branches) and ex not in pushed
                ctx.oblige("one successor per configured candidate, each pushed and advanced, the undecided state is not continued", z3.BoolVal(ok), info={"branches": len(branches)})
                for j, cnd in enumerate(cands):
                    if j < len(branches):
                        b = branches[j]
                        ctx.oblige(f"candidate {cnd}: successor carries exactly size == candidate and loads that value", z3.And(b.cond == (sym == cnd), z3.BoolVal(len(b.st.items) == 1 and isinstance(b.st.items[0], int) and b.st.items[0] == cnd and b.pc == 11)))
                # sigma-coverage within the reported bounds: every valuation whose size is a candidate is covered
                ctx.oblige("coverage: size in candidates => some successor's condition holds", z3.Implies(z3.Or(*[sym == c_ for c_ in cands]), z3.Or(*[b.cond for b in branches]) if branches else z3.BoolVal(False)))
            elif shape.startswith("size symbol with"):
                ctx.oblige("every continued state is advanced and pushed exactly once", z3.BoolVal(len(pushed) >= 1 and all(p_ in advanced for p_ in pushed) and len(set(map(id, pushed))) == len(pushed)))
            else:
                want = {"plain word": loaded, "size symbol already fixed by the path": z3.BitVecVal(32, 256), "symbol without candidates": sym}[shape]
                ok = not branches and pushed == [ex] and advanced == [ex] and len(ex.st.items) == 1
                ctx.oblige("no branching: the same state continues with the loaded word", z3.BoolVal(ok))
                if ok:
                    got = ex.st.items[0]
                    ctx.oblige("loaded word is the calldata word (or the value the path already fixes it to)", got == want)

        out.append(Case(f"{PROP}/sevm.SEVM.calldataload", shape, harness, replay=replay_script("single_length_candidate.py", "f(uint256[] x) with one configured length: is the length word of msg.data tied to the explored length?"), sources=("halmos.sevm:SEVM.calldataload",)))
    return out


# ---------------------------------------------------------------------------------------
# insufficient funds / transfer_value


def funds_cases():
    import halmos.bitvec as hb
    import halmos.sevm as hs
    from halmos.exceptions import InfeasiblePath, InsufficientFunds

    out = []

    def harness_insufficient(interp):
        ctx = interp.ctx
        PC = z3.Bool("PC")
        bal, val = z3.BitVecs("caller_balance value", 256)
        oracle = Oracle(ctx, PC)
        pushed, branches = [], []

        def create_branch(e, cond, pc):
            nx = NS(pc=pc, cond=inherit(e, cond), context=NS(trace=[]), st=NS(items=[]), advanced=[])
            nx.st.push = lambda v: nx.st.items.append(v)
            nx.advance = lambda: nx.advanced.append(1)
            branches.append(nx)
            return nx

        ex = NS(pc=5, check=oracle, balance_of=lambda who: bal, context=NS(depth=1))
        sevm = NS(create_branch=create_branch)
        stack = NS(push=lambda e: pushed.append(e))
        value = hb.HalmosBitVec(val)
        interp.call(hs.SEVM.__dict__["handle_insufficient_fund_case"], [sevm, "<caller>", value, "<message>", ex, stack], {})
        insufficient = z3.ULT(bal, val)
        has = len(branches) == 1 and pushed == branches
        ctx.oblige("coverage: an input with insufficient balance is covered by a failing successor", z3.Implies(z3.And(PC, insufficient), z3.BoolVal(has)), info={"asked": str(oracle.asked)[:100]})
        if branches:
            b = branches[0]
            ctx.oblige("the failing successor carries exactly balance < value", b.cond == insufficient)
            sub = b.context.trace[0] if b.context.trace else None
            ok = sub is not None and isinstance(sub.output.error, InsufficientFunds) and len(b.st.items) == 1 and b.advanced == [1] and b.pc == 5
            ctx.oblige("the failing successor records the failed call, pushes 0 and continues after the call", z3.BoolVal(ok))
            if ok:
                z = b.st.items[0]
                ctx.oblige("success flag pushed is zero", (z.as_z3() if hasattr(z, "as_z3") else z) == 0)

    out.append(Case(f"{PROP}/sevm.SEVM.handle_insufficient_fund_case", "symbolic value and balance", harness_insufficient, sources=("halmos.sevm:SEVM.handle_insufficient_fund_case",)))

    def harness_zero(interp):
        ctx = interp.ctx
        pushed = []
        ex = NS(check=lambda q: z3.sat, balance_of=lambda who: (_ for _ in ()).throw(AssertionError("balance read for a zero transfer")))
        interp.call(hs.SEVM.__dict__["handle_insufficient_fund_case"], [NS(), "<caller>", hb.HalmosBitVec(0), "<message>", ex, NS(push=lambda e: pushed.append(e))], {})
        ctx.oblige("zero value: no failing branch (a zero transfer cannot be insufficient)", z3.BoolVal(pushed == []))

    out.append(Case(f"{PROP}/sevm.SEVM.handle_insufficient_fund_case", "zero value", harness_zero, sources=("halmos.sevm:SEVM.handle_insufficient_fund_case",)))

    for kind in ("symbolic", "conditional", "concrete-nonzero", "concrete-zero"):

        def harness_transfer(interp, kind=kind):
            ctx = interp.ctx
            PC = z3.Bool("PC")
            bal0 = z3.Array("balance_0", z3.BitVecSort(160), z3.BitVecSort(256))
            caller, to = z3.BitVecs("caller to", 160)
            val = z3.BitVec("value", 256)
            path = RecPath()
            st = {"bal": bal0}
            ex = NS(path=path)
            ex.balance_of = lambda who: z3.Select(st["bal"], who)

            def balance_update(who, v):
                v = v.as_z3() if hasattr(v, "as_z3") else v
                st["bal"] = z3.Store(st["bal"], who, v)

            ex.balance_update = balance_update
            value = {"symbolic": hb.HalmosBitVec(val), "conditional": hb.HalmosBitVec(val), "concrete-nonzero": hb.HalmosBitVec(5), "concrete-zero": hb.HalmosBitVec(0)}[kind]
            vz = value.as_z3()
            cnd = z3.Bool("transfer_condition") if kind == "conditional" else None
            try:
                interp.call(hs.SEVM.__dict__["transfer_value"], [NS(), ex, caller, to, value], {"condition": cnd} if cnd is not None else {})
            except InfeasiblePath:
                ctx.oblige("InfeasiblePath only when the balance condition is literally false", z3.BoolVal(False))
                return
            except BaseException as e:
                if isinstance(e, _ENGINE):
                    raise
                ctx.oblige(f"no-exception[{type(e).__name__}]", z3.BoolVal(False), info={"msg": str(e)[:200]})
                return
            if kind == "concrete-zero":
                ctx.oblige("zero value: no constraint added, balances unchanged", z3.BoolVal(path.appended == [] and st["bal"] is bal0))
                return
            enough = z3.UGE(z3.Select(bal0, caller), vz)
            ctx.oblige("exactly one constraint is added: balance >= value (the insufficient case is covered by the failing branch)", z3.And(z3.BoolVal(len(path.appended) == 1), path.appended[0][0] == enough) if path.appended else z3.BoolVal(False))
            eff = z3.If(cnd, vz, z3.BitVecVal(0, 256)) if cnd is not None else vz
            a = z3.BitVec("any_account", 160)
            # pointwise conservation against the EVM rule (debit then credit, self-transfer nets to zero)
            want = z3.Store(z3.Store(bal0, caller, z3.Select(bal0, caller) - eff), to, z3.Select(z3.Store(bal0, caller, z3.Select(bal0, caller) - eff), to) + eff)
            ctx.oblige("balances after = debit caller then credit recipient, every other account untouched", z3.Select(st["bal"], a) == z3.Select(want, a))
            ctx.oblige("self-transfer leaves the balance unchanged", z3.Implies(caller == to, z3.Select(st["bal"], caller) == z3.Select(bal0, caller)))

        out.append(Case(f"{PROP}/sevm.SEVM.transfer_value", kind, harness_transfer, sources=("halmos.sevm:SEVM.transfer_value",)))
    return out


# ---------------------------------------------------------------------------------------
# resolve_address_alias: every address a symbolic target may denote is covered


def inherit(e, cond):
    """contract of create_branch: the successor inherits what the parent path holds at the time of the call"""
    app = getattr(getattr(e, "path", None), "appended", None) or []
    inh = [c[0] if isinstance(c, tuple) else c for c in app]
    return z3.And(*inh, cond) if inh else cond


def alias_cases():
    import halmos.sevm as hs
    from halmos.exceptions import InfeasiblePath

    out = []

    def harness(interp):
        ctx = interp.ctx
        PC = z3.Bool("PC")
        t = z3.BitVec("target", 160)
        TEST = hs.FOUNDRY_TEST
        A1, A2 = z3.BitVecVal(0xAAAA0001, 160), z3.BitVecVal(0xAAAA0002, 160)
        code = {TEST: "<test>", A1: "<c1>", A2: "<c2>"}
        oracle = Oracle(ctx, PC)
        path = RecPath()
        ex = NS(code=code, alias={}, check=oracle, path=path, pc=9)
        branches, pushed = [], []

        def create_branch(e, cond, pc):
            # contract of create_branch (proved in this pack): the successor's path is the parent's path AS IT IS AT
            # THE TIME OF THE CALL plus the pending condition, so whatever the parent has already appended is inherited
            inherited = [c for c, _ in e.path.appended]
            nx = NS(cond=z3.And(*inherited, cond) if inherited else cond, own=cond, pc=pc, alias=dict(e.alias))
            branches.append(nx)
            return nx

        sevm = NS(create_branch=create_branch)
        stack = NS(push=lambda e: pushed.append(e))
        try:
            r = interp.call(hs.SEVM.__dict__["resolve_address_alias"], [sevm, ex, t, stack], {})
        except InfeasiblePath:
            # every candidate and the emptiness case were proved impossible under PC (minus the known region)
            ctx.oblige("InfeasiblePath only if no address outside the test contract is possible", z3.Implies(z3.And(PC, t != TEST), z3.BoolVal(False)))
            ctx.oblige("nothing pushed on an infeasible path", z3.BoolVal(not pushed and not path.appended))
            return
        conds = [b.cond for b in branches] + [c for c, _ in path.appended]
        ctx.oblige("every successor is pushed; the continuing state gets exactly one branching condition", z3.BoolVal(pushed == branches and len(path.appended) == 1 and path.appended[0][1] is True))
        # sigma-coverage: whatever address the target denotes, some successor's condition holds
        ctx.oblige("coverage: every value of the target address is covered by some successor", z3.Implies(PC, z3.Or(*conds)), info={"n": len(conds)})
        ctx.oblige("coverage outside the known-finding region (target != test contract)", z3.Implies(z3.And(PC, t != TEST), z3.Or(*conds)))
        # each successor's alias is right under its own condition
        MISSING = object()
        aliases = [(b.cond, b.alias.get(t, MISSING)) for b in branches] + [(path.appended[0][0], ex.alias.get(t, MISSING))]
        ok_alias = True
        for cnd, al in aliases:
            if al is MISSING:
                ok_alias = False
            elif al is None:
                ctx.oblige("`no code` alias only where the target differs from every contract address", z3.Implies(cnd, z3.And(*[t != a for a in code])))
            else:
                ctx.oblige("alias equals the target under the successor's condition", z3.Implies(cnd, t == al))
        ctx.oblige("every successor records its alias", z3.BoolVal(ok_alias and (r is ex.alias.get(t))))

    out.append(Case(f"{PROP}/sevm.SEVM.resolve_address_alias", "symbolic target, three contracts", harness, replay=replay_alias, sources=("halmos.sevm:SEVM.resolve_address_alias",)))

    def harness_known(interp):
        ctx = interp.ctx
        t = z3.BitVec("target", 160)
        A1 = z3.BitVecVal(0xAAAA0001, 160)
        for label, ex, want in (
            ("target is a key of ex.code", NS(code={A1: "<c1>"}, alias={}), A1),
            ("alias already chosen on this path", NS(code={A1: "<c1>"}, alias={t: A1}), A1),
        ):
            tgt = A1 if label.startswith("target is") else t
            r = interp.call(hs.SEVM.__dict__["resolve_address_alias"], [NS(), ex, tgt, NS()], {})
            ctx.oblige(f"no branching: {label}", z3.BoolVal(r is want))
        ex = NS(code={A1: "<c1>"}, alias={})
        r = interp.call(hs.SEVM.__dict__["resolve_address_alias"], [NS(), ex, z3.BitVecVal(0xBBBB, 160), NS()], {})
        ctx.oblige("concrete address without code resolves to `no code`", z3.BoolVal(r is None))

    out.append(Case(f"{PROP}/sevm.SEVM.resolve_address_alias", "no branching needed", harness_known, sources=("halmos.sevm:SEVM.resolve_address_alias",)))

    def harness_stale(interp):
        """the cached answer is an induction hypothesis about the accounts that existed when it was computed: an account added
        since (vm.etch, CREATE: both go through Exec.set_code) is a candidate that was never considered"""
        ctx = interp.ctx
        PC = z3.Bool("PC")
        t = z3.BitVec("target", 160)
        TEST = hs.FOUNDRY_TEST
        A1, NEW = z3.BitVecVal(0xAAAA0001, 160), z3.BitVecVal(0x1234, 160)
        code = {TEST: "<test>", A1: "<c1>"}
        # the path took the `no account` successor earlier: it carries target != every account of that time
        PC0 = z3.And(PC, t != TEST, t != A1)
        oracle = Oracle(ctx, PC0)
        path = RecPath()
        ex = NS(code=code, alias={t: None}, check=oracle, path=path, pc=9)
        interp.call(hs.Exec.__dict__["set_code"], [ex, NEW, hs.Contract(b"\x60\x00")], {})
        ctx.oblige("set_code adds the account", z3.BoolVal(NEW in ex.code))
        branches, pushed = [], []

        def create_branch(e, cond, pc):
            inherited = [c for c, _ in e.path.appended]
            nx = NS(cond=z3.And(*inherited, cond) if inherited else cond, own=cond, pc=pc, alias=dict(e.alias))
            branches.append(nx)
            return nx

        sevm = NS(create_branch=create_branch)
        stack = NS(push=lambda e: pushed.append(e))
        try:
            r = interp.call(hs.SEVM.__dict__["resolve_address_alias"], [sevm, ex, t, stack], {})
        except InfeasiblePath:
            ctx.oblige("InfeasiblePath only if no address outside the test contract is possible", z3.Implies(PC0, z3.BoolVal(False)))
            return
        MISSING = object()
        succ = [(b.cond, b.alias.get(t, MISSING)) for b in branches] + [(z3.And(*[c for c, _ in path.appended]) if path.appended else z3.BoolVal(True), r)]
        for cnd, al in succ:
            if al is None:
                ctx.oblige("after a new account appeared: `no code` only where the target differs from every account that exists NOW", z3.Implies(z3.And(PC0, cnd), z3.And(*[t != a for a in ex.code])), info={"accounts": len(ex.code)})
            elif al is not MISSING:
                ctx.oblige("after a new account appeared: an alias equals the target under its successor's condition and is an existing account", z3.And(z3.Implies(z3.And(PC0, cnd), t == al), z3.BoolVal(al in ex.code)))
        ctx.oblige("after a new account appeared: every value of the target address is still covered", z3.Implies(PC0, z3.Or(*[c for c, _ in succ])))

    out.append(Case(f"{PROP}/sevm.SEVM.resolve_address_alias", "cached `no account`, then an account is added (set_code)", harness_stale, replay=replay_script("alias_cache_after_etch.py", "EXTCODESIZE(a); vm.etch(0x1234, code); EXTCODESIZE(a) with a == 0x1234 possible"), sources=("halmos.sevm:SEVM.resolve_address_alias", "halmos.sevm:Exec.set_code")))

    def harness_nobranch(interp):
        """vm.store / vm.load / setArbitraryStorage resolve their account with allow_branching=False: when more than one account (or none) is
        possible the path is given up with a flagged error; one candidate is never picked silently"""
        from halmos.exceptions import HalmosException

        ctx = interp.ctx
        t = z3.BitVec("target", 160)
        A1, A2 = z3.BitVecVal(0xAAAA0001, 160), z3.BitVecVal(0xAAAA0002, 160)
        oracle = Oracle(ctx, z3.Bool("PC"))
        path = RecPath()
        ex = NS(code={hs.FOUNDRY_TEST: "<test>", A1: "<c1>", A2: "<c2>"}, alias={}, check=oracle, path=path, pc=9)
        made = []
        sevm = NS(create_branch=lambda e, cond, pc: (made.append(cond), NS(alias=dict(e.alias), path=NS(appended=[])))[1])
        try:
            r = interp.call(hs.SEVM.__dict__["resolve_address_alias"], [sevm, ex, t, NS(push=lambda e: None)], {"allow_branching": False})
        except InfeasiblePath:
            return
        except HalmosException:
            ctx.oblige("without branching: several possible accounts end the path with a flagged error", z3.BoolVal(not made and not path.appended))
            return
        # it returned: then exactly one candidate was possible, i.e. every other one is excluded by the path condition PC
        others = [a for a in (A1, A2) if r is None or not z3.eq(a, r)]
        ctx.oblige("without branching: an account is only returned if it is the ONLY possible one (nothing else is silently excluded)", z3.And(*[z3.Implies(z3.Bool("PC"), t != a) for a in others], z3.BoolVal(not made)) if r is not None else z3.And(*[z3.Implies(z3.Bool("PC"), t != a) for a in (A1, A2)]), info={"returned": str(r)})

    out.append(Case(f"{PROP}/sevm.SEVM.resolve_address_alias", "allow_branching=False (vm.store / vm.load / arbitrary storage), two accounts possible", harness_nobranch, sources=("halmos.sevm:SEVM.resolve_address_alias",)))

    def harness_gone(interp):
        ctx = interp.ctx
        t = z3.BitVec("target", 160)
        A1, GONE = z3.BitVecVal(0xAAAA0001, 160), z3.BitVecVal(0x9999, 160)
        oracle = Oracle(ctx, z3.Bool("PC"))
        ex = NS(code={hs.FOUNDRY_TEST: "<test>", A1: "<c1>"}, alias={t: GONE}, check=oracle, path=RecPath(), pc=9)
        sevm = NS(create_branch=lambda e, cond, pc: NS(alias=dict(e.alias), path=NS(appended=[])))
        try:
            r = interp.call(hs.SEVM.__dict__["resolve_address_alias"], [sevm, ex, t, NS(push=lambda e: None)], {})
        except InfeasiblePath:
            return
        ctx.oblige("an alias handed out is an account that exists (the callers index ex.code with it), also when the cached one was created in a frame that has been reverted since", z3.BoolVal(r is None or r in ex.code), info={"returned": str(r)})

    out.append(Case(f"{PROP}/sevm.SEVM.resolve_address_alias", "cached alias whose account is gone", harness_gone, replay=replay_script("alias_cache_after_etch.py", "alias to an account created in a reverted frame"), sources=("halmos.sevm:SEVM.resolve_address_alias",)))
    return out


def replay_alias(r):
    """real resolve_address_alias on a real Exec: which values of a symbolic target are covered?"""
    import halmos.sevm as hs
    from contracts.common import mk_ex, mk_sevm

    sevm = mk_sevm()
    ex = mk_ex(sevm)
    TEST = hs.FOUNDRY_TEST
    A1 = z3.BitVecVal(0xAAAA0001, 160)
    ex.code = {TEST: hs.Contract(b"\x00"), A1: hs.Contract(b"\x00")}
    t = z3.BitVec("some_address_argument", 160)
    stack = hs.Worklist()
    try:
        sevm.resolve_address_alias(ex, t, stack)
    except Exception as e:  # noqa
        return {"reproduced": None, "detail": f"replay could not drive resolve_address_alias: {type(e).__name__}: {e}"}
    conds = list(ex.path.conditions)
    for s_ in stack.stack:
        conds.append(z3.And(*(list(s_.path.conditions) + list(s_.path.pending))))
    s = z3.Solver()
    s.add(z3.Not(z3.Or(*conds)))
    if s.check() == z3.sat:
        v = s.model().eval(t, model_completion=True)
        return {"reproduced": True, "detail": f"resolve_address_alias(target = symbolic address) with contracts at {{test contract {TEST}, {A1}}}: the successors' conditions {conds} do not cover target = {v} although nothing proves it infeasible", "inputs": {"target": str(v)}, "witness_target": str(v)}
    return {"reproduced": False, "detail": "every value of the target is covered"}


# ---------------------------------------------------------------------------------------
# symbolic JUMP arm of SEVM.run (--symbolic-jump)


def symbolic_jump_cases():
    import ast

    import halmos.bitvec as hb
    import halmos.sevm as hs
    from contracts.c06 import run_dispatch_chain, select_arm
    from halmos.exceptions import InvalidJumpDestError, NotConcreteError
    from pyvc.interp import Env

    out = []
    for enabled in (True, False):

        def harness(interp, enabled=enabled):
            ctx = interp.ctx
            PC = z3.Bool("PC")
            dst = z3.BitVec("dst", 256)
            valid = [4, 9]
            oracle = Oracle(ctx, PC)
            branches, pushed = [], []

            def create_branch(e, cond, pc):
                nx = NS(cond=inherit(e, cond), pc=pc, context=NS(output=NS(error=None, data=None)))
                branches.append(nx)
                return nx

            sevm = NS(options=NS(symbolic_jump=enabled), create_branch=create_branch)
            cached = set(valid)  # Contract.valid_jumpdests returns its cached set itself (C19 contract), shared by all paths
            ex = NS(pgm=NS(valid_jumpdests=lambda: cached), check=oracle, pc=2)
            state = NS(pop=lambda: hb.HalmosBitVec(dst))
            stack = NS(push=lambda e: pushed.append(e))
            sf, fn, first = run_dispatch_chain()
            env = Env({"self": sevm, "ex": ex, "state": state, "opcode": hs.OP_JUMP, "stack": stack, "insn": NS(opcode=hs.OP_JUMP, next_pc=3)}, None, hs.__dict__)
            body = select_arm(interp, first, env)
            kind, payload, _ = interp.exec_fragment(body, env, qual="halmos.sevm:SEVM.run#JUMP-symbolic")
            ctx.oblige("frame: the code's cached set of valid jump destinations (shared by every path and transaction) is not modified", z3.BoolVal(cached == set(valid)), info={"now": str(sorted(cached))})
            if not enabled:
                ctx.oblige("symbolic jump target without --symbolic-jump: flagged as unsupported (stuck path), never guessed", z3.BoolVal(kind == "raise" and isinstance(payload, NotConcreteError) and not pushed))
                return
            is_valid = z3.Or(*[dst == v for v in valid])
            if kind == "raise":
                ctx.oblige("InvalidJumpDestError for the whole state only if no valid destination is possible", z3.And(z3.BoolVal(isinstance(payload, InvalidJumpDestError) and not pushed), z3.Implies(PC, z3.Not(is_valid))), info={"exc": type(payload).__name__})
                return
            ctx.oblige("arm ends with continue and every branch is pushed", z3.BoolVal(kind == "continue" and pushed == branches))
            jumps = [b for b in branches if b.context.output.error is None]
            errs = [b for b in branches if b.context.output.error is not None]
            ok_each = all(any(JU_is_exactly(b.cond, dst == v) and b.pc == v for v in valid) for b in jumps)
            ctx.oblige("each jumping successor continues at one valid destination under exactly dst == destination", z3.BoolVal(ok_each))
            ctx.oblige("coverage: an input that jumps to a valid destination is covered", z3.Implies(z3.And(PC, is_valid), z3.Or(*[b.cond for b in jumps]) if jumps else z3.BoolVal(False)))
            ctx.oblige("coverage: an input that jumps to an invalid destination ends with InvalidJumpDestError", z3.Implies(z3.And(PC, z3.Not(is_valid)), z3.Or(*[b.cond for b in errs]) if errs else z3.BoolVal(False)))
            for b in errs:
                ctx.oblige("a failing successor carries InvalidJumpDestError (delayed, no data yet) only for invalid destinations", z3.And(z3.BoolVal(isinstance(b.context.output.error, InvalidJumpDestError) and b.context.output.data is None), z3.Implies(b.cond, z3.Not(is_valid))))

        out.append(Case(f"{PROP}/sevm.SEVM.run#JUMP-symbolic", f"--symbolic-jump={enabled}", harness, replay=replay_symbolic_jump if enabled else None, sources=("halmos.sevm:SEVM.run",)))
    return out


def JU_is_exactly(q, want):
    return JU.is_exactly(q, want)


def replay_symbolic_jump(r):
    from contracts.common import mk_ex, mk_sevm

    sevm = mk_sevm(symbolic_jump=True)
    # 0: CALLVALUE 1: JUMP 2: STOP 3: JUMPDEST 4: STOP
    ex = mk_ex(sevm, bytes([0x34, 0x56, 0x00, 0x5B, 0x00]))
    try:
        outs = list(sevm.run(ex))
    except Exception as e:  # noqa
        return {"reproduced": None, "detail": f"replay could not run: {type(e).__name__}: {e}"}
    conds = [z3.And(*list(o.path.conditions)) if o.path.conditions else z3.BoolVal(True) for o in outs]
    v = z3.BitVec("msg_value", 256)
    s = z3.Solver()
    s.add(z3.Not(z3.Or(*conds)))
    if s.check() == z3.sat:
        w = s.model().eval(v, model_completion=True)
        return {"reproduced": True, "detail": f"program CALLVALUE JUMP STOP JUMPDEST STOP with --symbolic-jump: reported paths {[ (str(c), type(o.context.output.error).__name__) for c, o in zip(conds, outs)]} do not cover msg.value = {w} (an invalid destination: the EVM fails with InvalidJumpDest, halmos reports nothing)", "inputs": {"msg_value": str(w)}}
    return {"reproduced": False, "detail": "every call value is covered by a reported path"}


# ---------------------------------------------------------------------------------------
# Path.branch / Path.activate / SEVM.create_branch: what a successor is


class RecSolver:
    def __init__(self):
        self.scopes = 0
        self.log = []
        self.asserted = [[]]

    def num_scopes(self):
        return self.scopes

    def push(self):
        self.scopes += 1
        self.asserted.append([])
        self.log.append(("push",))

    def pop(self, n=1):
        self.log.append(("pop", n))
        for _ in range(n):
            self.asserted.pop()
        self.scopes -= n

    def add(self, c):
        self.asserted[-1].append(c)
        self.log.append(("add", c))

    def check(self, *a):
        return z3.unknown


def _real_path(solver, conds):
    import halmos.sevm as hs

    p = hs.Path(solver)
    for c, br in conds:
        hs.Path.append(p, c, br)
    return p


def replay_sibling_scopes(r):
    """native, real z3 solver: three successors of one state activated last-in first-out; each must be satisfiable for the solver"""
    import halmos.__main__ as hm
    import halmos.sevm as hs
    from contracts.common import config

    x = z3.BitVec("x", 256)
    parent = hs.Path(hm.mk_solver(config()))
    parent.append(z3.UGT(x, 5), branching=True)
    kids = [parent.branch(x == 10 + k) for k in range(3)]
    bad = []
    for k in reversed(range(3)):
        kids[k].activate()
        res = kids[k].solver.check()
        if res != z3.sat:
            bad.append(f"successor {k} (x > 5 and x == {10 + k}): the shared solver answers {res} after its activation")
    if bad:
        return {"reproduced": True, "detail": "three successors created back to back by Path.branch, activated last-in first-out: " + "; ".join(bad) + " -- every later feasibility check on these paths is `unsat`, so the inputs x = 10, 11 are covered by no reported path", "inputs": "branch(x==10), branch(x==11), branch(x==12)"}
    return {"reproduced": False, "detail": "each of the three successors is satisfiable for the shared solver after its activation"}


def path_cases():
    import halmos.sevm as hs

    out = []

    def harness_branch(interp):
        ctx = interp.ctx
        x, y = z3.BitVecs("x y", 256)
        solver = RecSolver()
        parent = _real_path(solver, [(z3.UGT(x, 5), True), (y == 7, False)])
        parent.concretization.candidates[x] = [1, 2]
        n_added = len(solver.log)
        c = z3.ULT(x, 100)
        child = interp.call(hs.Path.__dict__["branch"], [parent, c], {})
        ctx.oblige("the successor carries every condition of its parent (same order and flags)", z3.BoolVal(list(child.conditions.items()) == list(parent.conditions.items())))
        ctx.oblige("the branching condition is pending on the successor, not yet asserted anywhere", z3.BoolVal(list(child.pending) == [c] and c not in child.conditions and c not in parent.conditions and not any(e[0] == "add" for e in solver.log[n_added:])))
        ctx.oblige("the solver scope to return to is recorded and a new scope is opened", z3.BoolVal(child.num_scopes == 0 and solver.scopes == 1 and child.solver is solver))
        # ownership: what one path learns later must not become visible to its sibling
        own = child.conditions is not parent.conditions and child.concretization is not parent.concretization and child.concretization.substitution is not parent.concretization.substitution and child.concretization.candidates is not parent.concretization.candidates and child.related is not parent.related and child.var_to_conds is not parent.var_to_conds
        ctx.oblige("ownership: conditions, substitution map, candidate map and dependency maps of the successor are its own copies", z3.BoolVal(own))
        # ... and nothing else that can be written is shared: every attribute holding a mutable container is either the successor's own object or one
        # of the two that are shared on purpose (the solver with its push/pop discipline; term_to_vars, a memo of a pure function of the term alone)
        shared = sorted(n for n in set(vars(child)) & set(vars(parent)) if getattr(child, n) is getattr(parent, n) and isinstance(getattr(child, n), (dict, list, set, bytearray)) and n not in ("term_to_vars",))
        ctx.oblige("ownership: no other mutable container of the parent path is handed to the successor (memo tables, caches: what one path learnt under its own conditions does not hold on its sibling)", z3.BoolVal(not shared), info={"shared": str(shared)})
        ctx.oblige("the copies start equal to the parent's", z3.BoolVal(child.concretization.substitution == parent.concretization.substitution and child.concretization.candidates == parent.concretization.candidates and dict(child.var_to_conds) == dict(parent.var_to_conds)))
        # frame: a fact learnt by the parent afterwards does not reach the pending successor
        hs.Path.append(parent, x == 9, True)
        ctx.oblige("frame: an equality learnt later on one path is not substituted on its sibling", z3.BoolVal(x not in child.concretization.substitution and (x == 9) not in child.conditions))

    out.append(Case(f"{PROP}/sevm.Path.branch", "two conditions, one learnt substitution", harness_branch, replay=replay_branch_isolation, sources=("halmos.sevm:Path.branch",)))

    def harness_busy(interp):
        ctx = interp.ctx
        solver = RecSolver()
        p = _real_path(solver, [])
        p.pending.append(z3.Bool("c"))
        try:
            interp.call(hs.Path.__dict__["branch"], [p, z3.Bool("d")], {})
            ctx.oblige("branching from a path that is not activated is refused", z3.BoolVal(False))
        except ValueError:
            ctx.oblige("branching from a path that is not activated is refused", z3.BoolVal(True))

    out.append(Case(f"{PROP}/sevm.Path.branch", "inactive path", harness_busy, sources=("halmos.sevm:Path.branch",)))

    for extra in (0, 1, 3):

        def harness_activate(interp, extra=extra):
            ctx = interp.ctx
            x = z3.BitVec("x", 256)
            solver = RecSolver()
            parent = _real_path(solver, [(z3.UGT(x, 5), True)])
            c = z3.ULT(x, 100)
            child = hs.Path.branch(parent, c)
            # the parent (or other successors) went on: more scopes and assertions above the recorded one
            for k in range(extra):
                solver.push()
                solver.add(x != 50 + k)
            interp.call(hs.Path.__dict__["activate"], [child], {})
            ctx.oblige("activation returns the solver to the recorded scope (assertions made since by other paths are gone)", z3.BoolVal(solver.scopes == 0 and not any(str(a_).startswith("x != 5") for sc in solver.asserted for a_ in sc)), info={"scopes": solver.scopes})
            last_c, last_flag = list(child.conditions.items())[-1]
            ctx.oblige("activation asserts exactly the pending branching condition, as a branching condition, and clears it", z3.BoolVal(list(child.pending) == [] and len(child.conditions) == 2 and JU.is_exactly(last_c, c) and last_flag is True and solver.asserted[-1][-1] is last_c))
            visible = [a_ for sc in solver.asserted for a_ in sc]
            ctx.oblige("what the solver holds afterwards are conditions of this path only", z3.BoolVal(all(any(a_.eq(cc) for cc in child.conditions) for a_ in visible)))

        out.append(Case(f"{PROP}/sevm.Path.activate", f"{extra} foreign scope(s) above", harness_activate, sources=("halmos.sevm:Path.activate",)))

    def harness_siblings(interp):
        """several successors created back to back from one state (size candidates, aliases, jump targets), then taken
        from the worklist last-in first-out, each one running on (asserting more) before the next is activated"""
        ctx = interp.ctx
        x, y = z3.BitVecs("x y", 256)
        solver = RecSolver()
        parent = _real_path(solver, [(z3.UGT(x, 5), True)])
        conds = [x == 10 + k for k in range(3)]
        kids = [interp.call(hs.Path.__dict__["branch"], [parent, c], {}) for c in conds]
        hs.Path.append(parent, y == 1, True)  # the live state goes on
        for k in reversed(range(3)):
            kid = kids[k]
            interp.call(hs.Path.__dict__["activate"], [kid], {})
            visible = [a_ for sc in solver.asserted for a_ in sc]
            ctx.oblige(f"successor {k}: after its activation the solver holds conditions of this path only (nothing of a sibling activated before it)", z3.BoolVal(all(any(a_.eq(cc) for cc in kid.conditions) for a_ in visible)), info={"visible": [str(v) for v in visible]})
            ctx.oblige(f"successor {k}: after its activation the solver holds every condition of this path", z3.BoolVal(all(any(a_.eq(cc) for a_ in visible) for cc in kid.conditions)))
            hs.Path.append(kid, y == 20 + k, True)  # it runs on before the next one is taken

    out.append(Case(f"{PROP}/sevm.Path.branch", "three successors back to back, activated last-in first-out", harness_siblings, replay=replay_sibling_scopes, sources=("halmos.sevm:Path.branch", "halmos.sevm:Path.activate")))

    def harness_stale(interp):
        ctx = interp.ctx
        solver = RecSolver()
        p = _real_path(solver, [])
        p.num_scopes = 2
        p.pending.append(z3.Bool("c"))
        try:
            interp.call(hs.Path.__dict__["activate"], [p], {})
            ctx.oblige("a path whose recorded scope no longer exists is rejected, not silently activated", z3.BoolVal(False))
        except ValueError:
            ctx.oblige("a path whose recorded scope no longer exists is rejected, not silently activated", z3.BoolVal(True))

    out.append(Case(f"{PROP}/sevm.Path.activate", "stale scope", harness_stale, sources=("halmos.sevm:Path.activate",)))

    def harness_create_branch(interp):
        ctx = interp.ctx
        from contracts.common import mk_ex, mk_sevm

        sevm = mk_sevm()
        ex = mk_ex(sevm, bytes([0x5B, 0x00, 0x5B, 0x00]))
        ex.st.stack.append(hs.ZERO)
        ex.jumpis[(0, ())] = {True: 1, False: 0}
        ex.alias[z3.BitVec("a", 160)] = None
        ex.cnts["fresh"] = 3
        c = z3.Bool("c")
        seen = []
        marker = NS(tag="new-path")
        interp.contracts["halmos.sevm:Path.branch"] = lambda i, a, k: (seen.append((a[0], a[1])), marker)[1]
        nx = interp.call(hs.SEVM.__dict__["create_branch"], [sevm, ex, c, 2], {})
        ctx.oblige("the successor's path is the parent's path branched on exactly the given condition", z3.BoolVal(nx.path is marker and seen == [(ex.path, c)]))
        ctx.oblige("the successor starts at the given pc with the instruction decoded there", z3.BoolVal(nx.pc == 2 and nx.insn.opcode == 0x5B and nx.pgm is ex.pgm))
        fresh = nx.st is not ex.st and nx.st.stack is not ex.st.stack and nx.st.memory is not ex.st.memory and nx.storage is not ex.storage and nx.transient_storage is not ex.transient_storage and nx.jumpis is not ex.jumpis and nx.code is not ex.code and nx.alias is not ex.alias and nx.cnts is not ex.cnts and nx.sha3s is not ex.sha3s and nx.storages is not ex.storages and nx.balances is not ex.balances and nx.context is not ex.context and nx.block is not ex.block
        ctx.oblige("ownership: stack, memory, storage, transient storage, loop counters, code map, aliases, counters, hash registry, update maps, call context and block of the successor are its own copies", z3.BoolVal(fresh))
        same = len(nx.st.stack) == 1 and nx.jumpis == ex.jumpis and nx.alias == ex.alias and nx.cnts == ex.cnts and nx.balance is ex.balance and nx.callback is ex.callback and set(nx.code) == set(ex.code)
        ctx.oblige("the copies start equal to the parent's state", z3.BoolVal(same))
        nx.jumpis[(0, ())][True] = 9
        nx.st.stack.append(hs.ONE)
        ctx.oblige("frame: later changes of the successor do not reach the parent", z3.BoolVal(ex.jumpis[(0, ())][True] == 1 and len(ex.st.stack) == 1))

    out.append(Case(f"{PROP}/sevm.SEVM.create_branch", "state with stack, counters, aliases", harness_create_branch, sources=("halmos.sevm:SEVM.create_branch",)))
    return out


def replay_branch_isolation(r):
    """real run: two nested symbolic branches, the second re-reads the calldata word the first one fixed"""
    import halmos.sevm as hs

    x = z3.BitVec("p", 256)
    solver = __import__("halmos.utils", fromlist=["create_solver"]).create_solver()
    parent = hs.Path(solver)
    parent.append(z3.UGT(x, 1))
    child = parent.branch(z3.ULT(x, 100))
    parent.append(x == 5, branching=True)
    leaked = x in child.concretization.substitution
    if leaked:
        return {"reproduced": True, "detail": "Path.branch: after the parent path learnt `p == 5`, the pending sibling path substitutes p by 5 as well (shared Concretization.substitution): inputs with p != 5 are decided as if p were 5", "inputs": "parent.append(p == 5) after parent.branch(p < 100)"}
    return {"reproduced": False, "detail": "sibling paths do not share learnt substitutions"}


# ---------------------------------------------------------------------------------------
# the worklist protocol of SEVM.run: every state that an arm pushes (or hands on as next_ex) is taken up again
# exactly once, and the loop only ends when nothing is pending


def worklist_cases():
    import ast
    import itertools

    import halmos.sevm as hs
    from pyvc.interp import Env

    out = []

    def harness_bag(interp):
        ctx = interp.ctx
        bad = []
        n = 0
        for k in range(0, 7):
            for ops in itertools.product("UO", repeat=k):  # U = push a fresh state, O = pop
                n += 1
                wl = hs.Worklist()
                model, fresh, got, want = [], 0, [], []
                for o in ops:
                    if o == "U":
                        tok = ("state", fresh)
                        fresh += 1
                        interp.call(hs.Worklist.__dict__["push"], [wl, tok], {})
                        model.append(tok)
                    else:
                        got.append(interp.call(hs.Worklist.__dict__["pop"], [wl], {}))
                        want.append(model.pop() if model else None)
                if got != want or list(wl.stack) != model or len(wl) != len(model):
                    bad.append("".join(ops))
        ctx.oblige(f"Worklist is a LIFO bag: every pushed state is popped exactly once, pop on empty gives None ({n} histories of up to 6 operations)", z3.BoolVal(not bad), info={"first": str(bad[:2])})

    out.append(Case(f"{PROP}/sevm.SEVM.run#worklist-protocol", "Worklist.push/pop", harness_bag, sources=("halmos.sevm:Worklist.push", "halmos.sevm:Worklist.pop")))

    def harness_loop(interp):
        ctx = interp.ctx
        sf, fn = loader.find_unit("halmos.sevm:SEVM.run")
        loops = [n for n in fn.body if isinstance(n, ast.While)]
        ctx.oblige("SEVM.run has exactly one main loop, and it is the last statement (nothing is yielded after it)", z3.BoolVal(len(loops) == 1 and fn.body[-1] is loops[0]))
        if len(loops) != 1:
            return
        w = loops[0]
        # (1) the loop condition takes the state handed on by the previous iteration, else pops; ends iff nothing is pending
        for nx, stk in ((None, []), ("N", []), (None, ["A", "B"]), ("N", ["A"])):
            wl = hs.Worklist()
            for x in stk:
                wl.push(x)
            env = Env({"next_ex": nx, "stack": wl}, None, hs.__dict__)
            r = interp.truth(interp.eval(w.test, env))
            took = env.lookup("ex")
            want = nx if nx is not None else (stk[-1] if stk else None)
            ctx.oblige(f"loop condition[next_ex={nx}, {len(stk)} stacked]: the state handed on is taken first, otherwise the most recently pushed one; the loop ends iff nothing is pending", z3.BoolVal(took == want and r == (want is not None) and list(wl.stack) == (stk if nx is not None else stk[:-1])))
        # (2) frame: inside the loop, `next_ex` is reset at the start of every iteration and set only to the current state
        assigns = [n for n in ast.walk(w) if isinstance(n, (ast.Assign, ast.AnnAssign)) and any(isinstance(t, ast.Name) and t.id == "next_ex" for t in (n.targets if isinstance(n, ast.Assign) else [n.target]))]
        srcs = sorted(ast.unparse(a) for a in assigns)
        body = w.body
        tr = body[0] if body and isinstance(body[0], ast.Try) else None
        first_ok = tr is not None and len(body) == 1 and isinstance(tr.body[0], ast.Assign) and ast.unparse(tr.body[0]) == "next_ex = None"
        ctx.oblige("frame: `next_ex` is cleared first thing in every iteration and only ever set to the state just executed", z3.BoolVal(first_ok and srcs.count("next_ex = None") == 1 and set(srcs) == {"next_ex = None", "next_ex = ex"}), info={"assignments": str(srcs)})
        # (3) the loop is left only through its condition: no break / return in its body (nested functions aside)
        leaves = []

        def scan(node):
            for ch in ast.iter_child_nodes(node):
                if isinstance(ch, (ast.FunctionDef, ast.Lambda)):
                    continue
                if isinstance(ch, (ast.Break, ast.Return)):
                    leaves.append(type(ch).__name__)
                scan(ch)

        scan(w)
        ctx.oblige("the loop is left only when nothing is pending: its body contains no break and no return", z3.BoolVal(not leaves and not w.orelse), info={"found": str(leaves)})
        # (4) every handler of the main try ends the iteration with `continue` (the state is finalized, reported or dropped with a reason: C10)
        hs_ok = tr is not None and all(isinstance(h.body[-1], ast.Continue) for h in tr.handlers) and not tr.finalbody and not tr.orelse
        ctx.oblige("every exception handler of the main loop ends the iteration and goes on with the next pending state", z3.BoolVal(hs_ok))

    out.append(Case(f"{PROP}/sevm.SEVM.run#worklist-protocol", "main loop skeleton", harness_loop, sources=("halmos.sevm:SEVM.run",)))
    return out


def replay_jumpi_and_order(r):
    rep = JU.replay_jumpi(r)
    if rep.get("reproduced"):
        return rep
    return replay_script("jumpi_push_order.py", "if x==1 ..; if x==2 ..; if x==7 ..; else ..: is every value of x covered by a reported path?")(r)


def prank_funds_cases():
    from contracts import c14

    return [Case(f"{PROP}/sevm.SEVM.call#funds-account", c.case, c.harness, replay=c.replay, sources=c.sources) for c in c14.call_prank_cases()]


def extend_path_cases():
    """every test and every invariant target call starts by extending the setUp / frontier path: if the child shared the
    parent's condition table, the branches explored by one run would be `already decided` in the next (C11's unit)"""
    from contracts import c11
    from contracts.common import rewrap

    return rewrap(PROP, c11.path_growth_cases(), "start-of-run-ownership", lambda c: "extend_path" in c.unit)


def input_space_ref():
    """no admissible input is excluded up front: a ranged symbol admits exactly [min, max] (unsigned; C14's unit) and a dynamic array has one
    free element per index below its LARGEST length candidate, in whatever order the candidates are listed (C12's unit)"""
    from contracts import c12, c14
    from contracts.common import rewrap

    return rewrap(PROP, c14.create_cases(), "ranged-symbols", lambda c: "min_max" in c.unit) + rewrap(PROP, c12.encode_cases(), "array-elements", lambda c: "sizes=" in c.case)


def storage_copy_ref():
    """every copy of the state (fork, new transaction, restore after a failed frame) keeps the arbitrary-storage marker of each account:
    without it untouched slots read as 0 and the inputs with another initial value are covered by no path (C08's unit)"""
    from contracts import c08
    from contracts.common import rewrap

    return rewrap(PROP, c08.sevm_cases(), "symbolic-storage-survives-copies", lambda c: "run_message#storage" in c.unit)


def setup_selection_ref():
    """a feasible setUp() path is not dropped because its feasibility query timed out (C10's unit)"""
    from contracts import c10
    from contracts.common import rewrap

    return rewrap(PROP, c10.setup_selection_cases(), "timeout-keeps-the-path")


def multi_return_cases():
    """a cheatcode that returns several alternatives (svm.createCalldata*) forks the path in SEVM.call: one successor per alternative; the state
    that goes on in place keeps the shared solver as it is, so it has to be pushed LAST (taken first), and its siblings are branched off it
    before it is touched"""
    import ast as _ast

    import halmos.sevm as hs
    from pyvc.interp import Env
    from halmos.bytevec import ByteVec

    out = []
    for n in (1, 2, 3):

        def harness(interp, n=n):
            ctx = interp.ctx
            sf, node = loader.func_node(hs.SEVM.call)
            inner = [x for x in _ast.walk(node) if isinstance(x, _ast.FunctionDef) and x.name == "call_unknown"]
            if len(inner) != 1:
                raise loader.BindingError("SEVM.call: nested call_unknown not found")
            body = inner[0].body
            start = [k for k, st in enumerate(body) if isinstance(st, _ast.Assign) and any(isinstance(t, _ast.Name) and t.id == "ret_lst" for t in st.targets)]
            if len(start) != 1:
                raise loader.BindingError("call_unknown: `ret_lst = ...` not found")
            frag = body[start[0] :]
            rets = [ByteVec(bytes([k + 1]) * 4) for k in range(n)]
            events = []

            class Ex:
                def __init__(self, tag):
                    self.tag = tag
                    self.context = NS(trace=[], depth=1)
                    self.pc = 5
                    self.advanced = 0

                def advance(self, *a, **k):
                    self.advanced += 1

            ex = Ex("running")

            def create_branch(e, cond, pc):
                events.append(("branch", e.tag, len(e.context.trace), e.advanced))
                b = Ex(f"sibling{len([x for x in events if x[0] == 'branch'])}")
                return b

            pushed = []
            copied = []
            interp.externals[hs.copy_returndata_to_memory] = lambda i, *a, **k: copied.append((a[3], a[0]))
            env = Env({"self": NS(create_branch=create_branch), "ex": ex, "ret": rets if n > 1 else rets[0], "ret_loc": 0, "ret_size": 4, "message": NS(tag="msg"), "stack": NS(push=lambda e: pushed.append(e))}, None, hs.__dict__)
            kind, payload, _ = interp.exec_fragment(frag, env, qual="halmos.sevm:SEVM.call#multi-return", is_gen=False)
            ctx.oblige("the return loop runs to its end", z3.BoolVal(kind in ("fallthrough", "return")), info={"kind": kind, "payload": str(payload)[:120]})
            ctx.oblige("one successor per alternative, the running state among them, each pushed once", z3.BoolVal(len(pushed) == n and len({id(e) for e in pushed}) == n and any(e is ex for e in pushed)))
            if len(pushed) == n and any(e is ex for e in pushed):
                ctx.oblige("the state that goes on in place is pushed last (it is taken next: the shared solver still holds exactly its conditions)", z3.BoolVal(pushed[-1] is ex), info={"order": [e.tag for e in pushed]})
                got = sorted(bytes(e.context.trace[-1].output.data.unwrap()) for e in pushed if e.context.trace)
                ctx.oblige("each successor gets one alternative as its return data (recorded as a sub-frame) and every alternative is used", z3.BoolVal(got == sorted(bytes(r.unwrap()) for r in rets) and all(len(e.context.trace) == 1 and e.advanced == 1 for e in pushed)))
                ctx.oblige("siblings are branched off the running state before it is modified", z3.BoolVal(all(ev[1] == "running" and ev[2] == 0 and ev[3] == 0 for ev in events if ev[0] == "branch")), info={"events": str(events)})

        out.append(Case(f"{PROP}/sevm.SEVM.call#multi-return", f"{n} alternative(s)", harness, replay=replay_script("multi_return_order.py", "svm.createCalldata with three alternatives, two of which branch on x == 5 while the first asserts x != 6"), sources=("halmos.sevm:SEVM.call",)))
    return out


def grounds():
    from contracts.common import ground_script
    from pyvc.pack import Ground

    return [Ground(f"{PROP}/sevm.SEVM.call#symbolic-target-precompile", ground_script("symbolic_target_precompile.py", "CALL(a, ...) with a symbolic a; RETURNDATASIZE", "a symbolic call target that can equal a precompile (or cheatcode) address is not treated as an account without code unless that is proved impossible"), sources=("halmos.sevm:SEVM.resolve_address_alias", "halmos.sevm:SEVM.call")), Ground(f"{PROP}/sevm.SEVM.run#JUMP-symbolic#bool-destination", ground_script("symbolic_jump_bool_destination.py", "--symbolic-jump with a comparison result (symbolic Bool) as the destination", "a symbolic jump whose destination is a Bool-typed word ends every path with a verdict (an invalid destination is an EVM failure, not an internal exception that aborts the exploration)"), sources=("halmos.sevm:SEVM.run",))]


def build_cases(tier="quick"):
    return multi_return_cases() + input_space_ref() + storage_copy_ref() + setup_selection_ref() + extend_path_cases() + prank_funds_cases() + jumpi_cases() + check_cases() + select_cases() + calldataload_cases() + funds_cases() + alias_cases() + symbolic_jump_cases() + path_cases() + worklist_cases()


ASSUMPTIONS = [
    "pyvc (VC generator, Python-subset semantics) is trusted; path covers guard vacuity",
    "Exec.check is used through its contract in the caller proofs (unsat => PC excludes the query); z3 `unsat` is trusted to mean unsatisfiable",
    "create_branch and Path.branch are used through their contracts in the caller proofs and proved as units of their own (successor = parent's conditions + the pending condition at the given pc, on copies it owns; Path.activate returns the shared solver to the recorded scope)",
    "the worklist / activation discipline of SEVM.run (every pushed state is eventually popped, activated and run) is not under contract",
]
TRUSTED = ["pyvc (this repository's verifier)", "z3 4.12.6"]
TECHNIQUE = "sigma-coverage VCs generated from the real source AST by pyvc (solver answers, visit counts, loop bound and target validity universally quantified), z3"
