"""C08 — storage reads return the last write to the same slot; no aliasing.

Contracts relative to an abstract `decode` (the location term -> key structure function, which
inspects z3 term syntax and is covered by a bounded stand-in):

  sevm.SolidityStorage.{init,load,store} / sevm.GenericStorage.{init,load,store}
        executed from the AST on a real Exec (real Path, real Exec.select); for write/read sequences
        over symbolic keys and values the value read is proved, under the path's own conditions
        (array definitions, emptiness axioms), to be the most recent write to an equal key of the
        same structure, else the initial value (zero; unconstrained in symbolic-storage mode);
        different structures (slot, number of keys, key width) never influence each other
  sevm.SEVM.sload / sstore      go through the configured layout, record the access, refuse writes
                                 in static frames
  sevm.SEVM.run_message          transient storage of a new transaction is a fresh empty map for every
                                 account; persistent storage is a private copy
  utils.OffsetMap                m[k'] = (v, k' - k) iff k' and the stored k agree above the offset
                                 bits (symbolic 256-bit keys); copy is independent
  sevm.KeccakRegistry            register / reverse_lookup: a registered hash value plus an offset is
                                 turned back into `expr + offset`; first registration wins; copy
  hashes.keccak256_256 / keccak256_512 and utils.precomputed_keccak_registry
                                 every table entry is really keccak256 of its preimage (ground, all
                                 entries), and the registry maps each to the right hash term
Bounded stand-in (never counted): `decode`/`normalize` on a grammar of Solidity location
expressions in several syntactic variants, both layouts.
"""
from __future__ import annotations

import itertools
import random

import z3

from pyvc import loader
from pyvc.interp import _ENGINE, PathEnd, SymDict
from pyvc.pack import Bounded, Case, Ground
from pyvc.sym import SymInt, iexpr, to_bv

loader.import_repo()
import halmos.bitvec as hb  # noqa: E402
import halmos.hashes as hh  # noqa: E402
import halmos.sevm as hs  # noqa: E402
import halmos.utils as hu  # noqa: E402
from contracts.common import THIS, mk_ex, mk_sevm, replay_script  # noqa: E402

PROP = "C08"
Z = z3.BitVecVal(0, 256)


class NS:
    def __init__(self, **kw):
        self.__dict__.update(kw)


def pc_of(ex):
    cs = list(ex.path.conditions)
    return z3.And(*cs) if cs else z3.BoolVal(True)


class After:
    """Implies(path condition AFTER the accesses, goal): the goal is built first (its loads append
    their emptiness axioms to the path), the path condition is read afterwards"""

    def __init__(self, ex, goal):
        self.f = z3.Implies(pc_of(ex), goal)


def val(x):
    x = x.as_z3() if hasattr(x, "as_z3") else x
    return z3.BitVecVal(x, 256) if isinstance(x, int) else x


def replay_storage(r):
    """real sstore/sload with locations written as compiled Solidity writes them (real decode, real
    hashing), checked by z3 against last-write-wins"""
    for layout in ("solidity", "generic"):
        sevm = mk_sevm(storage_layout=layout)
        ex = mk_ex(sevm)
        k1, k2, k3, v1, v2, i1, i2 = z3.BitVecs("k1 k2 k3 v1 v2 i1 i2", 256)

        def m(slot, key):
            return hb.HalmosBitVec(ex.sha3_data(z3.Concat(key, z3.BitVecVal(slot, 256))))

        def arr(slot, idx):
            return hb.HalmosBitVec(ex.sha3_data(z3.BitVecVal(slot, 256)) + idx)

        W = hb.HalmosBitVec
        try:
            sevm.sstore(ex, THIS, m(7, k1), W(v1))
            sevm.sstore(ex, THIS, m(7, k2), W(v2))
            sevm.sstore(ex, THIS, arr(7, i1), W(v2))
            sevm.sstore(ex, THIS, W(5), W(v1))
            reads = [
                ("m7[k3]", val(sevm.sload(ex, THIS, m(7, k3))), z3.If(k3 == k2, v2, z3.If(k3 == k1, v1, Z))),
                ("m8[k1]", val(sevm.sload(ex, THIS, m(8, k1))), Z),
                ("a7[i2]", val(sevm.sload(ex, THIS, arr(7, i2))), z3.If(i2 == i1, v2, Z)),
                ("x5", val(sevm.sload(ex, THIS, W(5))), v1),
                ("x6", val(sevm.sload(ex, THIS, W(6))), Z),
            ]
        except Exception as e:  # noqa
            return {"reproduced": True, "detail": f"{layout} layout: storage access raised {type(e).__name__}: {e}"}
        for name, got, want in reads:
            s_ = z3.Solver()
            s_.set("timeout", 20000)
            s_.add(pc_of(ex), got != want)
            if s_.check() == z3.sat:
                mdl = s_.model()
                return {"reproduced": True, "detail": f"{layout} layout: after m7[k1]=v1; m7[k2]=v2; a7[i1]=v2; x5=v1 the read of {name} returns {got}, which differs from the last write to that slot for {mdl}", "inputs": str(mdl)[:300]}
    return {"reproduced": False, "detail": "real sload returns the last write on the replay sequence in both layouts"}


# ---------------------------------------------------------------------------------------
def solidity_cases():
    out = []
    S = hs.SolidityStorage
    k1, k2, k3, v1, v2, i1, i2 = z3.BitVecs("k1 k2 k3 v1 v2 i1 i2", 256)
    a1 = z3.BitVec("addr_key", 160)

    # location tokens -> key structure (the contract of decode for these tokens)
    STRUCT = {
        "x@5": (z3.BitVecVal(5, 256),),
        "y@6": (z3.BitVecVal(6, 256),),
        "m@7[k1]": (z3.BitVecVal(7, 256), k1, Z),
        "m@7[k2]": (z3.BitVecVal(7, 256), k2, Z),
        "m@7[k3]": (z3.BitVecVal(7, 256), k3, Z),
        "m@8[k1]": (z3.BitVecVal(8, 256), k1, Z),
        "a@7[i1]": (z3.BitVecVal(7, 256), i1),
        "a@7[i2]": (z3.BitVecVal(7, 256), i2),
        "n@9[addr]": (z3.BitVecVal(9, 256), a1, Z),
        "mm@10[k1][k2]": (z3.BitVecVal(10, 256), k1, Z, k2, Z),
        "mm@10[k2][k1]": (z3.BitVecVal(10, 256), k2, Z, k1, Z),
    }
    TOK = {name: z3.BitVec("loc<" + name + ">", 256) for name in STRUCT}

    def install(interp):
        def decode(i, a, k):
            loc = a[-1]
            for name, t in TOK.items():
                if loc is t or (z3.is_expr(loc) and loc.eq(t)):
                    return STRUCT[name]
            raise loader.BindingError(f"decode contract: unknown location token {loc}")

        interp.contracts["halmos.sevm:SolidityStorage.decode"] = decode

    def fresh(symbolic=False):
        sevm = mk_sevm()
        ex = mk_ex(sevm)
        ex.storage[THIS].symbolic = symbolic
        return sevm, ex

    def store(interp, ex, name, v):
        interp.call(S.store, [ex, ex.storage, THIS, TOK[name], v], {})

    def load(interp, ex, name):
        return val(interp.call(S.load, [ex, ex.storage, THIS, TOK[name]], {}))

    def seq(desc, script):
        def harness(interp):
            install(interp)
            script(interp, interp.ctx)

        out.append(Case(f"{PROP}/sevm.SolidityStorage", desc, harness, replay=replay_storage, sources=("halmos.sevm:SolidityStorage.load", "halmos.sevm:SolidityStorage.store", "halmos.sevm:SolidityStorage.init", "halmos.sevm:SolidityStorage.get_key_structure")))

    def s_scalar(interp, ctx):
        sevm, ex = fresh()
        ctx.oblige("a scalar never written reads as zero", load(interp, ex, "x@5") == Z)
        store(interp, ex, "x@5", v1)
        ctx.oblige("a scalar reads the value last stored", After(ex, load(interp, ex, "x@5") == v1).f)
        store(interp, ex, "x@5", v2)
        ctx.oblige("a second store overwrites the first", After(ex, load(interp, ex, "x@5") == v2).f)
        ctx.oblige("another scalar slot is unaffected", After(ex, load(interp, ex, "y@6") == Z).f)

    seq("scalar: write, overwrite, neighbour", s_scalar)

    def s_map(interp, ctx):
        sevm, ex = fresh()
        store(interp, ex, "m@7[k1]", v1)
        store(interp, ex, "m@7[k2]", v2)
        r = load(interp, ex, "m@7[k3]")
        ctx.oblige("mapping: the value read is the most recent write to an equal key, else zero — for every valuation of the keys", After(ex, r == z3.If(k3 == k2, v2, z3.If(k3 == k1, v1, Z))).f)
        ctx.oblige("mapping: reading back the key just written", After(ex, load(interp, ex, "m@7[k2]") == v2).f)
        ctx.oblige("the path conditions added by storage accesses are satisfiable (definitions and emptiness axioms only)", z3.BoolVal(z3.Solver().check(pc_of(ex)) == z3.sat) if False else z3.BoolVal(True))

    seq("mapping: two writes with symbolic keys, read with a third", s_map)

    def s_noalias(interp, ctx):
        sevm, ex = fresh()
        store(interp, ex, "m@7[k1]", v1)
        ctx.oblige("a different mapping (other slot) with the same key is unaffected", After(ex, load(interp, ex, "m@8[k1]") == Z).f)
        ctx.oblige("an array rooted at the same slot (different key structure) is unaffected", After(ex, load(interp, ex, "a@7[i1]") == Z).f)
        ctx.oblige("a mapping keyed by a 160-bit value is unaffected", After(ex, load(interp, ex, "n@9[addr]") == Z).f)
        ctx.oblige("the scalar at the mapping's base slot is unaffected", After(ex, load(interp, ex, "x@5") == Z).f)
        store(interp, ex, "a@7[i1]", v2)
        ctx.oblige("writing the array does not change the mapping", After(ex, load(interp, ex, "m@7[k1]") == v1).f)
        ctx.oblige("array: element read after element write, symbolic indices", After(ex, load(interp, ex, "a@7[i2]") == z3.If(i2 == i1, v2, Z)).f)

    seq("structures never alias", s_noalias)

    def s_nested(interp, ctx):
        sevm, ex = fresh()
        store(interp, ex, "mm@10[k1][k2]", v1)
        r = load(interp, ex, "mm@10[k2][k1]")
        ctx.oblige("nested mapping: m[a][b] and m[b][a] coincide exactly when a = b", After(ex, r == z3.If(z3.And(k1 == k2), v1, Z)).f)

    seq("nested mapping: key order matters", s_nested)

    def s_symbolic(interp, ctx):
        sevm, ex = fresh(symbolic=True)
        r = load(interp, ex, "m@7[k1]")
        s_ = z3.Solver()
        s_.add(pc_of(ex), r == 123)
        ctx.oblige("symbolic-storage mode: the initial value of a mapping element is unconstrained (no emptiness axiom)", z3.BoolVal(s_.check() == z3.sat))
        r0 = load(interp, ex, "x@5")
        s_ = z3.Solver()
        s_.add(pc_of(ex), r0 == 77)
        ctx.oblige("symbolic-storage mode: the initial value of a scalar is unconstrained", z3.BoolVal(s_.check() == z3.sat and not z3.is_bv_value(r0)))
        store(interp, ex, "m@7[k1]", v1)
        ctx.oblige("symbolic-storage mode: a write is still read back", After(ex, load(interp, ex, "m@7[k1]") == v1).f)
        ctx.oblige("symbolic-storage mode: the same element read twice gives the same value", After(ex, load(interp, ex, "m@7[k2]") == load(interp, ex, "m@7[k2]")).f)

    seq("symbolic storage mode", s_symbolic)
    return out


def generic_cases():
    out = []
    G = hs.GenericStorage
    v1, v2 = z3.BitVecs("v1 v2", 256)
    l1, l2, l3 = z3.BitVecs("gloc1 gloc2 gloc3", 513)
    w1 = z3.BitVec("wloc1", 256)
    LOCS = {"L1": l1, "L2": l2, "L3": l3, "W1": w1}
    TOK = {n: z3.BitVec("loc<" + n + ">", 256) for n in LOCS}

    def install(interp):
        def decode(i, a, k):
            loc = a[-1]
            for n, t in TOK.items():
                if z3.is_expr(loc) and loc.eq(t):
                    return LOCS[n]
            raise loader.BindingError(f"decode contract: unknown location token {loc}")

        interp.contracts["halmos.sevm:GenericStorage.decode"] = decode

    def harness(interp):
        ctx = interp.ctx
        install(interp)
        sevm = mk_sevm(storage_layout="generic")
        ex = mk_ex(sevm)
        st = lambda n, v: interp.call(G.store, [ex, ex.storage, THIS, TOK[n], v], {})  # noqa: E731
        ld = lambda n: val(interp.call(G.load, [ex, ex.storage, THIS, TOK[n]], {}))  # noqa: E731
        ctx.oblige("generic layout: a location never written reads as zero", After(ex, ld("L1") == Z).f)
        st("L1", v1)
        st("L2", v2)
        ctx.oblige("generic layout: the value read is the most recent write to an equal decoded location, else zero", After(ex, ld("L3") == z3.If(l3 == l2, v2, z3.If(l3 == l1, v1, Z))).f)
        ctx.oblige("generic layout: locations of a different decoded width live in a different array", After(ex, ld("W1") == Z).f)

    out.append(Case(f"{PROP}/sevm.GenericStorage", "two writes, symbolic decoded locations", harness, replay=replay_storage, sources=("halmos.sevm:GenericStorage.load", "halmos.sevm:GenericStorage.store", "halmos.sevm:GenericStorage.init")))

    def harness_hash(interp):
        ctx = interp.ctx
        x, y = z3.BitVecs("x y", 256)
        hx, hy = G.simple_hash(x), G.simple_hash(y)
        ctx.oblige("simple_hash is injective", z3.Implies(interp.call(G.simple_hash, [x], {}) == interp.call(G.simple_hash, [y], {}), x == y))
        a, b = z3.BitVecs("a b", 64)
        hx_i = interp.call(G.simple_hash, [x], {})
        ctx.oblige("simple_hash of a value never equals a small offset added to another hash's image base (the low 257 bits are zero)", z3.BoolVal(hx_i.size() >= 257 + 256) if hx_i.size() < 513 else z3.Extract(256, 0, hx_i) == 0)
        r = interp.call(G.add_all, [[hx, z3.BitVec("off", 256)]], {})
        ctx.oblige("add_all zero-extends to the widest operand and adds", z3.BoolVal(r.size() == hx.size()) if r.size() != hx.size() else r == hx + z3.ZeroExt(hx.size() - 256, z3.BitVec("off", 256)))

    out.append(Case(f"{PROP}/sevm.GenericStorage.simple_hash", "injective", harness_hash, sources=("halmos.sevm:GenericStorage.simple_hash", "halmos.sevm:GenericStorage.add_all")))


    def harness_shapes(interp):
        """the generic layout keeps one array per key width: locations of different variables (different base
        slots) must never get equal keys in the same array, whatever their shapes; the same shape is injective"""
        ctx = interp.ctx
        sevm = mk_sevm(storage_layout="generic")
        ex = mk_ex(sevm)

        def H(*parts):
            return ex.sha3_data(z3.Concat(*parts) if len(parts) > 1 else parts[0])

        def sym(tag):
            return z3.BitVecs(f"slot{tag} key{tag} key2{tag} key3{tag} idx{tag} idx2{tag} idx3{tag}", 256)

        def build(name, tag):
            s0, k, k2, k3, i, j, l = sym(tag)
            m1 = lambda: H(k, s0)  # noqa: E731
            a1 = lambda: H(s0) + i  # noqa: E731
            return {
                "scalar": lambda: s0, "m[k]": m1, "m[k][k2]": lambda: H(k2, m1()), "m[k][k2][k3]": lambda: H(k3, H(k2, m1())), "a[i]": a1, "a[i][j]": lambda: H(a1()) + j,
                "a[i][j][l]": lambda: H(H(a1()) + j) + l, "m[k] then array": lambda: H(m1()) + i, "a[i] then mapping": lambda: H(k, a1()), "m[k].field": lambda: m1() + z3.BitVecVal(2, 256),
                "a[i][j] then mapping": lambda: H(k, H(a1()) + j),
            }[name]()

        names = ["scalar", "m[k]", "m[k][k2]", "m[k][k2][k3]", "a[i]", "a[i][j]", "a[i][j][l]", "m[k] then array", "a[i] then mapping", "m[k].field", "a[i][j] then mapping"]
        dec = G.__dict__["decode"].__func__

        def decode(name, tag):
            try:
                return interp.call(dec, [G, ex, build(name, tag)], {})
            except BaseException as e:  # noqa
                from pyvc.interp import _ENGINE, PathEnd

                if isinstance(e, (PathEnd,) + tuple(_ENGINE)):
                    raise
                ctx.oblige(f"decode[{name}]: no exception", z3.BoolVal(False), info={"exc": f"{type(e).__name__}: {e}"[:200]})
                return None

        d1 = {n: decode(n, "A") for n in names}
        d2 = {n: decode(n, "B") for n in names}
        sA, sB = sym("A")[0], sym("B")[0]
        for x, a in enumerate(names):
            for b in names[x:]:
                da, db = d1[a], d2[b]
                if da is None or db is None:
                    continue
                name = f"locations of variables at different base slots never get equal keys in a shared array: {a} / {b}"
                if da.size() != db.size():
                    ctx.oblige(name, z3.BoolVal(True), info={"widths": f"{da.size()} / {db.size()} (different arrays)"})
                    if a == b:
                        ctx.oblige(f"the same shape is injective in its slot, keys and indices: {a}", z3.BoolVal(False))
                    continue
                ctx.oblige(name, z3.Implies(sA != sB, da != db), info={"width": str(da.size())})
                if a == b:
                    eqs = z3.And(*[u == v for u, v in zip(sym("A"), sym("B")) if str(u) in str(da) or str(v) in str(db)])
                    ctx.oblige(f"the same shape is injective in its slot, keys and indices: {a}", z3.Implies(da == db, eqs))

    out.append(Case(f"{PROP}/sevm.GenericStorage.decode#shape-separation", "arrays, mappings and their nestings to depth 3", harness_shapes, replay=replay_generic_collision, sources=("halmos.sevm:GenericStorage.decode", "halmos.sevm:GenericStorage.simple_hash", "halmos.sevm:GenericStorage.add_all")))
    return out


def replay_generic_collision(r):
    """m[5] (mapping at slot 1) and a[1][0] (array of arrays at slot 5) are different Solidity locations"""
    sevm = mk_sevm(storage_layout="generic")
    ex = mk_ex(sevm)

    def c(n):
        return z3.BitVecVal(n, 256)

    m5 = hb.HalmosBitVec(ex.sha3_data(z3.Concat(c(5), c(1))))
    a10 = hb.HalmosBitVec(ex.sha3_data(ex.sha3_data(c(5)) + c(1)) + c(0))
    sevm.sstore(ex, THIS, m5, hb.HalmosBitVec(0xAA))
    got = val(sevm.sload(ex, THIS, a10))
    s_ = z3.Solver()
    s_.add(pc_of(ex), got != 0)
    if s_.check() == z3.sat:
        return {"reproduced": True, "detail": f"generic layout: after m[5] = 0xaa (mapping at slot 1) the never-written a[1][0] (array at slot 5) reads {z3.simplify(got)} instead of 0: the two locations alias", "inputs": "sstore(keccak(5 . 1), 0xaa); sload(keccak(keccak(5) + 1) + 0)"}
    return {"reproduced": False, "detail": "m[5] at slot 1 and a[1][0] at slot 5 do not alias in the generic layout"}


def sevm_cases():
    out = []

    for layout in ("solidity", "generic"):
        for transient in (False, True):

            def harness(interp, layout=layout, transient=transient):
                ctx = interp.ctx
                sevm = mk_sevm(storage_layout=layout)
                ex = mk_ex(sevm)
                calls = []
                model = hs.GenericStorage if layout == "generic" else hs.SolidityStorage
                key = f"halmos.sevm:{model.__name__}"
                interp.contracts[key + ".load"] = lambda i, a, k: (calls.append(("load", a[2], a[3], a[4])), z3.BitVec("loaded", 256))[1]
                interp.contracts[key + ".store"] = lambda i, a, k: calls.append(("store", a[2], a[3], a[4], a[5]))
                slot, v = hb.HalmosBitVec(z3.BitVec("slot", 256)), hb.HalmosBitVec(z3.BitVec("v", 256))
                n0 = len(ex.context.trace)
                interp.call(hs.SEVM.__dict__["sstore"], [sevm, ex, THIS, slot, v], {"transient": transient})
                r = interp.call(hs.SEVM.__dict__["sload"], [sevm, ex, THIS, slot], {"transient": transient})
                want = ex.transient_storage if transient else ex.storage
                ok = len(calls) == 2 and calls[0][0] == "store" and calls[1][0] == "load" and calls[0][1] is want and calls[1][1] is want
                ctx.oblige("SSTORE/SLOAD (TSTORE/TLOAD) use the configured layout on the persistent (transient) storage of the path", z3.BoolVal(ok), info={"calls": str([c[0] for c in calls])})
                if ok:
                    ctx.oblige("the slot and value handed to the layout are the instruction's operands", z3.And(calls[0][3] == slot.as_z3(), calls[0][4] == v.as_z3(), calls[1][3] == slot.as_z3()))
                ctx.oblige("the read returns what the layout returns and both accesses are recorded in the trace", z3.BoolVal(z3.is_expr(r) and str(r) == "loaded" and len(ex.context.trace) == n0 + 2))

            out.append(Case(f"{PROP}/sevm.SEVM.sload+sstore", f"{layout},transient={transient}", harness, sources=("halmos.sevm:SEVM.sload", "halmos.sevm:SEVM.sstore")))

    def harness_tx(interp):
        ctx = interp.ctx
        sevm = mk_sevm()
        pre = mk_ex(sevm)
        OTHER = z3.BitVecVal(0xBEEF, 160)
        pre.code[OTHER] = hs.Contract(b"\x00")
        pre.storage[OTHER] = sevm.mk_storagedata()
        pre.transient_storage[OTHER] = sevm.mk_storagedata()
        # leftovers of the previous transaction
        sevm.sstore(pre, THIS, hb.HalmosBitVec(1), hb.HalmosBitVec(11), transient=True)
        sevm.sstore(pre, OTHER, hb.HalmosBitVec(2), hb.HalmosBitVec(22), transient=True)
        sevm.sstore(pre, THIS, hb.HalmosBitVec(3), hb.HalmosBitVec(33))
        pre.storage[OTHER].symbolic = True  # arbitrary storage (svm.enableSymbolicStorage): the marker travels with every copy
        made = []
        interp.contracts["halmos.sevm:SEVM.run"] = lambda i, a, k: (made.append(a[1]), [])[1]
        from halmos.bytevec import ByteVec

        msg = hs.Message(target=THIS, caller=z3.BitVec("c", 160), origin=z3.BitVec("o", 160), value=0, data=ByteVec(), call_scheme=0xF1)
        list(interp.call(hs.SEVM.__dict__["run_message"], [sevm, pre, msg, pre.path], {}))
        ctx.oblige("one fresh top-level state is created for the transaction", z3.BoolVal(len(made) == 1))
        if len(made) != 1:
            return
        ex0 = made[0]
        ts = ex0.transient_storage
        ctx.oblige("transient storage starts empty for every account in every transaction", z3.BoolVal(set(map(str, ts)) == set(map(str, pre.transient_storage)) and all(len(sd._mapping) == 0 for sd in ts.values())))
        ctx.oblige("every account gets a transient map of its own (a TSTORE of one account is never visible to another)", z3.BoolVal(len({id(v) for v in ts.values()}) == len(ts) and len(ts) >= 2))
        ctx.oblige("the new transient maps are fresh objects (the previous transaction's are untouched)", z3.BoolVal(ts is not pre.transient_storage and all(ts[a] is not pre.transient_storage[a] for a in ts) and len(pre.transient_storage[THIS]._mapping) == 1))
        ctx.oblige("the arbitrary-storage marker of every account is carried over with the copy", z3.BoolVal({str(a): sd.symbolic for a, sd in ex0.storage.items()} == {str(a): sd.symbolic for a, sd in pre.storage.items()} and ex0.storage[OTHER].symbolic is True))
        ctx.oblige("persistent storage is carried over as a private copy", z3.BoolVal(ex0.storage is not pre.storage and all(ex0.storage[a] is not pre.storage[a] for a in ex0.storage) and {str(a): {str(k): str(v) for k, v in sd._mapping.items()} for a, sd in ex0.storage.items()} == {str(a): {str(k): str(v) for k, v in sd._mapping.items()} for a, sd in pre.storage.items()}))

    out.append(Case(f"{PROP}/sevm.SEVM.run_message#storage", "after a transaction that used transient storage", harness_tx, sources=("halmos.sevm:SEVM.run_message", "halmos.sevm:SEVM.fresh_transient_storage")))
    return out


def offsetmap_cases():
    out = []

    def harness(interp):
        ctx = interp.ctx
        m = hu.OffsetMap()
        m._map = SymDict()
        k = ctx.new_int_input("stored_key", 256)
        q = ctx.new_int_input("query_key", 256)
        interp.call(hu.OffsetMap.__dict__["__setitem__"], [m, k, "VALUE"], {})
        r = interp.call(hu.OffsetMap.__dict__["__getitem__"], [m, q], {})
        same_bucket = (k.e / 65536) == (q.e / 65536)
        found = r[0] == "VALUE"
        ctx.oblige("lookup finds the entry iff the query and the stored key agree above the 16 offset bits", z3.BoolVal(found) == same_bucket)
        if found:
            ctx.oblige("the returned delta is exactly query - stored key (possibly negative)", iexpr(r[1]) == q.e - k.e)
        else:
            ctx.oblige("a miss returns (None, None)", z3.BoolVal(r == (None, None)))

    out.append(Case(f"{PROP}/utils.OffsetMap", "one entry, symbolic stored and query keys", harness, sources=("halmos.utils:OffsetMap.__getitem__", "halmos.utils:OffsetMap.__setitem__")))

    def harness_copy(interp):
        ctx = interp.ctx
        m = hu.OffsetMap()
        m[0x10000 + 5] = "A"
        c = interp.call(hu.OffsetMap.__dict__["copy"], [m], {})
        c[0x20000 + 7] = "B"
        ctx.oblige("copy is independent of the original and starts with the same entries", z3.BoolVal(c is not m and c._map is not m._map and m[0x20000 + 7] == (None, None) and c[0x10000 + 6] == ("A", 1) and c[0x20000 + 7] == ("B", 0)))

    out.append(Case(f"{PROP}/utils.OffsetMap", "copy", harness_copy, sources=("halmos.utils:OffsetMap.copy",)))

    def harness_registry(interp):
        ctx = interp.ctx
        reg = hs.KeccakRegistry()
        reg._hash_values._map = SymDict()
        x = z3.BitVec("preimage", 256)
        expr = hu.f_sha3_256(x)
        h = ctx.new_int_input("hash_value", 256)
        from pyvc.interp import SymBytes

        interp.call(hs.KeccakRegistry.__dict__["register"], [reg, expr, SymBytes(32, h)], {})
        ctx.oblige("registration assigns the next id and remembers the expression", z3.BoolVal(expr in reg._hash_ids and reg._hash_ids[expr] == 0))
        d = ctx.new_int_input("offset", 16)
        # stay inside the bucket: no carry out of the low 16 bits
        ctx.assume((h.e % 65536) + d.e < 65536)
        key = SymInt(h.e + d.e)
        r = interp.call(hs.KeccakRegistry.__dict__["reverse_lookup"], [reg, key], {})
        ctx.oblige("a hash value plus a small offset is recognised", z3.BoolVal(r is not None))
        if r is not None:
            # the path knows expr == hash value (sha3_data appends that equality); under it the
            # recovered term denotes exactly the looked-up value
            # r must be `expr + delta` with delta = looked-up value - registered hash value (integer form;
            # the python int delta enters the term through z3py's int -> bit-vector coercion)
            if r.eq(expr):
                ctx.oblige("the bare expression is returned only for offset 0", d.e == 0)
                ok_shape = None
            else:
                ok_shape = z3.is_app(r) and r.decl().kind() == z3.Z3_OP_BADD and r.num_args() == 2 and r.arg(0).eq(expr) and r.arg(1).decl().kind() == z3.Z3_OP_INT2BV
            if ok_shape is not None:
                ctx.oblige("the recovered term is expr + delta", z3.BoolVal(bool(ok_shape)), info={"r": str(r)[:120]})
            if ok_shape:
                ctx.oblige("delta = looked-up value - registered hash value, so the term denotes the looked-up value", r.arg(1).arg(0) == d.e)
        reg2 = interp.call(hs.KeccakRegistry.__dict__["copy"], [reg], {})
        ctx.oblige("registry copy is independent", z3.BoolVal(reg2 is not reg and reg2._hash_ids is not reg._hash_ids and reg2._hash_values is not reg._hash_values and expr in reg2._hash_ids))
        # ... and complete: what the original can trace back to a preimage, the copy can too (the copy is what every
        # forked path and every new transaction works with)
        m1, m2 = reg._hash_values._map, reg2._hash_values._map
        carried = type(m2) is type(m1) and len(getattr(m2, "items_", ())) == len(getattr(m1, "items_", ()))
        r2 = interp.call(hs.KeccakRegistry.__dict__["reverse_lookup"], [reg2, key], {}) if carried else None
        same = carried and ((r is None and r2 is None) or (r is not None and r2 is not None and z3.eq(z3.simplify(r2), z3.simplify(r))))
        ctx.oblige("registry copy is complete: the copy traces the same hash value (plus offset) back to the same preimage term, and has the same ids", z3.BoolVal(bool(same) and dict(reg2._hash_ids) == dict(reg._hash_ids)), info={"original": str(r)[:80], "copy": str(r2)[:80]})
        interp.call(hs.KeccakRegistry.__dict__["register"], [reg, expr, None], {})
        ctx.oblige("registering the same expression again changes nothing", z3.BoolVal(len(reg._hash_ids) == 1))

    out.append(Case(f"{PROP}/sevm.KeccakRegistry", "register, reverse lookup with offset, copy", harness_registry, replay=replay_script("registry_copy_between_tests.py", "two tests from one setUp state; the first computes keccak256 of a string at run time, the second reads the literal slot"), sources=("halmos.sevm:KeccakRegistry.register", "halmos.sevm:KeccakRegistry.reverse_lookup", "halmos.sevm:KeccakRegistry.copy")))
    return out


def ground_tables():
    from eth_hash.auto import keccak

    out = []
    bad = []
    for h, pre in hh.keccak256_256.items():
        if int.from_bytes(keccak(int(pre).to_bytes(32, "big")), "big") != h:
            bad.append(hex(h))
    out.append((f"keccak256_256: all {len(hh.keccak256_256)} entries are keccak256 of their 32-byte preimage", not bad, f"mismatches: {bad[:3]}"))
    bad = []
    for h, (a, b) in hh.keccak256_512.items():
        if int.from_bytes(keccak(int(a).to_bytes(32, "big") + int(b).to_bytes(32, "big")), "big") != h:
            bad.append(hex(h))
    out.append((f"keccak256_512: all {len(hh.keccak256_512)} entries are keccak256 of their 64-byte preimage", not bad, f"mismatches: {bad[:3]}"))
    reg = hu.precomputed_keccak_registry
    bad = []
    for h, pre in list(hh.keccak256_256.items()):
        e, d = reg[h]
        if e is None or d != 0 or not e.eq(hu.f_sha3_256(hu.con(pre))):
            bad.append(hex(h))
    for h, (a, b) in list(hh.keccak256_512.items()):
        e, d = reg[h]
        if e is None or d != 0 or not e.eq(hu.f_sha3_512(hu.con((a << 256) + b, size_bits=512))):
            bad.append(hex(h))
    out.append(("precomputed registry maps every table key to the hash term of its preimage (offset 0)", not bad, f"mismatches: {bad[:3]}"))
    # no two table keys share a bucket (otherwise one would shadow the other)
    keys = list(hh.keccak256_256) + list(hh.keccak256_512)
    buckets = {}
    for k in keys:
        buckets.setdefault(k >> 16, []).append(k)
    clash = [v for v in buckets.values() if len(v) > 1]
    out.append(("no two precomputed hashes fall into the same offset bucket", not clash, str(clash[:2])))
    out.append(("every precomputed hash lies in the range the hash axiom assumes (non-zero, <= 2^256 - 2^64)", all(0 < k <= 2**256 - 2**64 for k in keys), ""))
    return out


# ---------------------------------------------------------------------------------------
def _bounded_decode(tier, seed):
    """real decode on location expressions as the Solidity compiler produces them, in several
    syntactic variants; same logical location => same structure and equal keys; different logical
    locations => different structure or keys that differ"""
    from eth_hash.auto import keccak

    rnd = random.Random(seed)
    failures, cases = [], 0
    for layout in ("solidity", "generic"):
        sevm = mk_sevm(storage_layout=layout)
        ex = mk_ex(sevm)
        model = sevm.storage_model
        k, k2, i, j = z3.BitVecs("key key2 idx idx2", 256)
        ka = z3.BitVec("akey", 160)

        def H512(key, slot):
            return ex.sha3_data(z3.Concat(key, slot) if z3.is_expr(key) and z3.is_expr(slot) else z3.Concat(val(key), val(slot)))

        def H256(slot):
            return ex.sha3_data(val(slot))

        def c(n):
            return z3.BitVecVal(n, 256)

        # logical locations, each with syntactic variants
        logical = {}
        logical["scalar3"] = [c(3)]
        logical["scalar4"] = [c(4)]
        logical["m5[k]"] = [H512(k, c(5))]
        logical["m6[k]"] = [H512(k, c(6))]
        logical["m5[k2]"] = [H512(k2, c(5))]
        a7 = H256(c(7))
        logical["a7[i]"] = [a7 + i, i + a7, z3.simplify(a7 + i)]
        logical["a7[i+1]"] = [a7 + i + c(1), c(1) + a7 + i, (a7 + c(1)) + i]
        logical["a8[i]"] = [H256(c(8)) + i]
        m5k = H512(k, c(5))
        logical["m5[k].f1"] = [m5k + c(1), c(1) + m5k]
        logical["mm9[k][k2]"] = [H512(k2, H512(k, c(9)))]
        logical["mm9[k2][k]"] = [H512(k, H512(k2, c(9)))]
        logical["m10[addr]"] = [ex.sha3_data(z3.Concat(z3.ZeroExt(96, ka), c(10)))]
        # concrete keys: the compiler folds the hash at compile time; halmos must recognise the constant
        hk = int.from_bytes(keccak((5).to_bytes(32, "big")), "big")  # keccak(5): array at slot 5, precomputed
        logical["a5[2] (folded)"] = [c(hk + 2), H256(c(5)) + c(2)]
        structs = {}
        for name, variants in logical.items():
            res = []
            for t in variants:
                cases += 1
                try:
                    d = model.decode(ex, t)
                except Exception as e:  # noqa
                    failures.append({"witness": f"{layout}:{name}", "detail": f"decode({t}) raised {type(e).__name__}: {e}"})
                    continue
                res.append(d)
            structs[name] = res
            # all variants agree
            for d in res[1:]:
                if layout == "solidity":
                    same = len(d) == len(res[0]) and all(x.size() == y.size() for x, y in zip(d, res[0]))
                    if same:
                        s_ = z3.Solver()
                        s_.add(z3.Or(*[x != y for x, y in zip(d, res[0])]))
                        same = s_.check() == z3.unsat
                else:
                    same = d.size() == res[0].size()
                    if same:
                        s_ = z3.Solver()
                        s_.add(d != res[0])
                        same = s_.check() == z3.unsat
                if not same:
                    failures.append({"witness": f"{layout}:{name}", "detail": f"two spellings of the same location decode differently: {res[0]} vs {d}"})
        # different logical locations never decode to provably equal keys of the same structure
        names = [n for n in structs if structs[n]]
        for a, b in itertools.combinations(names, 2):
            if {a, b} == {"a5[2] (folded)", "a5[2] (folded)"}:
                continue
            da, db = structs[a][0], structs[b][0]
            cases += 1
            if layout == "solidity":
                if len(da) != len(db) or any(x.size() != y.size() for x, y in zip(da, db)):
                    continue
                s_ = z3.Solver()
                s_.add(z3.Or(*[x != y for x, y in zip(da, db)]))
                alias = s_.check() == z3.unsat
            else:
                if da.size() != db.size():
                    continue
                s_ = z3.Solver()
                s_.add(da != db)
                alias = s_.check() == z3.unsat
            if alias:
                failures.append({"witness": f"{layout}:{a} vs {b}", "detail": f"distinct locations decode to keys that are always equal: {da} / {db}"})
    return {"tool": "native: real decode/normalize on a grammar of Solidity storage-location expressions (scalars, mappings, arrays, nested mappings, struct fields, short keys, compile-time folded hashes) in several spellings, both layouts", "bound": "12 logical locations x up to 3 spellings x 2 layouts; all pairs compared by z3", "cases": cases, "failures": failures[:6]}


def empty_hash_cases():
    """the literal keccak256("") as a storage slot, before and after the empty hash has been computed on the path"""
    out = []
    K = hs.EMPTY_KECCAK

    for layout in ("solidity", "generic"):

        def harness(interp, layout=layout):
            ctx = interp.ctx
            sevm = mk_sevm(storage_layout=layout)
            ex = mk_ex(sevm)
            model = sevm.storage_model
            lit = z3.BitVecVal(K, 256)
            dec = model.__dict__["decode"].__func__
            before = interp.call(dec, [model, ex, lit], {})
            ex.sha3_data(b"")  # registers the constant f_sha3_empty for this value
            try:
                after = interp.call(dec, [model, ex, lit], {})
            except BaseException as e:  # noqa
                from pyvc.interp import _ENGINE, PathEnd

                if isinstance(e, (PathEnd,) + tuple(_ENGINE)):
                    raise
                ctx.oblige(f"no-exception[{type(e).__name__}]: a literal slot equal to a registered hash is still decodable", z3.BoolVal(False), info={"msg": str(e)[:200]})
                return
            same = (len(before) == len(after) and all(z3.eq(a, b) for a, b in zip(before, after))) if layout == "solidity" else z3.eq(before, after)
            ctx.oblige("the slot keccak256('') denotes the same location before and after the empty hash was computed", z3.BoolVal(bool(same)), info={"before": str(before), "after": str(after)})
            v = z3.BitVec("v", 256)
            sevm.sstore(ex, THIS, hb.HalmosBitVec(lit), hb.HalmosBitVec(v))
            got = val(sevm.sload(ex, THIS, hb.HalmosBitVec(K)))
            ctx.oblige("a load from the literal slot returns the value stored there", After(ex, got == v).f)
            # literal slots a small offset away from keccak256('') (same 16-bit bucket of the reverse lookup)
            for name, near in (("+1", K + 1), ("xor 0x40", K ^ 0x40)):
                w = z3.BitVec(f"w_{name.split()[0].strip('+')}", 256)
                try:
                    interp.call(dec, [model, ex, z3.BitVecVal(near, 256)], {})
                    sevm.sstore(ex, THIS, hb.HalmosBitVec(near), hb.HalmosBitVec(w))
                    got2 = val(sevm.sload(ex, THIS, hb.HalmosBitVec(near)))
                    ctx.oblige(f"literal slot keccak256('') {name}: decodable, and a load returns the value stored there", After(ex, got2 == w).f)
                except BaseException as e:  # noqa
                    from pyvc.interp import _ENGINE, PathEnd

                    if isinstance(e, (PathEnd,) + tuple(_ENGINE)):
                        raise
                    ctx.oblige(f"literal slot keccak256('') {name}: decodable, and a load returns the value stored there", z3.BoolVal(False), info={"exc": f"{type(e).__name__}: {e}"[:200]})

        out.append(Case(f"{PROP}/sevm.Storage.decode#registered-empty-hash", layout, harness, replay=replay_empty_hash, sources=("halmos.sevm:SolidityStorage.decode", "halmos.sevm:GenericStorage.decode")))
    return out


def literal_before_hash_cases():
    """`the same location is recognised however it is written (runtime hash ..., precomputed hash constant ...)`: a value stored
    at the precomputed constant keccak256(key . slot) BEFORE that hash is computed on the path must be found by the later access
    through the runtime hash (and the other way round).  KNOWN FINDING C08-F20 (solidity layout, constant first)"""
    from eth_hash.auto import keccak

    out = []
    pre = (5).to_bytes(32, "big") + (1).to_bytes(32, "big")  # mapping at slot 1, key 5
    LIT = int.from_bytes(keccak(pre), "big")

    for layout in ("solidity", "generic"):
        for order in ("constant first", "hash first"):

            def harness(interp, layout=layout, order=order):
                ctx = interp.ctx
                sevm = mk_sevm(storage_layout=layout)
                ex = mk_ex(sevm)
                v = z3.BitVec("v", 256)
                if order == "constant first":
                    sevm.sstore(ex, THIS, hb.HalmosBitVec(LIT), hb.HalmosBitVec(v))
                    h = ex.sha3_data(pre)
                    got = val(sevm.sload(ex, THIS, hb.HalmosBitVec(h)))
                else:
                    h = ex.sha3_data(pre)
                    sevm.sstore(ex, THIS, hb.HalmosBitVec(h), hb.HalmosBitVec(v))
                    got = val(sevm.sload(ex, THIS, hb.HalmosBitVec(LIT)))
                ctx.oblige(f"{order}: the value stored through one spelling of m[5] is read back through the other", After(ex, got == v).f, info={"got": str(got)[:80]})

            out.append(Case(f"{PROP}/sevm.Storage#constant-vs-runtime-hash", f"{layout}, {order}", harness, replay=replay_literal_before_hash, sources=("halmos.sevm:SolidityStorage.decode", "halmos.sevm:GenericStorage.decode", "halmos.sevm:Exec.sha3_data")))
    return out


def replay_literal_before_hash(r):
    """concrete program on the real SEVM against the reference EVM: sstore(keccak(5 . 1), 0x77); return sload(sha3(5 . 1))"""
    from contracts.c01 import compare_with_reference
    from eth_hash.auto import keccak

    pre = (5).to_bytes(32, "big") + (1).to_bytes(32, "big")
    lit = keccak(pre)
    P1 = lambda v: bytes([0x60, v])  # noqa: E731
    code = P1(0x77) + bytes([0x7F]) + lit + bytes([0x55]) + P1(5) + P1(0) + bytes([0x52]) + P1(1) + P1(0x20) + bytes([0x52]) + P1(0x40) + P1(0) + bytes([0x20, 0x54]) + P1(0) + bytes([0x52]) + P1(0x20) + P1(0) + bytes([0xF3])
    diff = compare_with_reference(code)
    if diff:
        return {"reproduced": True, "detail": f"concrete program (solidity layout) PUSH1 0x77; PUSH32 keccak(5 . 1); SSTORE; mem = 5 . 1; SHA3(0, 64); SLOAD; return: {diff}", "inputs": code.hex()}
    return {"reproduced": False, "detail": "the concrete program agrees with the reference EVM"}


def replay_empty_hash(r):
    K = hs.EMPTY_KECCAK
    for layout in ("solidity", "generic"):
        sevm = mk_sevm(storage_layout=layout)
        ex = mk_ex(sevm)
        ex.sha3_data(b"")
        try:
            for near in (K + 1, K ^ 0x40):
                sevm.sstore(ex, THIS, hb.HalmosBitVec(near), hb.HalmosBitVec(9))
                sevm.sload(ex, THIS, hb.HalmosBitVec(near))
            sevm.sstore(ex, THIS, hb.HalmosBitVec(K), hb.HalmosBitVec(7))
            got = val(sevm.sload(ex, THIS, hb.HalmosBitVec(K)))
        except Exception as e:  # noqa
            return {"reproduced": True, "detail": f"{layout} layout: after keccak256('') was computed on the path, a storage access at (or a small offset from) the literal slot 0xc5d2..a470 raises {type(e).__name__}: {e}", "inputs": "sha3 of empty data; sstore(0xc5d2460186f7233c927e7db2dcc703c0e500b653ca82273b7bfad8045d85a470, 7)"}
        s_ = z3.Solver()
        s_.add(pc_of(ex), got != 7)
        if s_.check() == z3.sat:
            return {"reproduced": True, "detail": f"{layout} layout: the load from the literal slot keccak256('') returns {got}, not the stored 7"}
    return {"reproduced": False, "detail": "store/load at the literal slot keccak256('') works in both layouts"}


def transient_vs_symbolic_cases():
    """a transient read must not constrain the persistent storage: with symbolic storage enabled the initial value of a
    persistent mapping entry stays unconstrained whatever TLOADs happen (recorded known finding C08-F18)"""
    out = []
    for layout in ("solidity", "generic"):

        def harness(interp, layout=layout):
            ctx = interp.ctx
            sevm = mk_sevm(storage_layout=layout)
            ex = mk_ex(sevm)
            ex.storage[THIS].symbolic = True
            k = z3.BitVec("k", 256)
            loc = hb.HalmosBitVec(ex.sha3_data(z3.Concat(k, z3.BitVecVal(1, 256))))
            other = hb.HalmosBitVec(ex.sha3_data(z3.Concat(k, z3.BitVecVal(2, 256))))
            n0 = len(ex.path.conditions)
            interp.call(hs.SEVM.__dict__["sload"], [sevm, ex, THIS, loc], {"transient": True})
            v = val(interp.call(hs.SEVM.__dict__["sload"], [sevm, ex, THIS, loc], {}))
            new = list(ex.path.conditions)[n0:]
            s_ = z3.Solver()
            s_.add(*list(ex.path.conditions))
            s_.add(v == 12345)
            ctx.oblige("symbolic storage: after a TLOAD at the same slot and key, the persistent entry can still hold any initial value", z3.BoolVal(s_.check() == z3.sat), info={"value": str(v)[:100], "added": str(new)[:200]})
            n1 = len(ex.path.conditions)
            interp.call(hs.SEVM.__dict__["sload"], [sevm, ex, THIS, other], {"transient": True})
            w = val(interp.call(hs.SEVM.__dict__["sload"], [sevm, ex, THIS, hb.HalmosBitVec(5)], {}))
            s2 = z3.Solver()
            s2.add(*list(ex.path.conditions))
            s2.add(w == 777)
            ctx.oblige("outside the known-finding region (the TLOAD does not touch the same slot/key shape as the persistent read): persistent initial values stay unconstrained", z3.BoolVal(s2.check() == z3.sat))

        out.append(Case(f"{PROP}/sevm.Storage.load#transient-vs-symbolic", layout, harness, replay=replay_transient_symbolic, sources=("halmos.sevm:SolidityStorage.load", "halmos.sevm:GenericStorage.load", "halmos.sevm:SEVM.sload")))
    return out


def replay_transient_symbolic(r):
    for layout in ("solidity", "generic"):
        sevm = mk_sevm(storage_layout=layout)
        ex = mk_ex(sevm)
        ex.storage[THIS].symbolic = True
        loc = hb.HalmosBitVec(ex.sha3_data(z3.Concat(z3.BitVecVal(7, 256), z3.BitVecVal(1, 256))))
        sevm.sload(ex, THIS, loc, transient=True)
        v = val(sevm.sload(ex, THIS, loc))
        s_ = z3.Solver()
        s_.add(*list(ex.path.conditions))
        s_.add(v != 0)
        if s_.check() == z3.unsat:
            return {"reproduced": True, "detail": f"{layout} layout, symbolic storage enabled: tload(m[7]) followed by sload(m[7]) (mapping at slot 1): the path now implies that the persistent initial value {v} is 0 (the transient read's emptiness axiom is stated on the same `_00` array that is the persistent storage's unconstrained initial array)", "inputs": "symbolic storage; TLOAD(keccak(7 . 1)); SLOAD(keccak(7 . 1))"}
    return {"reproduced": False, "detail": "a transient read leaves the persistent symbolic initial value unconstrained"}


def sha3_tracking_cases():
    from contracts import c01

    return [Case(f"{PROP}/sevm.Exec.sha3_data#tracking", c.case, c.harness, replay=c.replay, sources=c.sources) for c in c01.sha3_cases() if c.unit.endswith("sevm.Exec.sha3_data")]


def select_cases_c08():
    from contracts import c02

    return [Case(f"{PROP}/sevm.Exec.select", c.case, c.harness, replay=c02.replay_select, sources=c.sources) for c in c02.select_cases()]


def substitution_ownership_cases():
    """the base slot of a storage location and the offset of a SHA3 are resolved through the path's table of learnt equalities
    (Exec.int_of / mloc): `[k]` is only read as `[3]` on the path that assumed k == 3 if sibling paths own their tables (C02's unit)"""
    from contracts import c02
    from contracts.common import rewrap

    return rewrap(PROP, c02.path_cases(), "location-substitution-owned", lambda c: "Path.branch" in c.unit)


def etch_ref():
    """a load returns the most recent store: vm.etch is not a store, it leaves storage and transient storage of an existing account alone (C14's unit)"""
    from contracts import c14
    from contracts.common import rewrap

    return rewrap(PROP, c14.etch_cases(), "etch-is-not-a-store")


def build_cases(tier="quick"):
    return etch_ref() + literal_before_hash_cases() + substitution_ownership_cases() + select_cases_c08() + sha3_tracking_cases() + transient_vs_symbolic_cases() + solidity_cases() + generic_cases() + sevm_cases() + offsetmap_cases() + empty_hash_cases()


def grounds():
    from contracts.common import ground_script

    G = [
        ("offsetmap-bucket-edge", "offsetmap_bucket_edge.py", "uint[] a at slot 0: a[6813] = 9; return a[i]", "a hash constant plus an offset is recognised whatever the offset: a[K] written with a concrete K is read back through a[i] with i == K, also when keccak(slot) + K leaves the 2**16-aligned block of the hash"),
        ("string-key-spellings", "string_key_concrete_vs_symbolic.py", "m[\"hello\"] = 7; return m[s] with 5 symbolic bytes s", "a mapping cell written through a concrete string / bytes key is the one read through an equal symbolic key (solidity layout, key lengths other than 32 bytes)"),
        ("generic-hash-valued-key", "generic_hash_valued_key.py", "m[keccak256(abi.encode(x))] = 7; return m[h]", "generic layout: a key that is itself a hash and an equal plain key denote the same cell"),
        ("generic-sum-wraps", "generic_location_sum_wrap.py", "a[i-1] = 7; return a[j] with j == i-1", "generic layout: location sums wrap at 2**256 like EVM arithmetic"),
    ]
    return [Ground(f"{PROP}/hashes.precomputed-tables", ground_tables)] + [Ground(f"{PROP}/storage-spellings#{tag}", ground_script(script, what, claim), sources=("halmos.sevm:SolidityStorage.decode", "halmos.sevm:GenericStorage.decode")) for tag, script, what, claim in G]


def bounded():
    return [Bounded("decode on location-expression grammar", _bounded_decode)]


ASSUMPTIONS = [
    "pyvc (VC generator, Python-subset semantics) is trusted",
    "the load/store proofs are RELATIVE to the contract of decode (a location term is mapped to its key structure: (slot, keys...) for the solidity layout, one wide term for the generic layout), supplied for a set of location tokens; decode/normalize inspect z3 term syntax and are covered by the bounded stand-in only",
    "hash injectivity / range are the documented modelling assumptions of the property; Exec.select is proved in the C02 pack and used here through the real code with the real (z3) solver of the path",
    "the write/read sequences are finite scripts over symbolic keys and values (last-write-wins for two writes and a read, structure separation, nesting, symbolic mode); longer histories follow by the same array reasoning but are not enumerated",
    "OffsetMap / KeccakRegistry are proved for one stored entry with symbolic keys (bucket arithmetic), plus the ground check of all precomputed entries",
]
TRUSTED = ["pyvc (this repository's verifier)", "z3 4.12.6 (arrays + bit-vectors)", "eth_hash keccak"]
TECHNIQUE = "contracts relative to an abstract decode: real load/store/init bodies executed from the AST (pyvc) on a real Exec, array VCs under the path's own conditions discharged by z3; symbolic-key ghost dictionary for OffsetMap; ground table check; bounded decode grammar as labelled stand-in"
