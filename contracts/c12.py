"""C12 — symbolic calldata is a fully general, well-formed ABI encoding.

Contracts, by structural induction on the ABI type (the recursive calls of `encode` are replaced by
the contract itself = inductive hypothesis; `encode_tuple` is proved separately and used by contract):

  calldata.Calldata.encode_tuple   for items with ARBITRARY sizes and either static flag (arity <= 4):
        size = sum of head sizes + sum of dynamic sizes; a static item contributes its data to the
        head, a dynamic one a head word = the byte offset of its tail (total head size + sizes of the
        preceding dynamic tails) and its data to the tail, in order; static iff no item is dynamic
  calldata.Calldata.encode         per constructor:
        static leaf       one fresh 256-bit symbol named by the parameter path and type; 32 bytes
        bytes / string    size symbol + one fresh symbol of 8*pad32(max candidate) bits (none if 0);
                          32 + pad32(max) bytes; dynamic
        T[]               size symbol, then the tuple encoding of max(candidates) elements; dynamic
        T[k], tuple       tuple encoding of the components, each encoded under its own path name
  calldata.Calldata.get_dyn_sizes  candidates = --array-lengths[name] if given, else the default list
        of the kind (arrays vs bytes/string); the parameter is registered with exactly that list and
        the returned size symbol
  calldata.Calldata.create         selector bytes followed by the encoding; no-argument functions;
        the dynamic parameters reported are those registered
  sevm.Concretization.process_dyn_params   every registered parameter's candidates reach the path
                                   (branching over them: C02 pack, calldataload)

Bounded stand-ins (never counted): (1) real Calldata.create on random type trees, decoded with an
independent ABI decoder for every choice of candidate lengths: the decoded leaves are exactly the
distinct symbols; (2) parse_type / unsupported types on a type-string grammar.
"""
from __future__ import annotations

import itertools
import random
import re

import z3

from pyvc import loader
from pyvc.interp import _ENGINE, PathEnd
from contracts.common import replay_script  # noqa: E402
from pyvc.pack import Bounded, Case
from pyvc.sym import SymInt, iexpr

loader.import_repo()
import halmos.calldata as hcd  # noqa: E402
import halmos.sevm as hs  # noqa: E402
from contracts.common import config  # noqa: E402

PROP = "C12"


class NS:
    def __init__(self, **kw):
        self.__dict__.update(kw)


class Tok:
    """an opaque data element of an item's encoding"""

    def __init__(self, name):
        self.name = name

    def __repr__(self):
        return f"<{self.name}>"


def encode_tuple_cases():
    out = []
    for k in range(0, 5):
        for flags in itertools.product((True, False), repeat=k):

            def harness(interp, k=k, flags=flags):
                ctx = interp.ctx
                items = []
                sizes = []
                for j, st in enumerate(flags):
                    sz = SymInt(z3.Int(f"size{j}"))
                    ctx.assume(sz.e >= 0)
                    sizes.append(sz)
                    items.append(hcd.EncodingResult([Tok(f"item{j}.a"), Tok(f"item{j}.b")], sz, st))
                offsets = []

                def con(i, a, kw):
                    t = Tok("offset-word")
                    offsets.append((t, a[0]))
                    return t

                interp.contracts["halmos.utils:con"] = con
                interp.externals[hcd.con] = lambda i, *a, **kw: con(i, a, kw)
                cd = object.__new__(hcd.Calldata)
                r = interp.call(hcd.Calldata.__dict__["encode_tuple"], [cd, items], {})
                head = sum(((sizes[j].e if flags[j] else z3.IntVal(32)) for j in range(k)), z3.IntVal(0))
                total = head + sum((sizes[j].e for j in range(k) if not flags[j]), z3.IntVal(0))
                ctx.oblige("size = sum of head sizes + sizes of the dynamic tails", iexpr(r.size) == total)
                ctx.oblige("static iff every item is static", z3.BoolVal(r.static is all(flags)))
                # expected layout
                want_heads, want_tails, dyn_seen = [], [], []
                oi = 0
                ok = True
                for j, st in enumerate(flags):
                    if st:
                        want_heads += items[j].data
                    else:
                        if oi >= len(offsets):
                            ok = False
                            break
                        tok, val = offsets[oi]
                        oi += 1
                        want_heads.append(tok)
                        want_off = head + sum((sizes[d].e for d in dyn_seen), z3.IntVal(0))
                        ctx.oblige(f"head word of dynamic item {j} = byte offset of its tail", iexpr(val) == want_off)
                        want_tails += items[j].data
                        dyn_seen.append(j)
                ctx.oblige("layout: heads in order (data of static items, offset words of dynamic ones), then the tails in order", z3.BoolVal(ok and oi == len(offsets) and list(r.data) == want_heads + want_tails and all(a is b for a, b in zip(r.data, want_heads + want_tails))), info={"data": str(r.data)[:120]})

            out.append(Case(f"{PROP}/calldata.Calldata.encode_tuple", f"arity {k}: " + ("".join("S" if f else "D" for f in flags) or "-"), harness, sources=("halmos.calldata:Calldata.encode_tuple",)))
    return out


class Rec:
    """Calldata whose recursive encode / encode_tuple / get_dyn_sizes calls go through contracts"""

    def __init__(self, interp, sizes=None, sym_id=None):
        self.interp = interp
        self.enc_calls = []
        self.tuple_calls = []
        self.dyn_calls = []
        self.sizes = sizes
        self.depth = 0
        fn = hcd.Calldata.__dict__["encode"]
        orig = interp.call
        rec = self

        def call_hook(f, args, kwargs):
            if f is fn:
                rec.depth += 1
                try:
                    if rec.depth > 1:
                        name, typ = args[1], args[2]
                        res = hcd.EncodingResult([Tok(f"enc({name})")], SymInt(z3.Int(f"size[{name}]")), not rec.is_dynamic(typ))
                        rec.enc_calls.append((name, typ, res))
                        return res
                    return orig(f, args, kwargs)
                finally:
                    rec.depth -= 1
            return orig(f, args, kwargs)

        interp.call = call_hook

        def enc_tuple(i, a, kw):
            res = hcd.EncodingResult([Tok("tuple-encoding")], SymInt(z3.Int("tuple_size")), False)
            rec.tuple_calls.append((list(a[1]), res))
            return res

        interp.contracts["halmos.calldata:Calldata.encode_tuple"] = enc_tuple

        def dyn(i, a, kw):
            var = z3.BitVec(f"p_{a[1]}_length", 256)
            rec.dyn_calls.append((a[1], a[2], var))
            return (list(rec.sizes), var)

        if sizes is not None:
            interp.contracts["halmos.calldata:Calldata.get_dyn_sizes"] = dyn

    @staticmethod
    def is_dynamic(typ):
        if isinstance(typ, hcd.BaseType):
            return typ.typ in ("bytes", "string")
        if isinstance(typ, hcd.DynamicArrayType):
            return True
        if isinstance(typ, hcd.FixedArrayType):
            return Rec.is_dynamic(typ.base)
        return any(Rec.is_dynamic(t) for t in typ.items)


def mk_calldata_obj(counter=None):
    """built by the real constructor (so that whatever state it sets up exists), with the configuration left to the harness"""
    n = {"k": 0}

    def nid():
        n["k"] += 1
        return n["k"]

    cd = hcd.Calldata(None, nid if counter else None)
    return cd


def replay_unnamed(r):
    """real mk_calldata for f(uint256,uint256) and g(bytes,bytes) with unnamed parameters: the leaves / length words must be distinct symbols"""
    from contracts.common import config

    bad = []
    for sig, types in (("f(uint256,uint256)", ["uint256", "uint256"]), ("g(bytes,bytes)", ["bytes", "bytes"])):
        abi = {sig: {"inputs": [{"name": "", "type": t} for t in types]}}
        cd, dyn = hcd.mk_calldata(abi, hcd.FunctionInfo("C", sig.split("(")[0], sig, "aabbccdd"), config())
        if types[0] == "uint256":
            w1, w2 = cd.slice(4, 36).unwrap(), cd.slice(36, 68).unwrap()
            if z3.eq(w1, w2):
                bad.append(f"{sig}: both arguments are the one symbol {w1} (argument tuples with different values are not instances of the calldata)")
        else:
            names = [str(d.size_symbol) for d in dyn]
            if len(set(names)) != len(names):
                bad.append(f"{sig}: both length words are the one symbol {names[0]} (mixed length combinations are never explored)")
    if bad:
        return {"reproduced": True, "detail": "; ".join(bad), "inputs": "unnamed parameters of equal type"}
    return {"reproduced": False, "detail": "unnamed parameters of equal type get distinct symbols"}


def encode_cases():
    out = []
    U = hcd.BaseType("x", "uint256")
    B = hcd.BaseType("b", "bytes")

    def harness_unnamed(interp):
        """two parameters with the same (here: empty) name and type: the label does not tell them apart, so every leaf and every length word
        has to draw a random tag of its own (the real uid() runs natively; equal tags by chance: 16**-7)"""
        ctx = interp.ctx
        rec = Rec(interp, sizes=None)
        cd = mk_calldata_obj()
        r1 = interp.call(hcd.Calldata.__dict__["encode"], [cd, "", hcd.BaseType("", "uint256")], {})
        r2 = interp.call(hcd.Calldata.__dict__["encode"], [cd, "", hcd.BaseType("", "uint256")], {})
        ok = len(r1.data) == 1 and len(r2.data) == 1 and z3.is_const(r1.data[0]) and z3.is_const(r2.data[0])
        ctx.oblige("two leaves with the same label and type are different symbols (independent leaves)", z3.BoolVal(ok and not z3.eq(r1.data[0], r2.data[0])), info={"first": str(r1.data[0]) if ok else "?", "second": str(r2.data[0]) if ok else "?"})
        cd2 = mk_calldata_obj()
        cd2.args = config(default_bytes_lengths=[0, 32])
        _, v1 = interp.call(hcd.Calldata.__dict__["get_dyn_sizes"], [cd2, "", hcd.BaseType("", "bytes")], {})
        _, v2 = interp.call(hcd.Calldata.__dict__["get_dyn_sizes"], [cd2, "", hcd.BaseType("", "bytes")], {})
        ctx.oblige("two length words with the same label are different symbols (their candidates are explored independently)", z3.BoolVal(z3.is_const(v1) and z3.is_const(v2) and not z3.eq(v1, v2)), info={"first": str(v1), "second": str(v2)})

    out.append(Case(f"{PROP}/calldata.Calldata.encode", "two unnamed leaves / two unnamed dynamic parameters of the same type", harness_unnamed, replay=replay_unnamed, sources=("halmos.calldata:Calldata.encode", "halmos.calldata:Calldata.get_dyn_sizes", "halmos.calldata:Calldata.__init__")))

    for typ in ("uint256", "uint8", "int256", "address", "bool", "bytes32", "bytes4"):

        def harness_leaf(interp, typ=typ):
            ctx = interp.ctx
            rec = Rec(interp, sizes=None)
            cd = mk_calldata_obj()
            r = interp.call(hcd.Calldata.__dict__["encode"], [cd, "amounts[2].value", hcd.BaseType("value", typ)], {})
            ok = len(r.data) == 1 and z3.is_bv(r.data[0]) and r.data[0].size() == 256 and z3.is_const(r.data[0])
            ctx.oblige("static leaf: exactly one unconstrained 256-bit symbol, 32 bytes, static", z3.BoolVal(ok and r.size == 32 and r.static is True))
            if ok:
                nm = r.data[0].decl().name()
                ctx.oblige("the symbol is named by the parameter path and its type", z3.BoolVal(bool(re.fullmatch(r"p_amounts\[2\]\.value_" + typ + r"_[0-9a-f]{7}_[0-9]*", nm))), info={"name": nm})
            ctx.oblige("a static leaf registers no dynamic parameter", z3.BoolVal(cd.dyn_params == []))

        out.append(Case(f"{PROP}/calldata.Calldata.encode", f"leaf {typ}", harness_leaf, sources=("halmos.calldata:Calldata.encode",)))

    for typ in ("bytes", "string"):
        for sizes in ([0], [0, 1], [32], [0, 32, 65], [33, 1]):

            def harness_bytes(interp, typ=typ, sizes=sizes):
                ctx = interp.ctx
                rec = Rec(interp, sizes=sizes)
                cd = mk_calldata_obj()
                r = interp.call(hcd.Calldata.__dict__["encode"], [cd, "data", hcd.BaseType("data", typ)], {})
                mx = max(sizes)
                pad = (mx + 31) // 32 * 32
                ctx.oblige("candidates are asked once, for this parameter", z3.BoolVal(len(rec.dyn_calls) == 1 and rec.dyn_calls[0][0] == "data"))
                ctx.oblige("bytes/string: 32 + pad32(max candidate) bytes, dynamic", z3.BoolVal(r.size == 32 + pad and r.static is False))
                ctx.oblige("first word is the size symbol", z3.BoolVal(len(r.data) >= 1 and rec.dyn_calls and r.data[0] is rec.dyn_calls[0][2]))
                if mx == 0:
                    ctx.oblige("empty bytes: no data word", z3.BoolVal(len(r.data) == 1))
                else:
                    ok = len(r.data) == 2 and z3.is_const(r.data[1]) and r.data[1].size() == 8 * pad
                    ctx.oblige("data is one unconstrained symbol covering the padded maximum size", z3.BoolVal(ok), info={"bits": r.data[1].size() if len(r.data) == 2 else None})

            out.append(Case(f"{PROP}/calldata.Calldata.encode", f"{typ} sizes={sizes}", harness_bytes, replay=replay_script("bytes_payload_bounds.py", "a bytes parameter with the size candidates given in the order 65,0"), sources=("halmos.calldata:Calldata.encode",)))

    for sizes in ([0], [0, 1, 2], [3], [2, 0]):
        for base in (U, B):

            def harness_dyn(interp, sizes=sizes, base=base):
                ctx = interp.ctx
                rec = Rec(interp, sizes=sizes)
                cd = mk_calldata_obj()
                typ = hcd.DynamicArrayType("xs", base)
                r = interp.call(hcd.Calldata.__dict__["encode"], [cd, "xs", typ], {})
                mx = max(sizes)
                ctx.oblige("T[]: one element encoding per index below the largest candidate, each under its own path name", z3.BoolVal([c[0] for c in rec.enc_calls] == [f"xs[{i}]" for i in range(mx)] and all(c[1] is base for c in rec.enc_calls)))
                ctx.oblige("T[]: the elements are encoded as a tuple, in order", z3.BoolVal(len(rec.tuple_calls) == 1 and all(a is b[2] for a, b in zip(rec.tuple_calls[0][0], rec.enc_calls)) and len(rec.tuple_calls[0][0]) == mx))
                if len(rec.tuple_calls) == 1:
                    tr = rec.tuple_calls[0][1]
                    ctx.oblige("T[]: size word (the size symbol) followed by the tuple encoding; 32 + its size; dynamic", z3.And(z3.BoolVal(r.static is False and len(r.data) == 1 + len(tr.data) and r.data[0] is rec.dyn_calls[0][2] and all(a is b for a, b in zip(r.data[1:], tr.data))), iexpr(r.size) == 32 + iexpr(tr.size)))

            out.append(Case(f"{PROP}/calldata.Calldata.encode", f"{base.typ}[] sizes={sizes}", harness_dyn, sources=("halmos.calldata:Calldata.encode",)))

    for k in (0, 1, 3):

        def harness_fixed(interp, k=k):
            ctx = interp.ctx
            rec = Rec(interp, sizes=[1])
            cd = mk_calldata_obj()
            r = interp.call(hcd.Calldata.__dict__["encode"], [cd, "m", hcd.FixedArrayType("m", B, k)], {})
            ctx.oblige("T[k]: exactly k element encodings under m[0..k), combined as a tuple, whose result is returned", z3.BoolVal([c[0] for c in rec.enc_calls] == [f"m[{i}]" for i in range(k)] and len(rec.tuple_calls) == 1 and r is rec.tuple_calls[0][1] and all(a is b[2] for a, b in zip(rec.tuple_calls[0][0], rec.enc_calls))))

        out.append(Case(f"{PROP}/calldata.Calldata.encode", f"bytes[{k}]", harness_fixed, sources=("halmos.calldata:Calldata.encode",)))

    for prefix in ("", "order"):

        def harness_tuple(interp, prefix=prefix):
            ctx = interp.ctx
            rec = Rec(interp, sizes=[1])
            cd = mk_calldata_obj()
            comps = [hcd.BaseType("to", "address"), hcd.BaseType("data", "bytes"), hcd.DynamicArrayType("ids", U)]
            r = interp.call(hcd.Calldata.__dict__["encode"], [cd, prefix, hcd.TupleType(prefix, comps)], {})
            want = [(f"{prefix}." if prefix else "") + c.var for c in comps]
            ctx.oblige("tuple: one encoding per component, named <path>.<component>, combined as a tuple in order", z3.BoolVal([c[0] for c in rec.enc_calls] == want and all(c[1] is t for c, t in zip(rec.enc_calls, comps)) and len(rec.tuple_calls) == 1 and r is rec.tuple_calls[0][1] and all(a is b[2] for a, b in zip(rec.tuple_calls[0][0], rec.enc_calls))))

        out.append(Case(f"{PROP}/calldata.Calldata.encode", f"tuple under {prefix!r}", harness_tuple, sources=("halmos.calldata:Calldata.encode",)))

    def harness_bad(interp):
        ctx = interp.ctx
        cd = mk_calldata_obj()
        try:
            r = interp.call(hcd.Calldata.__dict__["encode"], [cd, "x", hcd.Type("x")], {})
            ctx.oblige("an unknown type node is rejected", z3.BoolVal(False), info={"got": str(r)[:60]})
        except ValueError:
            ctx.oblige("an unknown type node is rejected", z3.BoolVal(True))

    out.append(Case(f"{PROP}/calldata.Calldata.encode", "unknown node", harness_bad, sources=("halmos.calldata:Calldata.encode",)))
    return out


def dyn_sizes_cases():
    out = []
    for kind in ("array", "bytes", "string"):
        for given in (True, False):

            def harness(interp, kind=kind, given=given):
                ctx = interp.ctx
                cd = mk_calldata_obj(counter=True)
                defaults_arr, defaults_bytes = [0, 1, 2], [0, 65]
                lengths = {"xs": [4, 7]} if given else {}
                snapshot = {k: list(v) for k, v in lengths.items()}
                cd.args = NS(array_lengths=lengths, default_array_lengths=defaults_arr, default_bytes_lengths=defaults_bytes)
                typ = hcd.DynamicArrayType("xs", hcd.BaseType("", "uint256")) if kind == "array" else hcd.BaseType("xs", kind)
                sizes, var = interp.call(hcd.Calldata.__dict__["get_dyn_sizes"], [cd, "xs", typ], {})
                want = [4, 7] if given else (defaults_arr if kind == "array" else defaults_bytes)
                ctx.oblige("candidates: the configured list for this parameter, else the default list of its kind", z3.BoolVal(list(sizes) == want), info={"got": str(sizes)})
                ok = len(cd.dyn_params) == 1 and cd.dyn_params[0].name == "xs" and list(cd.dyn_params[0].size_choices) == want and cd.dyn_params[0].size_symbol is var and cd.dyn_params[0].typ is typ
                ctx.oblige("the parameter is registered once with exactly these candidates and the returned size symbol", z3.BoolVal(ok))
                ctx.oblige("frame: the configuration is read, never written (the `array_lengths` value belongs to the layer that set it and is shared by every test)", z3.BoolVal(cd.args.array_lengths is lengths and lengths == snapshot and defaults_arr == [0, 1, 2] and defaults_bytes == [0, 65]), info={"array_lengths": str(lengths)})
                ctx.oblige("the size symbol is an unconstrained 256-bit symbol named after the parameter", z3.BoolVal(z3.is_const(var) and var.size() == 256 and bool(re.fullmatch(r"p_xs_length_[0-9a-f]{7}_0?1", var.decl().name()))), info={"name": var.decl().name()})

            out.append(Case(f"{PROP}/calldata.Calldata.get_dyn_sizes", f"{kind},configured={given}", harness, replay=replay_script("array_lengths_memoised.py", "three tests sharing a parameter name, the later ones annotated with their own default lengths"), sources=("halmos.calldata:Calldata.get_dyn_sizes",)))
    return out


def create_cases():
    out = []

    def harness(interp):
        ctx = interp.ctx
        w1, w2 = z3.BitVec("word1", 256), z3.BitVec("chunk2", 512)
        enc = hcd.EncodingResult([w1, w2], 96, False)
        seen = []
        interp.contracts["halmos.calldata:Calldata.encode"] = lambda i, a, k: (seen.append((a[1], a[2])), enc)[1]
        cd = mk_calldata_obj()
        cd.dyn_params = ["<registered>"]
        abi = {"f(uint256,bytes)": {"inputs": [{"name": "a", "type": "uint256"}, {"name": "b", "type": "bytes"}]}}
        fi = hcd.FunctionInfo("C", "f", "f(uint256,bytes)", "aabbccdd")
        r, dyn = interp.call(hcd.Calldata.__dict__["create"], [cd, abi, fi], {})
        ctx.oblige("calldata = 4 selector bytes followed by the encoding of the parameter tuple", z3.BoolVal(len(r) == 4 + 96))
        if len(r) == 100:
            t = r.unwrap()
            ctx.oblige("bytes are selector, then the encoding's data in order", t == z3.Concat(z3.BitVecVal(0xAABBCCDD, 32), w1, w2))
        ctx.oblige("the parameter tuple is encoded under the empty path", z3.BoolVal(len(seen) == 1 and seen[0][0] == "" and isinstance(seen[0][1], hcd.TupleType) and [x.var for x in seen[0][1].items] == ["a", "b"]))
        ctx.oblige("the dynamic parameters reported are the registered ones", z3.BoolVal(dyn is cd.dyn_params))

    out.append(Case(f"{PROP}/calldata.Calldata.create", "two parameters", harness, sources=("halmos.calldata:Calldata.create",)))

    def harness_size(interp):
        ctx = interp.ctx
        enc = hcd.EncodingResult([z3.BitVec("word1", 256)], 64, True)
        interp.contracts["halmos.calldata:Calldata.encode"] = lambda i, a, k: enc
        cd = mk_calldata_obj()
        abi = {"f(uint256)": {"inputs": [{"name": "a", "type": "uint256"}]}}
        try:
            interp.call(hcd.Calldata.__dict__["create"], [cd, abi, hcd.FunctionInfo("C", "f", "f(uint256)", "aabbccdd")], {})
            ctx.oblige("an encoding whose declared size differs from its data is rejected", z3.BoolVal(False))
        except ValueError:
            ctx.oblige("an encoding whose declared size differs from its data is rejected", z3.BoolVal(True))

    out.append(Case(f"{PROP}/calldata.Calldata.create", "size mismatch", harness_size, sources=("halmos.calldata:Calldata.create",)))

    def harness_noargs(interp):
        ctx = interp.ctx
        cd = mk_calldata_obj()
        r, dyn = interp.call(hcd.Calldata.__dict__["create"], [cd, {"f()": {"inputs": []}}, hcd.FunctionInfo("C", "f", "f()", "26121ff0")], {})
        ctx.oblige("no parameters: calldata is the selector only", z3.BoolVal(len(r) == 4 and r.unwrap() == bytes.fromhex("26121ff0") and dyn == []))

    out.append(Case(f"{PROP}/calldata.Calldata.create", "no parameters", harness_noargs, sources=("halmos.calldata:Calldata.create",)))

    def harness_dyn(interp):
        ctx = interp.ctx
        conc = hs.Concretization()
        s0, s1, s2 = z3.BitVecs("p_earlier_length p_a_length p_b_length", 256)
        x = z3.BitVec("x", 256)
        # an earlier calldata on the same path (e.g. svm.createCalldata) and an equality learnt on the path
        conc.candidates[s0] = [7, 9]
        conc.substitution[x] = z3.BitVecVal(5, 256)
        params = [hcd.DynamicParam("a", [0, 1], s1, None), hcd.DynamicParam("b", [32], s2, None)]
        interp.call(hs.Concretization.__dict__["process_dyn_params"], [conc, params], {})
        ctx.oblige("every registered dynamic parameter's candidate list reaches the path (keyed by its size symbol)", z3.BoolVal(conc.candidates.get(s1) == [0, 1] and conc.candidates.get(s2) == [32]))
        ctx.oblige("frame: candidates of earlier calldata on the same path and learnt substitutions are kept", z3.BoolVal(conc.candidates.get(s0) == [7, 9] and len(conc.candidates) == 3 and len(conc.substitution) == 1))

    out.append(Case(f"{PROP}/sevm.Concretization.process_dyn_params", "two parameters", harness_dyn, sources=("halmos.sevm:Concretization.process_dyn_params",)))
    return out


# ---------------------------------------------------------------------------------------
# bounded stand-ins


def gen_type(rnd, depth, name):
    kinds = ["uint256", "address", "bool", "bytes32", "int8", "bytes", "string"]
    r = rnd.random()
    if depth == 0 or r < 0.45:
        return {"name": name, "type": rnd.choice(kinds)}
    if r < 0.65:
        base = gen_type(rnd, depth - 1, name)
        base = dict(base)
        base["type"] += "[]" if rnd.random() < 0.6 else f"[{rnd.randint(0, 2)}]"
        return base
    comps = [gen_type(rnd, depth - 1, f"c{j}") for j in range(rnd.randint(1, 3))]
    return {"name": name, "type": "tuple", "components": comps}


def sig_of(item):
    m = re.match(r"^tuple((\[[0-9]*\])*)$", item["type"])
    if m:
        return "(" + ",".join(sig_of(c) for c in item["components"]) + ")" + m.group(1)
    return item["type"]


def decode(data: bytes, item, typ: str, pos: int, base: int):
    """independent ABI decoder: returns (value, static_size); dynamic values are read through their offset"""

    def is_dyn(item, typ):
        if typ.endswith("[]"):
            return True
        m = re.match(r"^(.*)\[(\d+)\]$", typ)
        if m:
            return int(m.group(2)) > 0 and is_dyn(item, m.group(1))
        if typ == "tuple":
            return any(is_dyn(c, c["type"]) for c in item["components"])
        return typ in ("bytes", "string")

    def word(p):
        if p + 32 > len(data):
            raise ValueError(f"read past the end at {p}")
        return int.from_bytes(data[p : p + 32], "big")

    def dec_at(item, typ, p):
        """decode a value whose encoding starts at p; returns (value, bytes consumed in place)"""
        if typ.endswith("[]"):
            n = word(p)
            return dec_seq(item, [typ[:-2]] * n, p + 32), None
        m = re.match(r"^(.*)\[(\d+)\]$", typ)
        if m:
            k = int(m.group(2))
            vals = dec_seq(item, [m.group(1)] * k, p)
            return vals, None
        if typ == "tuple":
            return dec_seq(None, [(c, c["type"]) for c in item["components"]], p), None
        if typ in ("bytes", "string"):
            n = word(p)
            if p + 32 + n > len(data):
                raise ValueError("bytes past the end")
            return ("bytes", p + 32, n), None
        return ("word", p), None

    def head_size(item, typ):
        if is_dyn(item, typ):
            return 32
        m = re.match(r"^(.*)\[(\d+)\]$", typ)
        if m:
            return int(m.group(2)) * head_size(item, m.group(1))
        if typ == "tuple":
            return sum(head_size(c, c["type"]) for c in item["components"])
        return 32

    def dec_seq(item, elems, p):
        vals = []
        cur = p
        for e in elems:
            it, ty = (e if isinstance(e, tuple) else (item, e))
            if is_dyn(it, ty):
                off = word(cur)
                v, _ = dec_at(it, ty, p + off)
                cur += 32
            else:
                v, _ = dec_at(it, ty, cur)
                cur += head_size(it, ty)
            vals.append(v)
        return vals

    return dec_at(item, typ, pos)[0]


def _bounded_decode(tier, seed):
    from halmos.calldata import FunctionInfo, mk_calldata

    rnd = random.Random(seed)
    n = 60 if tier == "quick" else 600
    failures, cases = [], 0
    args = config()
    for t in range(n):
        inputs = [gen_type(rnd, 2, f"a{j}") for j in range(rnd.randint(1, 3))]
        sig = "f(" + ",".join(sig_of(i) for i in inputs) + ")"
        abi = {sig: {"type": "function", "name": "f", "inputs": inputs}}
        try:
            cd, dyn = mk_calldata(abi, FunctionInfo("C", "f", sig, "aabbccdd"), args)
        except NotImplementedError:
            continue
        except Exception as e:  # noqa
            failures.append({"witness": sig, "detail": f"mk_calldata raised {type(e).__name__}: {e}"})
            continue
        raw = cd.unwrap()
        total = len(cd)
        if isinstance(raw, bytes):
            term = z3.BitVecVal(int.from_bytes(raw, "big"), 8 * len(raw))
        else:
            term = raw
        # all leaf symbols
        syms = {}

        def walk(x):
            if z3.is_const(x) and x.decl().kind() == z3.Z3_OP_UNINTERPRETED:
                syms[x.decl().name()] = x
            for c in x.children():
                walk(c)

        walk(term)
        size_syms = {d.size_symbol.decl().name(): d for d in dyn}
        leaf_syms = [s_ for nme, s_ in syms.items() if nme not in size_syms]
        choices = [d.size_choices for d in dyn]
        combos = list(itertools.product(*choices)) if choices else [()]
        if len(combos) > 12:
            combos = rnd.sample(combos, 12)
        for combo in combos:
            cases += 1
            # instantiate: sizes = the chosen candidates, every leaf symbol = a distinct recognisable pattern
            sub = [(d.size_symbol, z3.BitVecVal(c, 256)) for d, c in zip(dyn, combo)]
            tags = {}
            for k, s_ in enumerate(sorted(leaf_syms, key=lambda s_: s_.decl().name())):
                w = s_.size()
                val = int.from_bytes(bytes([(k * 7 + j) % 251 + 1 for j in range(w // 8)]), "big") if w >= 8 else 1
                tags[s_.decl().name()] = (val, w)
                sub.append((s_, z3.BitVecVal(val, w)))
            conc = z3.simplify(z3.substitute(term, *sub))
            if not z3.is_bv_value(conc):
                failures.append({"witness": sig, "detail": "calldata is not ground after instantiating every symbol"})
                break
            data = conc.as_long().to_bytes(total, "big")
            try:
                vals = decode(data[4:], None, None, 0, 0) if False else None
                tup = {"components": inputs}
                vals = decode(data[4:], tup, "tuple", 0, 0)
            except ValueError as e:
                failures.append({"witness": f"{sig} sizes={combo}", "detail": f"independent ABI decoder rejects the instantiated calldata: {e}"})
                break
            # every leaf word read by the decoder must be one of the symbol patterns (or a size), and distinct leaves
            # must come from distinct symbols: collect the leaf words
            words = []

            def leaves(v):
                if isinstance(v, list):
                    for x in v:
                        leaves(x)
                elif v[0] == "word":
                    words.append(int.from_bytes(data[4 + v[1] : 4 + v[1] + 32], "big"))
                elif v[0] == "bytes":
                    words.append(("bytes", data[4 + v[1] : 4 + v[1] + v[2]]))

            leaves(vals)
            word_syms = {v for v, w in tags.values() if w == 256}
            seen = set()
            for wv in words:
                if isinstance(wv, tuple):
                    continue
                if wv not in word_syms:
                    failures.append({"witness": f"{sig} sizes={combo}", "detail": f"decoded leaf {wv:#x} is not one of the unconstrained symbols"})
                    break
                if wv in seen:
                    failures.append({"witness": f"{sig} sizes={combo}", "detail": "two decoded leaves are the same symbol (not independent)"})
                    break
                seen.add(wv)
    return {"tool": "native: real mk_calldata on random ABI type trees, instantiated and decoded by an independent ABI decoder", "bound": f"{n} random signatures (depth <= 2, arity <= 3), up to 12 candidate-length combinations each", "cases": cases, "failures": failures[:5]}


def _bounded_parse(tier, seed):
    failures, cases = [], 0
    good = ["uint256", "uint8", "int256", "int", "uint", "address", "bool", "bytes", "bytes32", "bytes1", "string"]
    bad = ["fixed128x18", "ufixed", "function", "uint256 ", "mapping", "", "Uint256", "tuple2"]
    sufs = ["", "[]", "[3]", "[][2]", "[2][]", "[0]"]
    for b in good:
        for s_ in sufs:
            cases += 1
            t = hcd.parse_type("v", b + s_, {})
            # independent reading of the suffixes, innermost first
            cur = t
            dims = re.findall(r"\[(\d*)\]", s_)
            for d in reversed(dims):
                if d == "":
                    if not isinstance(cur, hcd.DynamicArrayType):
                        failures.append({"witness": b + s_, "detail": f"expected dynamic array, got {cur}"})
                        break
                else:
                    if not isinstance(cur, hcd.FixedArrayType) or cur.size != int(d):
                        failures.append({"witness": b + s_, "detail": f"expected fixed array of {d}, got {cur}"})
                        break
                cur = cur.base
            else:
                if not (isinstance(cur, hcd.BaseType) and cur.typ == b):
                    failures.append({"witness": b + s_, "detail": f"expected base type {b}, got {cur}"})
    for b in bad:
        for s_ in ("", "[]"):
            cases += 1
            try:
                t = hcd.parse_type("v", b + s_, {})
                failures.append({"witness": b + s_, "detail": f"unsupported type accepted as {t}"})
            except NotImplementedError:
                pass
    cases += 1
    t = hcd.parse_type("p", "tuple[]", {"components": [{"name": "a", "type": "uint256"}, {"name": "b", "type": "tuple", "components": [{"name": "c", "type": "bytes"}]}]})
    ok = isinstance(t, hcd.DynamicArrayType) and isinstance(t.base, hcd.TupleType) and [x.var for x in t.base.items] == ["a", "b"] and isinstance(t.base.items[1], hcd.TupleType)
    if not ok:
        failures.append({"witness": "tuple[]", "detail": str(t)})
    return {"tool": "native enumeration of ABI type strings against an independent reading of the array suffixes", "bound": f"{len(good)} base types x {len(sufs)} suffix shapes, {len(bad)} unsupported spellings, nested tuples", "cases": cases, "failures": failures[:5]}


def generic_calldata_cases():
    """svm.createCalldata: create_calldata_generic builds one calldata per function of the target; the length candidates
    of EVERY one of them must reach the path (process_dyn_params), or their lengths are never branched on"""
    import halmos.cheatcodes as hc

    class NS:
        def __init__(self, **kw):
            self.__dict__.update(kw)

    out = []
    for include_view in (False, True):

        def harness(interp, include_view=include_view):
            ctx = interp.ctx
            sigs = {"f(bytes)": "aaaaaaa1", "g(uint256[])": "aaaaaaa2", "v(string)": "aaaaaaa3", "h(bytes,uint8[])": "aaaaaaa4"}
            mut = {"f(bytes)": "nonpayable", "g(uint256[])": "payable", "v(string)": "view", "h(bytes,uint8[])": "nonpayable"}
            cj = {"methodIdentifiers": sigs}
            abi = {s: {"stateMutability": m} for s, m in mut.items()}
            made, processed, appended = {}, [], []

            def mk(i, abi_, funinfo, *a, **k):
                cd, dyn = z3.BitVec("cd_" + funinfo.selector, 8 * 36), ["<dyn params of " + funinfo.sig + ">"]
                made[funinfo.sig] = (cd, dyn)
                return cd, dyn

            interp.externals[hc.BuildOut] = lambda i, *a, **k: NS(get_by_name=lambda name, filename=None: cj)
            interp.externals[hc.get_abi] = lambda i, *a, **k: abi
            interp.externals[hc.mk_calldata] = mk
            interp.externals[hc.uid] = lambda i, *a, **k: "0000000"
            cnt = [0]

            def new_id():
                cnt[0] += 1
                return cnt[0]

            path = NS(append=lambda c, *a, **k: appended.append(c), process_dyn_params=lambda d: processed.append(d))
            ex = NS(path=path, new_symbol_id=new_id)
            sevm = NS(options=config())
            res = interp.call(hc.create_calldata_generic, [ex, sevm, "Target"], {"include_view": include_view})
            want = [s for s in sigs if include_view or mut[s] not in ("pure", "view")]
            ctx.oblige("one calldata per selected function (state-changing ones, plus view/pure ones when asked), after the two fallback calldatas", z3.BoolVal(list(made) == want and len(res) == 2 + len(want)), info={"made": list(made), "n": len(res)})
            ctx.oblige("the length candidates of every generated calldata reach the path: process_dyn_params is given the dynamic parameters of each function", z3.BoolVal(len(processed) >= len(want) and all(any(p is made[s][1] or (isinstance(p, list) and made[s][1][0] in p) for p in processed) for s in want if s in made)), info={"processed": [str(p) for p in processed]})
            ok = True
            for k, s in enumerate(want):
                if s not in made or 2 + k >= len(res):
                    ok = False
                    continue
                bv = res[2 + k]
                ok = ok and len(bv) == 64 + 36 and z3.eq(z3.simplify(bv.slice(64, 100).unwrap()), made[s][0])
            ctx.oblige("each result wraps that function's calldata as abi-encoded bytes (offset, length, data)", z3.BoolVal(ok))
            ctx.oblige("the fallback selector is constrained to differ from every selector of the contract", z3.BoolVal(len(appended) == len(sigs)))

        out.append(Case(f"{PROP}/cheatcodes.create_calldata_generic", f"four functions, one of them view; include_view={include_view}", harness, replay=replay_script("create_calldata_candidates.py", "svm.createCalldata for a contract with two state-changing functions that take dynamic parameters"), sources=("halmos.cheatcodes:create_calldata_generic",)))
    return out


def build_cases(tier="quick"):
    # every configured length candidate is explored, and a path that runs with a concrete length constrains the length
    # word accordingly (the calldataload contract of the C02 pack)
    from contracts import c02

    ref = [Case(f"{PROP}/sevm.SEVM.calldataload", c.case, c.harness, replay=c.replay, sources=c.sources) for c in c02.calldataload_cases()]
    ref += [Case(f"{PROP}/sevm.Path.branch#size-tables-owned", c.case, c.harness, replay=c.replay, sources=c.sources) for c in c02.path_cases() if "Path.branch" in c.unit]
    from contracts import c15
    from contracts.common import rewrap

    # the callers of mk_calldata hand the length candidates to the path that runs the message (C15's unit: invariant target calls)
    ref += rewrap(PROP, c15.target_call_path_cases(), "candidates-reach-the-running-path")
    # the configured candidates of a test are those of ITS configuration (C20's unit)
    from contracts import c20

    ref += rewrap(PROP, c20.main_cases(), "candidates-of-this-test", lambda c: c.unit.endswith("__main__.run_tests"))
    return generic_calldata_cases() + encode_tuple_cases() + encode_cases() + dyn_sizes_cases() + create_cases() + ref


def bounded():
    return [Bounded("independent ABI decoder on real calldata", _bounded_decode), Bounded("parse_type grammar", _bounded_parse)]


ASSUMPTIONS = [
    "pyvc (VC generator, Python-subset semantics) is trusted",
    "structural induction: the recursive calls of Calldata.encode are replaced by the contract (a result with an arbitrary size and the static flag the ABI assigns to the component type); encode_tuple is proved for arity <= 4 with arbitrary item sizes (bounded in arity, not in sizes) and used by contract",
    "pairwise independence of the leaves rests on distinct labels: the parameter path is part of the label (proved), unnamed or equally named parameters are told apart only by uid() (7 random hex digits: probabilistic, assumed collision-free)",
    "the property's `every configured length candidate is explored` is the calldataload contract of the C02 pack; here it is proved that exactly the configured candidates are registered and reach the path",
    "parse_type / str_abi (regular expressions on type strings) and the end-to-end well-formedness against an independent ABI decoder are bounded stand-ins, reported separately",
    "ByteVec.append / unwrap used by create run through the interpreter on concrete layouts (general contract: C07)",
]
TRUSTED = ["pyvc (this repository's verifier)", "z3 4.12.6", "the ABI specification as transcribed in the contracts and in the independent decoder of the bounded stand-in"]
TECHNIQUE = "structural induction by contract on the ABI type: VCs generated from the real source AST (pyvc) per constructor, symbolic item sizes; bounded stand-ins: independent ABI decoder on real calldata, type-string grammar"
