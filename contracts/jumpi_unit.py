"""SEVM.jumpi under contract (shared by the C02 and C10 packs).

The real body of `SEVM.jumpi` is executed from its AST with

  * `cond`        a real halmos Bool wrapping the opaque object-level condition `c`
  * `ex.check`    replaced by its contract: it answers sat / unsat / unknown (all 3x3 combinations for
                  the two queries are explored as separate cases), and an `unsat` answer carries the
                  hypothesis  den(PC) => not den(query)          (C02 contract of Exec.check)
  * `visited[True]`, `visited[False]`, `--loop`      symbolic integers (>= 0), or no entry yet
  * `target in ex.pgm.valid_jumpdests()`             a symbolic Boolean (both outcomes)
  * `create_branch`, `path.append`, `advance`, `stack.push`, `logs.bounded_loops`   recorded

so the proof covers every solver answer, every loop bound, every visit count and both kinds of
target.  `observe()` returns what happened; the packs turn it into obligations.
"""
from __future__ import annotations

import z3

from pyvc import loader
from pyvc.interp import _ENGINE, PathEnd
from pyvc.sym import SymBool, SymInt

loader.import_repo()
import halmos.bitvec as hb  # noqa: E402
import halmos.sevm as hs  # noqa: E402
from halmos.exceptions import InvalidJumpDestError  # noqa: E402

RES = {"unsat": z3.unsat, "sat": z3.sat, "unknown": z3.unknown}
SOURCES = ("halmos.sevm:SEVM.jumpi",)
JID = (7, (3,))
NEXT_PC = 8
TARGET = 0x40


class GhostJumpdests:
    """result of pgm.valid_jumpdests(): membership of the target is an unknown Boolean"""

    def __init__(self, interp, valid):
        self.interp = interp
        self.valid = valid
        self.queries = []

    def __contains__(self, x):
        self.queries.append(x)
        if x != TARGET:
            raise loader.BindingError(f"valid_jumpdests queried for {x}, expected the jump target")
        return self.valid


class StubPgm:
    def __init__(self, jd):
        self.jd = jd

    def valid_jumpdests(self):
        return self.jd


class StubPath:
    def __init__(self, conds=()):
        self.conds = list(conds)

    def append(self, cond, branching=False):
        self.conds.append((cond, branching))


class StubOutput:
    def __init__(self):
        self.error = None
        self.data = None


class StubContext:
    def __init__(self):
        self.output = StubOutput()


class StubExec:
    def __init__(self, owner, pgm, path, pc, jumpis):
        self.context = StubContext()
        self.owner = owner
        self.pgm = pgm
        self.path = path
        self.pc = pc
        self.jumpis = jumpis
        self.advanced = []
        self.is_branch = False

    # -- contracts of the callees
    def check(self, q):
        return self.owner.check(q)

    def jumpid(self):
        return JID

    def advance(self, pc=None):
        self.advanced.append(pc)
        self.pc = NEXT_PC if pc is None else pc

    def calldata(self):
        return "<calldata>"


class StubWorklist:
    def __init__(self):
        self.pushed = []

    def push(self, ex):
        self.pushed.append(ex)


class StubOptions:
    def __init__(self, loop, debug=False):
        self.loop = loop
        self.debug = debug


class StubSevm:
    def __init__(self, owner, loop):
        self.owner = owner
        self.options = StubOptions(loop)
        self.logs = hs.HalmosLogs()
        self.branches = []

    def create_branch(self, ex, cond, target):
        # contract of create_branch (proved separately): a new state at `target` whose path is the
        # parent's path plus the pending branching condition; bookkeeping deep-copied
        nx = StubExec(self.owner, ex.pgm, StubPath(list(ex.path.conds) + [(cond, True)]), target, {k: dict(v) for k, v in ex.jumpis.items()})
        nx.is_branch = True
        self.branches.append((ex, cond, target, nx))
        return nx


class Observation:
    pass


class Owner:
    def __init__(self, ctx, script, c, PC):
        self.ctx = ctx
        self.script = script
        self.c = c
        self.PC = PC
        self.asked = []

    def check(self, q):
        # which of the two queries is it?  (decided semantically, not by syntax)
        s = z3.Solver()
        s.add(q != self.c)
        if s.check() == z3.unsat:
            which = "true"
        else:
            s = z3.Solver()
            s.add(q != z3.Not(self.c))
            if s.check() != z3.unsat:
                raise loader.BindingError(f"ex.check called with an unexpected formula {q}")
            which = "false"
        self.asked.append(which)
        r = self.script[which]
        if r == "unsat":
            # contract of Exec.check: unsat => the path condition excludes the query
            self.ctx.assume(z3.Implies(self.PC, z3.Not(q)))
        return RES[r]


def observe(interp, ct, cf, entry):
    """run the real jumpi; returns an Observation (or None if an engine-level problem was reported)"""
    ctx = interp.ctx
    c = z3.Bool("c")
    PC = z3.Bool("PC")
    owner = Owner(ctx, {"true": ct, "false": cf}, c, PC)
    loop = SymInt(z3.Int("loop"))
    ctx.assume(loop.e >= 0)
    valid = ctx.branch(SymBool(z3.Bool("target_is_valid_jumpdest")))
    jd = GhostJumpdests(interp, valid)
    if entry == "visited":
        vt, vf = SymInt(z3.Int("visited_true")), SymInt(z3.Int("visited_false"))
        ctx.assume(vt.e >= 0)
        ctx.assume(vf.e >= 0)
        jumpis = {JID: {True: vt, False: vf}}
    else:
        vt = vf = 0
        jumpis = {}
    ex = StubExec(owner, StubPgm(jd), StubPath(), JID[0], jumpis)
    sevm = StubSevm(owner, loop)
    stack = StubWorklist()
    cond = hb.HalmosBool(c)
    fn = hs.SEVM.__dict__["jumpi"]
    o = Observation()
    o.raised = None
    try:
        interp.call(fn, [sevm, ex, stack, TARGET, cond], {})
    except PathEnd:
        raise
    except _ENGINE:
        raise
    except InvalidJumpDestError as e:
        o.raised = e
    except BaseException as e:  # noqa
        ctx.oblige(f"no-internal-exception[{type(e).__name__}]", z3.BoolVal(False), info={"msg": str(e)[:200]})
        return None
    o.c, o.PC, o.ex, o.sevm, o.stack, o.valid, o.loop, o.vt, o.vf = c, PC, ex, sevm, stack, valid, loop, vt, vf
    o.asked = owner.asked
    o.logged = list(sevm.logs.bounded_loops)
    o.succ = []  # (exec, kind) for each pushed state
    for s in stack.pushed:
        added = s.path.conds
        o.succ.append((s, added))
    return o


def is_exactly(q, want):
    s = z3.Solver()
    s.add(q != want)
    return s.check() == z3.unsat


def classify(o, s, added):
    """'true' / 'false' / None: which direction does this pushed state stand for, judged by the
    branching conditions it carries, its pc and (for the jump) the validity of the target"""
    if len(added) != 1 or added[0][1] is not True:
        return None
    q = added[0][0]
    if is_exactly(q, o.c) and s.context.output.error is not None:
        # the jump direction as a state of its own that ends with the EVM's error (raised by
        # SEVM.run when the state comes out of the worklist)
        ok = isinstance(s.context.output.error, InvalidJumpDestError) and s.context.output.data is None and s.is_branch and not o.valid
        return "true-error" if ok else None
    if s.context.output.error is not None:
        return None
    if is_exactly(q, o.c):
        ok_pc = (s.pc == TARGET and s.is_branch and s.advanced == []) or (s.pc == TARGET + 1 and s.advanced == [TARGET + 1])
        return "true" if ok_pc and o.valid else None
    if is_exactly(q, z3.Not(o.c)):
        return "false" if s.pc == NEXT_PC and s.advanced == [None] else None
    return None
