"""SEVM.jumpi under contract (shared by the C02 and C10 packs).

The real body of `SEVM.jumpi` is executed from its AST with

  * `cond`        a real halmos Bool wrapping the opaque object-level condition `c`
  * `ex.check`    replaced by its contract: it answers sat / unsat / unknown (all 3x3 combinations for
                  the two queries are explored as separate cases), and an `unsat` answer carries the
                  hypothesis  den(PC) => not den(query)          (C02 contract of Exec.check)
  * `visited[True]`, `visited[False]`, `--loop`      symbolic integers (>= 0), or no entry yet
  * `target in ex.pgm.valid_jumpdests()`             a symbolic Boolean (both outcomes)
  * `create_branch`, `path.append`, `advance`, `stack.push`, `logs.bounded_loops`   recorded

so the proof covers every solver answer, every loop bound, every visit count and both kinds of
target.  `observe()` returns what happened; the packs turn it into obligations.
"""
from __future__ import annotations

import z3

from pyvc import loader
from pyvc.interp import _ENGINE, PathEnd
from pyvc.sym import SymBool, SymInt

loader.import_repo()
import halmos.bitvec as hb  # noqa: E402
import halmos.sevm as hs  # noqa: E402
from halmos.exceptions import InvalidJumpDestError  # noqa: E402

RES = {"unsat": z3.unsat, "sat": z3.sat, "unknown": z3.unknown}
SOURCES = ("halmos.sevm:SEVM.jumpi",)
JID = (7, (3,))
NEXT_PC = 8
TARGET = 0x40


class GhostJumpdests:
    """result of pgm.valid_jumpdests(): membership of the target is an unknown Boolean"""

    def __init__(self, interp, valid):
        self.interp = interp
        self.valid = valid
        self.queries = []

    def __contains__(self, x):
        self.queries.append(x)
        if x != TARGET:
            raise loader.BindingError(f"valid_jumpdests queried for {x}, expected the jump target")
        return self.valid


class StubPgm:
    def __init__(self, jd):
        self.jd = jd

    def valid_jumpdests(self):
        return self.jd


class StubPath:
    def __init__(self, conds=()):
        self.conds = list(conds)

    def append(self, cond, branching=False):
        self.conds.append((cond, branching))


class StubOutput:
    def __init__(self):
        self.error = None
        self.data = None


class StubContext:
    def __init__(self):
        self.output = StubOutput()


class StubExec:
    def __init__(self, owner, pgm, path, pc, jumpis):
        self.context = StubContext()
        self.owner = owner
        self.pgm = pgm
        self.path = path
        self.pc = pc
        self.jumpis = jumpis
        self.advanced = []
        self.is_branch = False

    # -- contracts of the callees
    def check(self, q):
        return self.owner.check(q)

    def jumpid(self):
        return JID

    def advance(self, pc=None):
        self.advanced.append(pc)
        self.pc = NEXT_PC if pc is None else pc

    def calldata(self):
        return "<calldata>"


class StubWorklist:
    def __init__(self):
        self.pushed = []

    def push(self, ex):
        self.pushed.append(ex)


class StubOptions:
    def __init__(self, loop, debug=False):
        self.loop = loop
        self.debug = debug


class StubSevm:
    def __init__(self, owner, loop):
        self.owner = owner
        self.options = StubOptions(loop)
        self.logs = hs.HalmosLogs()
        self.branches = []

    def create_branch(self, ex, cond, target):
        # contract of create_branch (proved separately): a new state at `target` whose path is the
        # parent's path plus the pending branching condition; bookkeeping deep-copied
        nx = StubExec(self.owner, ex.pgm, StubPath(list(ex.path.conds) + [(cond, True)]), target, {k: dict(v) for k, v in ex.jumpis.items()})
        nx.is_branch = True
        self.branches.append((ex, cond, target, nx))
        return nx


class Observation:
    pass


class Owner:
    def __init__(self, ctx, script, c, PC):
        self.ctx = ctx
        self.script = script
        self.c = c
        self.PC = PC
        self.asked = []

    def check(self, q):
        # which of the two queries is it?  (decided semantically, not by syntax)
        s = z3.Solver()
        s.add(q != self.c)
        if s.check() == z3.unsat:
            which = "true"
        else:
            s = z3.Solver()
            s.add(q != z3.Not(self.c))
            if s.check() != z3.unsat:
                raise loader.BindingError(f"ex.check called with an unexpected formula {q}")
            which = "false"
        self.asked.append(which)
        r = self.script[which]
        if r == "unsat":
            # contract of Exec.check: unsat => the path condition excludes the query
            self.ctx.assume(z3.Implies(self.PC, z3.Not(q)))
        return RES[r]


def observe(interp, ct, cf, entry):
    """run the real jumpi; returns an Observation (or None if an engine-level problem was reported)"""
    ctx = interp.ctx
    c = z3.Bool("c")
    PC = z3.Bool("PC")
    owner = Owner(ctx, {"true": ct, "false": cf}, c, PC)
    loop = SymInt(z3.Int("loop"))
    ctx.assume(loop.e >= 0)
    valid = ctx.branch(SymBool(z3.Bool("target_is_valid_jumpdest")))
    jd = GhostJumpdests(interp, valid)
    if entry == "visited":
        vt, vf = SymInt(z3.Int("visited_true")), SymInt(z3.Int("visited_false"))
        ctx.assume(vt.e >= 0)
        ctx.assume(vf.e >= 0)
        jumpis = {JID: {True: vt, False: vf}}
    else:
        vt = vf = 0
        jumpis = {}
    ex = StubExec(owner, StubPgm(jd), StubPath(), JID[0], jumpis)
    sevm = StubSevm(owner, loop)
    stack = StubWorklist()
    cond = hb.HalmosBool(c)
    fn = hs.SEVM.__dict__["jumpi"]
    o = Observation()
    o.raised = None
    try:
        interp.call(fn, [sevm, ex, stack, TARGET, cond], {})
    except PathEnd:
        raise
    except _ENGINE:
        raise
    except InvalidJumpDestError as e:
        o.raised = e
    except BaseException as e:  # noqa
        ctx.oblige(f"no-internal-exception[{type(e).__name__}]", z3.BoolVal(False), info={"msg": str(e)[:200]})
        return None
    o.c, o.PC, o.ex, o.sevm, o.stack, o.valid, o.loop, o.vt, o.vf = c, PC, ex, sevm, stack, valid, loop, vt, vf
    o.asked = owner.asked
    o.logged = list(sevm.logs.bounded_loops)
    o.succ = []  # (exec, kind) for each pushed state
    for s in stack.pushed:
        added = s.path.conds
        o.succ.append((s, added))
    return o


def is_exactly(q, want):
    s = z3.Solver()
    s.add(q != want)
    return s.check() == z3.unsat


def classify(o, s, added):
    """'true' / 'false' / None: which direction does this pushed state stand for, judged by the
    branching conditions it carries, its pc and (for the jump) the validity of the target"""
    if len(added) != 1 or added[0][1] is not True:
        return None
    q = added[0][0]
    if is_exactly(q, o.c) and s.context.output.error is not None:
        # the jump direction as a state of its own that ends with the EVM's error (raised by
        # SEVM.run when the state comes out of the worklist)
        ok = isinstance(s.context.output.error, InvalidJumpDestError) and s.context.output.data is None and s.is_branch and not o.valid
        return "true-error" if ok else None
    if s.context.output.error is not None:
        return None
    if is_exactly(q, o.c):
        ok_pc = (s.pc == TARGET and s.is_branch and s.advanced == []) or (s.pc == TARGET + 1 and s.advanced == [TARGET + 1])
        return "true" if ok_pc and o.valid else None
    if is_exactly(q, z3.Not(o.c)):
        return "false" if s.pc == NEXT_PC and s.advanced == [None] else None
    return None


def replay_jumpi(r):
    """drive the real SEVM.jumpi on a real Exec with a scripted Exec.check (the solver answers of the
    refuted case) and the model's visit counts / loop bound / target validity; compare what it
    pushes, logs and raises with the reference rule of the contract"""
    import re

    from contracts.common import config, mk_ex, mk_sevm

    case = r.get("id", "").rsplit("/", 1)[-1]
    m = re.search(r"check\(c\)=(\w+),check\(not c\)=(\w+)", case)
    if not m:
        return {"reproduced": None, "detail": "case name not understood"}
    ct, cf = m.group(1), m.group(2)
    model = r.get("model") or {}
    first = "first-visit" in case
    cands = []
    base = dict(vt=0 if first else int(model.get("visited_true", 0) or 0), vf=0 if first else int(model.get("visited_false", 0) or 0), loop=int(model.get("loop", 2) or 0), valid=bool(model.get("target_is_valid_jumpdest", True)))
    cands.append(base)
    for valid in (True, False):
        for vt, vf, loop in ((0, 0, 2), (2, 0, 2), (0, 2, 2), (2, 2, 2), (1, 1, 1), (0, 0, 0), (3, 1, 2)):
            if first and (vt or vf):
                continue
            cands.append(dict(vt=vt, vf=vf, loop=loop, valid=valid))
    for cnd in cands:
        vt, vf, loop, valid = cnd["vt"], cnd["vf"], cnd["loop"], cnd["valid"]
        sevm = mk_sevm(loop=loop)
        # 0: JUMPI  1: STOP  2: JUMPDEST 3: STOP        (target 2 valid, target 1 invalid)
        ex = mk_ex(sevm, bytes([0x57, 0x00, 0x5B, 0x00]))
        target = 2 if valid else 1
        c = z3.Bool("c")
        answers = {"true": RES[ct], "false": RES[cf]}

        def check(q, c=c, answers=answers):
            return answers["true"] if is_exactly(q, c) else answers["false"]

        ex.check = check
        jid = ex.jumpid()
        if not first:
            ex.jumpis[jid] = {True: vt, False: vf}
        stack = hs.Worklist()
        raised = None
        try:
            sevm.jumpi(ex, stack, target, hb.HalmosBool(c))
        except InvalidJumpDestError as e:
            raised = e
        except Exception as e:  # noqa
            return {"reproduced": True, "detail": f"real SEVM.jumpi raised {type(e).__name__}: {e} for {cnd}, answers ({ct},{cf})", "inputs": cnd}
        pot_t, pot_f = ct != "unsat", cf != "unsat"
        decided = (ct, cf) in (("sat", "unsat"), ("unsat", "sat"))
        want_t = pot_t and (decided or vt < loop)
        want_f = pot_f and (decided or vf < loop)
        want_logged = (pot_t and not want_t) or (pot_f and not want_f)
        got = []
        for s in stack.stack:
            conds = list(s.path.conditions) + list(s.path.pending)
            kind = "true" if any(is_exactly(q, c) for q in conds) else ("false" if any(is_exactly(q, z3.Not(c)) for q in conds) else "?")
            err = s.context.output.error
            got.append((kind, s.pc, type(err).__name__ if err is not None else None))
        exp = []
        exp_raise = False
        if want_t:
            if valid:
                exp.append(("true", target if want_f else target + 1, None))
            elif want_f:
                exp.append(("true", 0, "InvalidJumpDestError"))
            else:
                exp_raise = True
        if want_f and not exp_raise:
            exp.append(("false", 1, None))
        got_n = sorted((k, e) for k, _, e in got)
        exp_n = sorted((k, e) for k, _, e in exp)
        pcs_ok = all(e is not None or (k == "true" and pc in (target, target + 1)) or (k == "false" and pc == 1) for k, pc, e in got)
        logged = jid in sevm.logs.bounded_loops
        if got_n != exp_n or (raised is not None) != exp_raise or logged != want_logged or not pcs_ok:
            return {
                "reproduced": True,
                "detail": f"real SEVM.jumpi with check(c)={ct}, check(not c)={cf}, visited=({vt},{vf}), --loop {loop}, target {'valid' if valid else 'invalid'}: pushed {got}, raised {type(raised).__name__ if raised else None}, bounded_loops logged={logged}; the contract requires successors {exp}, raise={exp_raise}, logged={want_logged}",
                "inputs": dict(cnd, check_true=ct, check_false=cf),
            }
    return {"reproduced": False, "detail": "real SEVM.jumpi agrees with the reference rule on the model and the boundary grid"}
