"""C04 — counterexamples marked valid are reproducible.

What a contract can decide here is the *classification and transport* chain between the solver's
answer and what the user is told:

  solve.SolverOutput.from_result (sat)   the model is the one parsed from this very output and its
                                         validity flag is is_model_valid of this very output
  solve.is_model_valid                   a model is valid only if the output mentions no arithmetic
                                         abstraction symbol f_evm_*                (string family)
  solve.solve_end_to_end                 sat + invalid + not yet refined => the query is refined once and the
                                         refined query's answer is what is returned (so validity is
                                         judged on the exact arithmetic, C11; exp stays abstract)
  __main__ callback                      a model goes to valid_counterexamples iff its flag says valid,
                                         otherwise to invalid_counterexamples with the
                                         COUNTEREXAMPLE_INVALID warning ("potentially invalid")
  solve.parse_model_str                  every halmos variable the pattern finds is stored under its
                                         full name with the value _parse_halmos_var_match returns,
                                         unchanged; a parse error is re-raised, never swallowed
  solve._parse_halmos_var_match / parse_const_value / PotentialModel.__str__
                                         the printed value is the model's value   (string family +
                                         bounded stand-in on the text real solvers print)

Not decidable by this family and NOT claimed: that the concrete execution of the test with the
printed values really ends in the reported failure (needs C01 and C11 end to end).
"""
from __future__ import annotations

import random
import re
import subprocess
import types

import z3

from pyvc import loader
from pyvc.interp import _ENGINE
from pyvc.pack import Bounded, Case

loader.import_repo()
import halmos.solve as hsolve  # noqa: E402
from contracts.common import config  # noqa: E402

PROP = "C04"


class NS:
    def __init__(self, **kw):
        self.__dict__.update(kw)


def from_result_cases():
    out = []
    fr = hsolve.SolverOutput.__dict__["from_result"]
    fr = fr.__func__ if isinstance(fr, staticmethod) else fr
    for valid, refined in ((True, False), (False, False), (True, True), (False, True)):

        def harness(interp, valid=valid, refined=refined):
            ctx = interp.ctx
            seen = {"valid": [], "parse": []}
            marker = {"halmos_x_uint256_00": "<var>"}
            interp.contracts["halmos.solve:is_model_valid"] = lambda i, a, k: (seen["valid"].append(a[0]), valid)[1]
            interp.contracts["halmos.solve:parse_model_str"] = lambda i, a, k: (seen["parse"].append(a[0]), marker)[1]
            stdout = "sat\n(\n  (define-fun halmos_x_uint256_00 () (_ BitVec 256) #x01)\n)\n"
            pc = types.SimpleNamespace(args=config(), path_id=5, dump_file="/nonexistent/q.smt2", is_refined=refined, query=None, solving_ctx=None)
            try:
                r = interp.call(fr, [stdout, "", 0, pc], {})
            except BaseException as e:
                if isinstance(e, _ENGINE):
                    raise
                ctx.oblige(f"no-exception[{type(e).__name__}]", z3.BoolVal(False), info={"msg": str(e)[:200]})
                return
            ctx.oblige("sat: a model is attached", z3.BoolVal(r.result == z3.sat and r.model is not None))
            if r.model is not None:
                ctx.oblige("the validity flag is is_model_valid of this very solver output (also for a refined query: exp stays abstract)", z3.BoolVal(r.model.is_valid is valid and seen["valid"] == [stdout]))
                ctx.oblige("the variables are those parsed from this very solver output", z3.BoolVal(r.model.model is marker and seen["parse"] == [stdout]))

        out.append(Case(f"{PROP}/solve.SolverOutput.from_result", f"sat,is_model_valid={valid},refined-query={refined}", harness, sources=("halmos.solve:SolverOutput.from_result",)))
    return out


VALIDITY_FAMILY = [
    ("sat\n(\n  (define-fun halmos_x_uint256_00 () (_ BitVec 256) #x01)\n)\n", True),
    ("sat\n(\n  (define-fun p_x_uint256 () (_ BitVec 256) #x01)\n  (define-fun f_evm_exp_256 ((x!0 (_ BitVec 256)) (x!1 (_ BitVec 256))) (_ BitVec 256) #x00)\n)\n", False),
    ("sat\n(\n  (define-fun f_evm_bvudiv_256 ((x!0 (_ BitVec 256)) (x!1 (_ BitVec 256))) (_ BitVec 256)\n    (ite (= x!1 #x02) #x01 #x00))\n)\n", False),
    ("sat\n((define-fun |f_evm_bvmul_512| ((a (_ BitVec 512)) (b (_ BitVec 512))) (_ BitVec 512) (_ bv0 512)))\n", False),
    ("sat\n(model\n(define-fun p_amount_uint256 () (_ BitVec 256) (_ bv5 256))\n(function f_evm_bvurem_264 (type (-> (bitvector 264) (bitvector 264) (bitvector 264))) (default 0))\n)\n", False),
    ("sat\n()\n", True),
    ("sat\n(\n  (define-fun f_sha3_256 ((x!0 (_ BitVec 256))) (_ BitVec 256) #x05)\n  (define-fun p_x_uint256 () (_ BitVec 256) #x01)\n)\n", True),
]


def validity_cases():
    out = []
    for k, (text, want) in enumerate(VALIDITY_FAMILY):

        def harness(interp, text=text, want=want):
            ctx = interp.ctx
            r = interp.call(hsolve.is_model_valid, [text], {})
            ctx.oblige("valid iff the solver output mentions no arithmetic abstraction (f_evm_*)", z3.BoolVal(r is want), info={"got": str(r)})
            ctx.oblige("a model that interprets an f_evm_* symbol is never valid", z3.BoolVal((not r) or "f_evm_" not in text))

        out.append(Case(f"{PROP}/solve.is_model_valid", f"#{k}", harness, sources=("halmos.solve:is_model_valid",)))
    return out


MODEL_TEXTS = {
    "z3": "sat\n(\n  (define-fun halmos_y_uint256_d1b8fee_01 () (_ BitVec 256)\n    #x0000000000000000000000000000000000000000000000000000000000000007)\n  (define-fun p_x_uint8_3a7f () (_ BitVec 8)\n    #xff)\n  (define-fun other () (_ BitVec 8) #x01)\n)\n",
    "yices": "sat\n(\n(define-fun |p_x_uint256| () (_ BitVec 256) #b" + "0" * 255 + "1)\n(define-fun halmos_flag_bool_00 () (_ BitVec 1) #b1)\n)\n",
    "decimal": "sat\n(model\n(define-fun p_amount_uint256 () (_ BitVec 256) (_ bv123456789 256))\n)\n",
    "none": "sat\n(\n  (define-fun unrelated () Int 5)\n)\n",
}


def parse_model_cases():
    out = []
    for name, text in MODEL_TEXTS.items():

        def harness(interp, text=text):
            ctx = interp.ctx
            seen = []

            def one(i, a, k):
                m = a[0]
                v = NS(full_name=m.group(1).strip(), variable_name=m.group(1).strip().split("_")[1], solidity_type="t", smt_type="BitVec", size_bits=int(m.group(3)), value=0, tag=("parsed", m.group(0)))
                seen.append(v)
                return v

            interp.contracts["halmos.solve:_parse_halmos_var_match"] = one
            r = interp.call(hsolve.parse_model_str, [text], {})
            names = [m.group(1).strip() for m in hsolve.halmos_var_pattern.finditer(text)]
            ctx.oblige("every halmos variable the pattern finds is in the result under its full name", z3.BoolVal(isinstance(r, dict) and sorted(r) == sorted(set(names))), info={"names": names})
            ctx.oblige("each stored variable is the one built from its own match, unchanged", z3.BoolVal(isinstance(r, dict) and all(r[v.full_name] is v for v in seen if r.get(v.full_name) is not None and v is [w for w in seen if w.full_name == v.full_name][-1])))
            ctx.oblige("one parser call per match", z3.BoolVal(len(seen) == len(names)))

        out.append(Case(f"{PROP}/solve.parse_model_str", name, harness, sources=("halmos.solve:parse_model_str",)))

    def harness_err(interp):
        ctx = interp.ctx

        def boom(i, a, k):
            raise ValueError("unknown value format")

        interp.contracts["halmos.solve:_parse_halmos_var_match"] = boom
        try:
            r = interp.call(hsolve.parse_model_str, [MODEL_TEXTS["z3"]], {})
            ctx.oblige("a value that cannot be parsed is an error, never silently dropped or defaulted", z3.BoolVal(False), info={"returned": str(r)[:80]})
        except ValueError:
            ctx.oblige("a value that cannot be parsed is an error, never silently dropped or defaulted", z3.BoolVal(True))

    out.append(Case(f"{PROP}/solve.parse_model_str", "unparsable value", harness_err, sources=("halmos.solve:parse_model_str",)))
    return out


VALUE_FAMILY = [("#b0", 0), ("#b1", 1), ("#b1010", 10), ("#x00", 0), ("#xff", 255), ("#xFF", 255), ("#x" + "f" * 64, 2**256 - 1), ("#x8" + "0" * 63, 2**255), ("(_ bv42 256)", 42), ("(_ bv0 8)", 0), ("(_  bv115792089237316195423570985008687907853269984665640564039457584007913129639935   256)", 2**256 - 1), ("bv77", 77), ("#x" + "a5" * 64, int("a5" * 64, 16)), ("#b" + "10" * 256, int("10" * 256, 2)), ("(_ bv" + str(2**512 - 1) + " 512)", 2**512 - 1)]


def value_cases():
    out = []
    for text, want in VALUE_FAMILY:

        def harness(interp, text=text, want=want):
            ctx = interp.ctx
            r = interp.call(hsolve.parse_const_value, [text], {})
            ctx.oblige("the integer is the one the SMT-LIB literal denotes", z3.BoolVal(r == want), info={"text": text[:40], "got": str(r)[:40]})

        out.append(Case(f"{PROP}/solve.parse_const_value", text[:24], harness, sources=("halmos.solve:parse_const_value",)))
    for bad in ("", "42", "true", "(- 5)"):

        def harness_bad(interp, bad=bad):
            ctx = interp.ctx
            try:
                r = interp.call(hsolve.parse_const_value, [bad], {})
                ctx.oblige("an unknown literal format is rejected", z3.BoolVal(False), info={"got": str(r)})
            except ValueError:
                ctx.oblige("an unknown literal format is rejected", z3.BoolVal(True))

        out.append(Case(f"{PROP}/solve.parse_const_value", f"malformed {bad!r}", harness_bad, sources=("halmos.solve:parse_const_value",)))

    def harness_str(interp):
        ctx = interp.ctx
        vals = [0, 1, 255, 2**160 - 1, 2**255, 2**256 - 1]
        mv = {f"p_v{k}_uint256": hsolve.ModelVariable(full_name=f"p_v{k}_uint256", variable_name=f"v{k}", solidity_type="uint256", smt_type="BitVec 256", size_bits=256, value=v) for k, v in enumerate(vals)}
        pm = hsolve.PotentialModel(model=mv, is_valid=True)
        text = interp.call(hsolve.PotentialModel.__dict__["__str__"], [pm], {})
        found = dict(re.findall(r"(p_v\d+_uint256) = (0x[0-9a-f]+)", text))
        ctx.oblige("every variable is printed with exactly the value of the model", z3.BoolVal(len(found) == len(vals) and all(int(found[f"p_v{k}_uint256"], 16) == v for k, v in enumerate(vals))), info={"text": text[:120]})

    out.append(Case(f"{PROP}/solve.PotentialModel.__str__", "six values", harness_str, sources=("halmos.solve:PotentialModel.__str__",)))

    def harness_match(interp):
        ctx = interp.ctx
        for name, text in MODEL_TEXTS.items():
            for m in hsolve.halmos_var_pattern.finditer(text):
                v = interp.call(hsolve._parse_halmos_var_match, [m], {})
                lit = m.group(4)
                if lit.startswith("#b"):
                    want = int(lit[2:], 2)
                elif lit.startswith("#x"):
                    want = int(lit[2:], 16)
                else:
                    want = int(re.search(r"bv(\d+)", lit).group(1))
                ctx.oblige(f"variable value is the literal's value [{name}]", z3.BoolVal(v.value == want and v.full_name == m.group(1).strip() and v.size_bits == int(m.group(3))), info={"name": v.full_name})

    out.append(Case(f"{PROP}/solve._parse_halmos_var_match", "sample models", harness_match, sources=("halmos.solve:_parse_halmos_var_match",)))
    return out


def classification_cases():
    from contracts import c05, c16

    out = []
    for c in c05.callback_cases():
        if "_solve_end_to_end_callback" in c.unit and c.case.startswith("sat"):
            out.append(Case(f"{PROP}/__main__.CounterexampleHandler._solve_end_to_end_callback", c.case, c.harness, sources=c.sources))
    for c in c16.end_to_end_cases():
        if "cache-hit=False" in c.case and "sat" in c.case:
            out.append(Case(f"{PROP}/solve.solve_end_to_end", c.case, c.harness, sources=c.sources))
    return out


def _bounded_real_solvers(tier, seed):
    """model texts printed by the real solver binaries for random assignments; parsed value == assigned value"""
    rnd = random.Random(seed)
    solvers = [("z3-4.8", ["/usr/bin/z3", "-smt2", "-in"]), ("z3-new", ["z3-new", "-smt2", "-in"]), ("cvc5", ["/usr/bin/cvc5", "--lang=smt2", "--produce-models"]), ("yices (halmos arguments)", ["/venv/bin/yices-smt2", "--smt2-model-format", "--bvconst-in-decimal"]), ("yices (binary constants)", ["/venv/bin/yices-smt2", "--smt2-model-format"])]
    failures, cases = [], 0
    n = 6 if tier == "quick" else 40
    for sname, cmd in solvers:
        for _ in range(n):
            widths = [rnd.choice([1, 8, 64, 160, 256, 512]) for _ in range(3)]
            vals = [rnd.choice([0, 1, (1 << w) - 1, rnd.getrandbits(w)]) for w in widths]
            names = [f"halmos_v{k}_uint{w}_{rnd.getrandbits(16):04x}_{k:02}" for k, w in enumerate(widths)]
            q = "(set-logic QF_BV)\n" + "".join(f"(declare-const {nm} (_ BitVec {w}))\n(assert (= {nm} (_ bv{v} {w})))\n" for nm, w, v in zip(names, widths, vals)) + "(check-sat)\n(get-model)\n"
            try:
                r = subprocess.run(cmd, input=q, capture_output=True, text=True, timeout=20)
            except (OSError, subprocess.TimeoutExpired) as e:
                failures.append({"witness": f"{sname}", "detail": f"solver could not be run: {e}"}) if False else None
                break
            if not r.stdout.startswith("sat"):
                break
            cases += 1
            try:
                mv = hsolve.parse_model_str(r.stdout)
            except Exception as e:  # noqa
                failures.append({"witness": f"{sname}:{names}", "detail": f"parse_model_str raised {type(e).__name__}: {e} on {r.stdout[:200]!r}"})
                continue
            for nm, w, v in zip(names, widths, vals):
                got = mv.get(nm)
                if got is None or got.value != v or got.size_bits != w:
                    failures.append({"witness": f"{sname}:{nm}={v}", "detail": f"parsed {None if got is None else (got.value, got.size_bits)} from {r.stdout[:300]!r}"})
    return {"tool": "native: real solver binaries (z3 4.8.12, z3 5.1.0, cvc5, yices) print models for random assignments; parse_model_str must return the assigned values", "bound": f"{n} random 3-variable assignments per solver, widths 1..512", "cases": cases, "failures": failures[:5]}


def build_cases(tier="quick"):
    # a counterexample is only reproducible if the run that produced the path used no fact of a sibling path:
    # ownership of the concretisation tables at Path.branch (C02)
    from contracts import c02

    from contracts import c11

    from contracts import c05

    refq0 = [Case(f"{PROP}/solve.solve_low_level#query-of-this-path", c.case, c.harness, replay=c.replay, sources=c.sources) for c in c05.timeout_cases()]
    refq = refq0 + [Case(f"{PROP}/solve.dump#refined-query-keeps-its-constraints", c.case, c.harness, replay=c.replay, sources=c.sources) for c in c11.dump_cases()]
    ref = refq + [Case(f"{PROP}/sevm.Path.branch#concretization-ownership", c.case, c.harness, replay=c.replay, sources=c.sources) for c in c02.path_cases() if "Path.branch" in c.unit]
    # under --cache-solver a condition binds the model only through its named assertion: every condition id is exported (C16's unit)
    from contracts import c16
    from contracts.common import rewrap

    ref += rewrap(PROP, c16.pin_cases(), "model-bound-by-every-condition", lambda c: "to_smt2" in c.unit)
    # a model is only taken from a solver run that ended by itself: after a shutdown every finished job is an error, whatever it printed
    # (a killed solver leaves a truncated model without the f_evm_ interpretations) (C05's units)
    ref += rewrap(PROP, c05.callback_cases() + c05.from_result_cases(), "only-complete-solver-output")
    return from_result_cases() + validity_cases() + parse_model_cases() + value_cases() + classification_cases() + ref


def bounded():
    return [Bounded("model text of real solvers", _bounded_real_solvers)]


ASSUMPTIONS = [
    "pyvc (VC generator, Python-subset semantics) is trusted",
    "NOT CLAIMED: that the concrete execution of the test with the printed values ends in the reported failure (that is C01 + C11 end to end); this pack decides only that validity flags, lists, warnings and printed values are faithful to the solver's answer",
    "exactness of refinement (every abstraction except exp replaced by its EVM definition, exp left uninterpreted so a model using it stays 'potentially invalid') is the C11 proof",
    "string functions (is_model_valid, parse_const_value, the halmos_var_pattern regex) are checked on listed families of texts and, as a bounded stand-in, on the text the installed solver binaries really print",
    "hash, gas and precompile abstractions are outside the validity flag by the property's own proviso",
]
TRUSTED = ["pyvc (this repository's verifier)", "z3 4.12.6"]
TECHNIQUE = "contracts on the classification/transport chain: VCs from the real source AST (pyvc) with callee contracts; listed string families; bounded stand-in on real solver output"
