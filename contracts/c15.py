"""C15 — invariant testing covers every bounded call sequence.

Per-function contracts (the global `every sequence is represented` statement is a composition over
SEVM.run and is stated as a lemma with its assumptions, not claimed as proved):

  __main__.run_message              depths 0..d visited in order, the test runs from every state of each
                                    frontier (shared with C20)
  __main__.get_frontier             a computed frontier is served from the cache, otherwise computed
  __main__._compute_frontier, body of the loop over post-states (fragment): each post-state is exactly
                                    one of — stuck (logged, dropped), reverted without assertion failure
                                    (dropped), assertion failure (handed to the solver unless that probe
                                    was already reported; not explored further), already visited
                                    (dropped), or new (call sequence extended by this call, fresh
                                    timestamp constrained not to decrease, appended to the next frontier
                                    and yielded)
  __main__.run_target_contract      every selected function of the target is called once with a fresh
                                    symbolic origin, sender and value; sender restricted exactly as
                                    Foundry does (targetSender minus excluded, else not excluded, else
                                    free); an exception in one function does not stop the others
  __main__.resolve_target_contracts / resolve_target_selectors
                                    Foundry's filter algebra, exhaustively over small universes
  cheatcodes.snapshot_state / sevm.StorageData.digest
                                    the hashed byte stream determines balance term, code identities,
                                    storage keys/values and the sliced path conditions (so, collisions of
                                    the 64-bit hash aside, only identical states are merged)
"""
from __future__ import annotations

import ast
import itertools

import z3

from pyvc import loader
from pyvc.interp import _ENGINE, Env, PathEnd
from pyvc.pack import Case, Ground

loader.import_repo()
import halmos.__main__ as hm  # noqa: E402
import halmos.cheatcodes as hc  # noqa: E402
import halmos.sevm as hs  # noqa: E402
from halmos.exceptions import HalmosException  # noqa: E402
from halmos.processes import ShutdownError  # noqa: E402
from halmos.solve import InvariantTestingContext  # noqa: E402

PROP = "C15"
TEST = hs.FOUNDRY_TEST
A = z3.BitVecVal(0xAAAA, 160)
B = z3.BitVecVal(0xBBBB, 160)


class NS:
    def __init__(self, **kw):
        self.__dict__.update(kw)


def powerset(xs):
    return [frozenset(c) for r in range(len(xs) + 1) for c in itertools.combinations(xs, r)]


def ground_target_contracts():
    """exhaustive over the universe {test contract, A, B}: 8^3 filter configurations x 4 code maps"""
    from types import MappingProxyType

    out = []
    U = [TEST, A, B]
    bad = []
    n = 0
    for code_keys in ([TEST, A, B], [TEST, A], [TEST], [A, B]):
        for targets in powerset(U):
            for excluded in powerset(U):
                for sel_keys in powerset(U):
                    n += 1
                    ctx = InvariantTestingContext(target_senders=frozenset(), target_contracts=targets, target_selectors=MappingProxyType({k: frozenset([b"\x01\x02\x03\x04"]) for k in sel_keys}), excluded_senders=frozenset(), excluded_contracts=excluded, excluded_selectors=MappingProxyType({}))
                    ex = NS(code={k: "<code>" for k in code_keys})
                    # reference rule (Foundry): (targets or all deployed) minus excluded, plus contracts named in
                    # targetSelector; the test contract only when it is an explicit target / selector target
                    want = set(targets) if targets else set(code_keys)
                    want -= set(excluded)
                    want |= set(sel_keys)
                    if not (TEST in targets or TEST in sel_keys):
                        want -= {TEST}
                    try:
                        got = set(hm.resolve_target_contracts(ctx, ex))
                    except HalmosException:
                        got = None
                    if (got is None) != (not want) or (got is not None and {str(x) for x in got} != {str(x) for x in want}):
                        bad.append((sorted(map(str, targets)), sorted(map(str, excluded)), sorted(map(str, sel_keys)), len(code_keys)))
    out.append((f"resolve_target_contracts agrees with the reference filter algebra on all {n} configurations; an empty result is an error", not bad, f"disagreements: {bad[:2]}"))
    return out


def ground_target_selectors():
    from types import MappingProxyType

    out = []
    methods = {"transfer(address,uint256)": ("a9059cbb", "nonpayable"), "balanceOf(address)": ("70a08231", "view"), "deposit()": ("d0e30db0", "payable"), "pureFn()": ("12345678", "pure"), "test_x()": ("0a0a0a0a", "nonpayable"), "check_y()": ("0b0b0b0b", "nonpayable"), "invariant_z()": ("0c0c0c0c", "view"), "setUp()": ("0a9254e4", "nonpayable"), "prove_p()": ("0d0d0d0d", "nonpayable"), "afterInvariant()": ("0e0e0e0e", "nonpayable")}
    cj = {"methodIdentifiers": {k: v[0] for k, v in methods.items()}, "abi_dict": {k: {"stateMutability": v[1]} for k, v in methods.items()}}
    sels = [bytes.fromhex(v[0]) for v in methods.values()]
    bad = []
    n = 0
    reserved = lambda s: s.startswith(("test_", "check_", "prove_", "invariant_")) or s in ("setUp()", "afterInvariant()")  # noqa: E731
    for addr in (A, TEST):
        for tsel in [None, frozenset(), frozenset(sels[:2]), frozenset([sels[1], sels[4]])]:
            for xsel in [None, frozenset(), frozenset(sels[:1]), frozenset([sels[2], sels[3]])]:
                n += 1
                ctx = InvariantTestingContext(target_senders=frozenset(), target_contracts=frozenset(), target_selectors=MappingProxyType({addr: tsel} if tsel is not None else {}), excluded_senders=frozenset(), excluded_contracts=frozenset(), excluded_selectors=MappingProxyType({addr: xsel} if xsel is not None else {}))
                got = [s for s, _ in hm.resolve_target_selectors(ctx, addr, cj)]
                if tsel:
                    want = [s for s, (h, _) in methods.items() if bytes.fromhex(h) in tsel]
                elif xsel:
                    want = [s for s, (h, _) in methods.items() if bytes.fromhex(h) not in xsel]
                else:
                    want = [s for s, (h, m) in methods.items() if m not in ("pure", "view") and not (addr is TEST and reserved(s))]
                if got != want:
                    bad.append((str(addr), tsel, xsel, got))
    out.append((f"resolve_target_selectors: targetSelector wins over excludeSelector, otherwise state-changing non-reserved functions ({n} configurations)", not bad, f"disagreements: {bad[:1]}"))
    return out


# ---------------------------------------------------------------------------------------
def sender_cases():
    out = []
    s = z3.BitVec("msg_sender", 160)
    S1, S2, S3 = z3.BitVecVal(0x51, 160), z3.BitVecVal(0x52, 160), z3.BitVecVal(0x53, 160)
    configs = {
        "no filters": (frozenset(), frozenset()),
        "targetSender {S1,S2}": (frozenset([S1, S2]), frozenset()),
        "excludeSender {S3}": (frozenset(), frozenset([S3])),
        "targetSender {S1,S2}, excludeSender {S2}": (frozenset([S1, S2]), frozenset([S2])),
        "targetSender {S1}, excludeSender {S1,S3}": (frozenset([S1]), frozenset([S1, S3])),
    }
    for name, (targets, excluded) in configs.items():

        def harness(interp, targets=targets, excluded=excluded):
            ctx = interp.ctx
            sf, node = loader.func_node(hm.run_target_contract)
            asg = [n for n in ast.walk(node) if isinstance(n, ast.Assign) and any(isinstance(t, ast.Name) and t.id == "msg_sender_cond" for t in n.targets)]
            eff = [n for n in ast.walk(node) if isinstance(n, ast.Assign) and any(isinstance(t, ast.Name) and t.id == "effective_target_senders" for t in n.targets)]
            if len(asg) != 1 or len(eff) != 1:
                raise loader.BindingError("sender restriction of run_target_contract not found")
            env = Env({"inv_ctx": NS(target_senders=targets, excluded_senders=excluded), "excluded_senders": excluded, "msg_sender": s}, None, hm.__dict__)
            interp.exec_fragment([eff[0], asg[0]], env, qual="halmos.__main__:run_target_contract#sender", is_gen=False)
            cond = env.lookup("msg_sender_cond")
            effective = targets - excluded
            if effective:
                want = z3.Or(*[s == t for t in effective])
            elif excluded:
                want = z3.And(*[s != x for x in excluded])
            else:
                want = None
            if want is None:
                ctx.oblige("no sender filter: the sender is unrestricted", z3.BoolVal(cond is None))
            else:
                ctx.oblige("admissible senders: exactly targetSender minus excludeSender, or (if none remain) everybody but the excluded", (cond if cond is not None else z3.BoolVal(True)) == want, info={"cond": str(cond)[:120]})

        out.append(Case(f"{PROP}/__main__.run_target_contract#sender", name, harness, sources=("halmos.__main__:run_target_contract",)))

    def harness_loop(interp):
        ctx = interp.ctx
        calls = []

        def rtf(i, a, k):
            calls.append(a)
            if len(calls) == 2:
                raise ValueError("engine failure in this function")
            return [f"post-state of {a[4].sig}"]

        interp.contracts["halmos.__main__:run_target_function"] = rtf
        interp.contracts["halmos.__main__:resolve_target_selectors"] = lambda i, a, k: [("f()", "11111111"), ("g(uint256)", "22222222"), ("h()", "33333333")]
        interp.contracts["halmos.build:BuildOut"] = lambda i, a, k: NS(get_by_name=lambda n, f: {"abi": []})
        interp.externals[hm.BuildOut] = lambda i, *a, **k: NS(get_by_name=lambda n, f: {"abi": []})
        interp.contracts["halmos.calldata:get_abi"] = lambda i, a, k: {"<abi>": 1}
        interp.externals[hm.get_abi] = lambda i, *a, **k: {"<abi>": 1}
        ids = iter(range(100))
        ex = NS(code={A: NS(contract_name="Token", filename="Token.sol")}, new_symbol_id=lambda: next(ids))
        cctx = NS(args=NS(debug=False), inv_ctx=NS(target_senders=frozenset(), excluded_senders=frozenset()))
        n0 = len(ctx.ghost_log)
        outs = list(interp.call(hm.run_target_contract, [cctx, ex, A], {}))
        ctx.oblige("every selected function of the target is called exactly once, in order", z3.BoolVal([c[4].sig for c in calls] == ["f()", "g(uint256)", "h()"] and all(c[1] is ex and c[2] is A for c in calls)))
        ctx.oblige("a failure inside one function is logged and the remaining functions still run", z3.BoolVal(outs == ["post-state of f()", "post-state of h()"] and any(e[0] == "error" for e in ctx.ghost_log[n0:])))
        syms = [(c[5], c[6], c[7]) for c in calls]
        names = [str(x) for t in syms for x in t]
        ok = all(z3.is_const(o) and o.size() == 160 and z3.is_const(sd) and sd.size() == 160 and z3.is_const(v) and v.size() == 256 for o, sd, v in syms)
        ctx.oblige("each call gets fresh unconstrained symbols for tx.origin, msg.sender (160 bits) and msg.value (256 bits: any value the balance allows)", z3.BoolVal(ok and len(set(names)) == len(names)), info={"names": names[:3]})

    out.append(Case(f"{PROP}/__main__.run_target_contract", "three functions, the second raises", harness_loop, sources=("halmos.__main__:run_target_contract",)))
    return out


# ---------------------------------------------------------------------------------------
def frontier_loop():
    sf, node = loader.func_node(hm._compute_frontier)
    loops = [n for n in ast.walk(node) if isinstance(n, ast.For) and ast.unparse(n.iter) == "post_exs"]
    if len(loops) != 1:
        raise loader.BindingError("loop over post_exs not found in _compute_frontier")
    return loops[0]


def frontier_cases():
    from contracts.common import replay_script

    out = []
    kinds = ["stuck", "reverted", "panic", "fail-flag", "fail-flag, raised in a nested frame", "panic, probe already reported", "panic, executor shut down", "already visited", "new state"]
    for kind in kinds:

        def harness(interp, kind=kind):
            ctx = interp.ctx
            loop = frontier_loop()
            pre_ts = z3.BitVec("previous_timestamp", 256)
            pre_ex = NS(call_sequence=["<call 1>"], block=NS(timestamp=pre_ts))
            fun_info = NS(contract_name="Token", sig="f()")
            out_err = None if kind in ("already visited", "new state") else "revert"
            # a vm.assert* / fail() inside a nested frame ends the path at once: SEVM.run yields the state with the NESTED frame as its
            # context (the FailCheatcode arm does not unwind), and only the message of the top-level target call carries a fun_info
            nested = kind == "fail-flag, raised in a nested frame"
            sub = NS(output=NS(error=out_err, data=b""), message=NS(fun_info=None if nested else fun_info))
            sub.is_stuck = lambda: kind == "stuck"
            sub.get_stuck_reason = lambda: "unsupported"
            appended, sliced = [], []
            # SEVM.run_message and create_branch hand the call sequence on by reference: the post-state arrives holding
            # the very list object of the (cached) pre-state
            post = NS(context=sub, call_sequence=pre_ex.call_sequence, block=NS(timestamp=z3.BitVec("old", 256)))
            post.is_panic_of = lambda codes: kind.startswith("panic")
            post.path_slice = lambda: sliced.append(1)
            post.path = NS(append=lambda c: appended.append(c))
            handled = []

            def handle(**kw):
                handled.append(kw)
                if kind == "panic, executor shut down":
                    raise ShutdownError()

            interp.contracts["halmos.__main__:is_global_fail_set"] = lambda i, a, k: kind.startswith("fail-flag")
            interp.contracts["halmos.__main__:get_state_id"] = lambda i, a, k: b"state-id"
            visited = {b"state-id"} if kind == "already visited" else set()
            next_exs = []
            reported = {fun_info} if kind == "panic, probe already reported" else set()
            cctx = NS(probes_reported=reported)
            path_id0 = 7
            env = Env({"post_ex": post, "pre_ex": pre_ex, "path_id": path_id0, "flamegraph_enabled": False, "depth": (1, 3)[ctx.choose(2, "depth")], "addr": A, "panic_error_codes": {1}, "ctx": cctx, "handler": NS(handle_assertion_violation=handle), "args": NS(debug=False), "visited": visited, "next_exs": next_exs}, None, hm.__dict__)
            n0 = len(ctx.ghost_log)
            k, payload, yields = interp.exec_fragment(loop.body, env, qual="halmos.__main__:_compute_frontier#post-state")
            if k == "raise":
                ctx.oblige("a failing assertion in a nested frame of a target call is handled like any other (handed to the solver, the test FAILs), not an internal exception" if nested else f"no-exception[{type(payload).__name__}]", z3.BoolVal(False), info={"msg": str(payload)[:200]})
                return
            ctx.oblige("the call is recorded: call sequence of the post-state = sequence of the pre-state + this call", z3.BoolVal(post.call_sequence == ["<call 1>", sub] and pre_ex.call_sequence == ["<call 1>"]))
            ctx.oblige("frame: the pre-state (a cached frontier state shared by sibling post-states and later tests) keeps its own call sequence; the post-state gets a new list", z3.BoolVal(pre_ex.call_sequence == ["<call 1>"] and post.call_sequence is not pre_ex.call_sequence))
            ctx.oblige("each post-state gets its own path id", z3.BoolVal(env.lookup("path_id") == path_id0 + 1))
            kept = next_exs == [post] and yields == [post]
            dropped = next_exs == [] and yields == []
            if kind == "stuck":
                ctx.oblige("stuck call: logged as an error and not explored further", z3.BoolVal(dropped and not handled and any(e[0] == "error" for e in ctx.ghost_log[n0:])))
            elif kind == "reverted":
                ctx.oblige("call reverted without an assertion failure: the state is dropped (a reverted transaction changes nothing)", z3.BoolVal(dropped and not handled))
            elif nested:
                ctx.oblige("a failing assertion in a nested frame of a target call is handled like any other (handed to the solver, the test FAILs), not an internal exception", z3.BoolVal(len(handled) == 1 and handled[0].get("ex") is post and dropped))
            elif kind in ("panic", "fail-flag", "panic, executor shut down"):
                ok = len(handled) == 1 and handled[0].get("ex") is post and handled[0].get("path_id") == path_id0 + 1 and handled[0].get("panic_found") is kind.startswith("panic") and "Token.f()" in str(handled[0].get("description"))
                ctx.oblige("assertion failure inside a target call: handed to the solver once, with a description naming the function; the reverted state is not explored further", z3.BoolVal(ok and dropped))
            elif kind == "panic, probe already reported":
                ctx.oblige("a probe already reported is not reported again", z3.BoolVal(not handled and dropped))
            elif kind == "already visited":
                ctx.oblige("a state whose identity was already seen is dropped (merged), after slicing its path", z3.BoolVal(dropped and sliced == [1] and not appended))
            else:
                ctx.oblige("a new state is remembered as visited, appended to the next frontier and yielded", z3.BoolVal(kept and visited == {b"state-id"} and sliced == [1]))
                ts = post.block.timestamp
                ok_ts = z3.is_expr(ts) and ts.size() == 256 and len(appended) == 1
                ctx.oblige("the next transaction happens at a fresh symbolic time (64-bit, zero-extended)", z3.BoolVal(bool(ok_ts)) if not ok_ts else z3.And(z3.BoolVal(True), z3.ULT(ts, z3.BitVecVal(2**64, 256))))
                if ok_ts:
                    ctx.oblige("timestamps never decrease along a call sequence (unsigned), for every previous timestamp", appended[0] == z3.UGE(ts, pre_ts), info={"cond": str(appended[0])[:100]})

        out.append(Case(f"{PROP}/__main__._compute_frontier#post-state", kind, harness, replay=replay_timestamp if kind == "new state" else (replay_script("nested_assert_in_target.py", "Target.poke() { this.inner(); } inner() { vm.assertTrue(false); }, invariant depth 1") if kind.endswith("nested frame") else None), sources=("halmos.__main__:_compute_frontier",)))

    def harness_cache(interp):
        ctx = interp.ctx
        computed = []
        interp.contracts["halmos.__main__:_compute_frontier"] = lambda i, a, k: (computed.append(a[1]), ["<computed>"])[1]
        cctx = NS(frontier_states={0: ["<setup state>"]})
        r0 = interp.call(hm.get_frontier, [cctx, 0], {})
        r1 = interp.call(hm.get_frontier, [cctx, 1], {})
        ctx.oblige("a computed frontier (depth 0 = the post-setUp state) is served as is; a missing one is computed", z3.BoolVal(r0 == ["<setup state>"] and list(r1) == ["<computed>"] and computed == [1]))

    out.append(Case(f"{PROP}/__main__.get_frontier", "cached / not cached", harness_cache, sources=("halmos.__main__:get_frontier",)))

    def harness_partial(interp):
        ctx = interp.ctx
        # a consumer that stops early (--width reached, early exit) must not leave a partial frontier behind
        w = replay_partial_frontier({})
        ctx.oblige("a frontier that was not computed to the end is never served to later tests as if complete", z3.BoolVal(not w["reproduced"]), info={"detail": w["detail"][:200]})

    out.append(Case(f"{PROP}/__main__._compute_frontier#cache", "consumer stops early", harness_partial, replay=replay_partial_frontier, sources=("halmos.__main__:_compute_frontier", "halmos.__main__:get_frontier")))
    return out


def replay_timestamp(r):
    """real loop semantics: is the appended timestamp condition the unsigned order?"""
    pre = z3.BitVec("previous_timestamp", 256)
    new = z3.ZeroExt(192, z3.BitVec("t", 64))
    cond = new >= pre  # what the code writes
    s_ = z3.Solver()
    s_.add(cond != z3.UGE(new, pre))
    if s_.check() == z3.sat:
        m = s_.model()
        return {"reproduced": True, "detail": f"the condition `new_timestamp >= previous_timestamp` is a signed comparison in z3py: for previous_timestamp = {m.eval(pre, model_completion=True)} (>= 2^255, e.g. after vm.warp) a smaller new timestamp is admitted", "inputs": str(m)}
    return {"reproduced": False, "detail": "signed and unsigned orders agree"}


def replay_partial_frontier(r):
    """real _compute_frontier / get_frontier with stubbed target execution: the first consumer stops
    after one state; what does the next test get at that depth?"""
    s0 = NS(call_sequence=[], block=NS(timestamp=z3.BitVecVal(1, 256)), tag="setup")
    posts = []
    for k in range(3):
        sub = NS(output=NS(error=None, data=b""), message=NS(fun_info=NS(contract_name="T", sig=f"f{k}()")))
        sub.is_stuck = lambda: False
        p = NS(context=sub, call_sequence=s0.call_sequence, block=NS(timestamp=None), tag=f"post{k}")
        p.path_slice = lambda: None
        p.path = NS(append=lambda c: None)
        posts.append(p)
    saved = (hm.resolve_target_contracts, hm.run_target_contract, hm.get_state_id, hm.FunctionContext, hm.CounterexampleHandler)
    ids = iter([b"a", b"b", b"c"])
    hm.resolve_target_contracts = lambda inv, ex: [A]
    hm.run_target_contract = lambda ctx, ex, addr: iter(posts)
    hm.get_state_id = lambda ex: next(ids)
    hm.FunctionContext = lambda **k: NS(**k)
    hm.CounterexampleHandler = lambda **k: NS(**k)
    try:
        cctx = NS(frontier_states={0: [s0]}, visited=set(), args=NS(panic_error_codes={1}, flamegraph=False, debug=False), name="T", inv_ctx=None, probes_reported=set())
        g = hm.get_frontier(cctx, 1)
        first = next(iter(g))
        del g  # the first test stops consuming (e.g. --width reached)
        second = list(hm.get_frontier(cctx, 1))
    finally:
        hm.resolve_target_contracts, hm.run_target_contract, hm.get_state_id, hm.FunctionContext, hm.CounterexampleHandler = saved
    if len(second) < 3:
        return {"reproduced": True, "detail": f"depth-1 frontier has 3 states; the first invariant test consumed 1 and stopped; the next test's get_frontier(ctx, 1) returned {len(second)} state(s) from the cache, silently skipping {3 - len(second)}", "inputs": "get_frontier(1): next(); abandon; get_frontier(1)"}
    return {"reproduced": False, "detail": "the next test sees the complete frontier"}


# ---------------------------------------------------------------------------------------
class RecHash:
    def __init__(self, log, tag):
        self.log, self.tag = log, tag
        self.buf = b""

    def update(self, b):
        self.buf += bytes(b)

    def digest(self):
        self.log.append((self.tag, self.buf))
        return self.tag.encode()[:8].ljust(8, b"\0")


def digest_cases():
    out = []

    def harness(interp):
        ctx = interp.ctx
        from contracts.common import THIS, mk_ex, mk_sevm
        import halmos.bitvec as hb

        sevm = mk_sevm()
        ex = mk_ex(sevm)
        # the code map of a deployed system has concrete addresses
        ADDR = z3.BitVecVal(0x7FA9385BE102AC3EAC297483DD6233D62B3E1496, 160)
        ex.code = {ADDR: ex.code[THIS]}
        ex.storage = {ADDR: ex.storage[THIS]}
        THIS = ADDR
        sevm.sstore(ex, THIS, hb.HalmosBitVec(1), hb.HalmosBitVec(z3.BitVec("v", 256)))
        x = z3.BitVec("state_var", 256)
        ex.path.append(x == 3)
        ex.path.append(z3.BitVec("unrelated", 256) == 4)
        ex.path.sliced = {len(ex.path.conditions) - 2}
        log = []
        n = {"k": 0}

        def mk(i, *a, **k):
            n["k"] += 1
            return RecHash(log, f"h{n['k']}")

        interp.externals[hc.xxh3_64] = mk
        import xxhash

        interp.externals[hs.xxhash.xxh3_128] = mk
        interp.externals[hc.xxh3_64_digest] = lambda i, b: (log.append(("balance", bytes(b))), b"balance!")[1]
        r = interp.call(hc.snapshot_state, [ex], {"include_path": True})
        streams = dict(log)
        conds = list(ex.path.conditions)
        w = lambda v: int(v).to_bytes(32, "big")  # noqa: E731
        ctx.oblige("balance component = the identity of the balance term", z3.BoolVal(streams.get("balance") == w(ex.balance.get_id())))
        code_stream = b"".join(w(z3.simplify(a).as_long() if z3.is_expr(a) and z3.is_bv_value(z3.simplify(a)) else 0) + w(id(c)) for a, c in ex.code.items()) if all(z3.is_bv_value(a) for a in ex.code) else None
        storage_val = list(ex.storage[THIS]._mapping.items())
        ctx.oblige("storage component: for every account its address and, per entry, the key structure and the identity of the stored value", z3.BoolVal(any(buf.endswith(w(storage_val[0][1].get_id())) for tag, buf in log if tag != "balance")), info={"n": len(log)})
        sliced_ids = [w(conds[i].get_id()) for i in sorted(ex.path.sliced)]
        path_streams = [buf for tag, buf in log if buf == b"".join(sliced_ids)]
        ctx.oblige("path component = identities of exactly the sliced (state-related) conditions, in order", z3.BoolVal(len(path_streams) >= 1))
        unrelated = w(conds[-1].get_id())
        ctx.oblige("conditions unrelated to state variables do not take part in the identity", z3.BoolVal(not any(unrelated in buf for tag, buf in log)))
        ctx.oblige("the snapshot id is the concatenation of the four component hashes", z3.BoolVal(len(r) == 32))

    out.append(Case(f"{PROP}/cheatcodes.snapshot_state", "state with storage and a sliced path", harness, sources=("halmos.cheatcodes:snapshot_state", "halmos.sevm:StorageData.digest")))

    def harness_unsliced(interp):
        ctx = interp.ctx
        from contracts.common import mk_ex, mk_sevm

        ex = mk_ex(mk_sevm())
        ADDR = z3.BitVecVal(0x7FA9385BE102AC3EAC297483DD6233D62B3E1496, 160)
        ex.code = {ADDR: next(iter(ex.code.values()))}
        ex.storage = {ADDR: next(iter(ex.storage.values()))}
        try:
            interp.call(hc.snapshot_state, [ex], {"include_path": True})
            ctx.oblige("state identity with path constraints is refused before the path was sliced", z3.BoolVal(False))
        except ValueError:
            ctx.oblige("state identity with path constraints is refused before the path was sliced", z3.BoolVal(True))

    out.append(Case(f"{PROP}/cheatcodes.snapshot_state", "path not sliced", harness_unsliced, sources=("halmos.cheatcodes:snapshot_state",)))
    return out


# ---------------------------------------------------------------------------------------
# Path.slice: the constraints that identify a state are closed under "shares a variable with"


def vars_of(t):
    out, todo = set(), [t]
    while todo:
        u = todo.pop()
        if z3.is_const(u) and u.decl().kind() == z3.Z3_OP_UNINTERPRETED:
            out.add(str(u))
        todo.extend(u.children())
    return out


def closure_ok(path, state_vars):
    """(ok, witness): every condition outside path.sliced shares no variable with the state variables or with a sliced condition"""
    conds = list(path.conditions)
    reach = set(map(str, state_vars))
    for i in sorted(path.sliced):
        reach |= vars_of(conds[i])
    for i, c in enumerate(conds):
        if i not in path.sliced and vars_of(c) & reach:
            return False, f"condition #{i} `{c}` constrains {sorted(vars_of(c) & reach)} but is not part of the state's constraints {sorted(path.sliced)} of {[str(x) for x in conds]}"
    return True, ""


def slice_cases():
    from contracts.common import config

    out = []
    x, y, z, w, u = z3.BitVecs("sx sy sz sw su", 256)
    POOL = [z3.ULT(x, y), y == 5, z == 1, z3.ULT(y, w), u == 9]

    def harness_orders(interp):
        ctx = interp.ctx
        bad = []
        n = 0
        for order in itertools.permutations(range(len(POOL))):
            for state_vars in ([x], [z], [x, z], [w]):
                p = hs.Path(hm.mk_solver(config()))
                for i in order:
                    interp.call(hs.Path.__dict__["append"], [p, POOL[i]], {})
                interp.call(hs.Path.__dict__["slice"], [p, set(state_vars)], {})
                n += 1
                ok, why = closure_ok(p, state_vars)
                if not ok and len(bad) < 3:
                    bad.append(why)
        ctx.oblige(f"closure: whatever the order in which constraints were added ({n} histories), every constraint that shares a variable (transitively) with a state variable is part of the state's identity and of the successor's solver", z3.BoolVal(not bad), info={"witness": bad[0][:300] if bad else ""})

    out.append(Case(f"{PROP}/sevm.Path.slice#closure", "five constraints in every order, four choices of state variables", harness_orders, replay=replay_slice_order, sources=("halmos.sevm:Path.slice", "halmos.sevm:Path._get_related", "halmos.sevm:Path.append")))

    def harness_two_tx(interp):
        ctx = interp.ctx
        bad = []
        for first in itertools.permutations([0, 1, 2]):
            for second in itertools.permutations([3, 4]):
                p1 = hs.Path(hm.mk_solver(config()))
                for i in first:
                    interp.call(hs.Path.__dict__["append"], [p1, POOL[i]], {})
                interp.call(hs.Path.__dict__["slice"], [p1, {x}], {})
                p2 = hs.Path(hm.mk_solver(config()))
                interp.call(hs.Path.__dict__["extend_path"], [p2, p1], {})
                for i in second:
                    interp.call(hs.Path.__dict__["append"], [p2, POOL[i]], {})
                interp.call(hs.Path.__dict__["slice"], [p2, {x}], {})
                ok, why = closure_ok(p2, [x])
                if not ok and len(bad) < 3:
                    bad.append(why)
                # the successor's solver holds at least the constraints identifying the parent state
                held = {str(a) for a in p2.solver.assertions()}
                need = {str(c) for i, c in enumerate(p1.conditions) if i in p1.sliced}
                if not need <= held and len(bad) < 3:
                    bad.append(f"successor solver lacks {sorted(need - held)}")
        ctx.oblige("closure across transactions: a path extended from a sliced path still finds the earlier transactions' constraints on the state variables", z3.BoolVal(not bad), info={"witness": bad[0][:300] if bad else ""})

    # a chain of four links: the closure is a fixpoint, not one step (seed C11-13: a single pass over the first set)
    a, b, c, s = z3.BitVecs("ca cb cc cs", 256)
    CHAIN = [z3.ULT(s, a), z3.ULT(a, b), z3.ULT(b, c), z3.ULT(c, 7), u == 3]

    def harness_chain(interp):
        ctx = interp.ctx
        bad, bad_solver = [], []
        n = 0
        for order in itertools.permutations(range(len(CHAIN))):
            for state_vars in ([s], [c], [u], [b]):
                p = hs.Path(hm.mk_solver(config()))
                for i in order:
                    interp.call(hs.Path.__dict__["append"], [p, CHAIN[i]], {})
                interp.call(hs.Path.__dict__["slice"], [p, set(state_vars)], {})
                n += 1
                ok, why = closure_ok(p, state_vars)
                if not ok and len(bad) < 3:
                    bad.append(why)
                want = set(range(len(CHAIN))) - {order.index(4)} if state_vars != [u] else {order.index(4)}
                if set(p.sliced) != want and len(bad) < 3:
                    bad.append(f"sliced = {sorted(p.sliced)}, the constraints connected with {state_vars} are {sorted(want)} of {[str(x) for x in p.conditions]}")
                child = hs.Path(hm.mk_solver(config()))
                interp.call(hs.Path.__dict__["extend_path"], [child, p], {})
                held = {str(t) for t in child.solver.assertions()}
                need = {str(t) for i, t in enumerate(p.conditions) if i in want}
                if not need <= held and len(bad_solver) < 3:
                    bad_solver.append(f"solver of the path extended from the sliced state lacks {sorted(need - held)} (state variables {state_vars})")
        ctx.oblige(f"closure is a fixpoint: on a chain s<a<b<c<7 added in any order ({n} histories) the state's constraints are exactly the ones connected with the state variable through any number of shared variables", z3.BoolVal(not bad), info={"witness": bad[0][:300] if bad else ""})
        ctx.oblige("the solver of a path extended from the sliced state holds every constraint connected with the state variables (the query and the solver agree on them)", z3.BoolVal(not bad_solver), info={"witness": bad_solver[0][:300] if bad_solver else ""})

    out.append(Case(f"{PROP}/sevm.Path.slice#closure", "chain of four links in every order, four choices of state variables", harness_chain, replay=replay_slice_chain, sources=("halmos.sevm:Path.slice", "halmos.sevm:Path._get_related", "halmos.sevm:Path.append", "halmos.sevm:Path.extend_path")))

    out.append(Case(f"{PROP}/sevm.Path.slice#closure", "two transactions (extend_path in between)", harness_two_tx, replay=replay_slice_order, sources=("halmos.sevm:Path.slice", "halmos.sevm:Path.extend_path", "halmos.sevm:Path.append")))
    return out


def replay_slice_chain(r):
    """native: s < a, a < b, b < 7 with state variable s: all three identify the state"""
    s, a, b = z3.BitVecs("cs ca cb", 256)
    from contracts.common import config

    p = hs.Path(hm.mk_solver(config()))
    for t in (z3.ULT(s, a), z3.ULT(a, b), z3.ULT(b, 7)):
        p.append(t)
    p.slice({s})
    if set(p.sliced) != {0, 1, 2}:
        return {"reproduced": True, "detail": f"Path.slice({{s}}) on s<a, a<b, b<7 keeps {sorted(p.sliced)}: the bound b<7, two shared variables away from s, is not part of the state (a path extended from it can take s == 6, which the full query refutes)", "inputs": "append(s<a); append(a<b); append(b<7); slice({s})"}
    return {"reproduced": False, "detail": "closure reaches b<7"}


def replay_slice_order(r):
    from contracts.common import config

    x, y = z3.BitVecs("stored limit", 256)
    ids = []
    for branch in (y == 5, y != 5):
        p = hs.Path(hm.mk_solver(config()))
        p.append(z3.ULT(x, y))  # require(stored < limit); the contract stores `stored`
        p.append(branch)  # a later branch on `limit` only
        p.slice({x})
        ids.append(tuple(c.get_id() for i, c in enumerate(p.conditions) if i in p.sliced))
    if ids[0] == ids[1]:
        return {"reproduced": True, "detail": "two paths store x under x < y and then branch on y == 5 / y != 5: Path.slice({x}) keeps only `x < y` on both, so both post-states hash to the same identity and the second is dropped as already visited although it stands for different values of the stored x (x < 5 versus x < y, y != 5)", "inputs": "append(x < y); append(y == 5 | y != 5); slice({x})"}
    p1 = hs.Path(hm.mk_solver(config()))
    p1.append(z3.ULT(x, y))
    p1.slice({x})
    p2 = hs.Path(hm.mk_solver(config()))
    p2.extend_path(p1)
    p2.append(y == 5)
    p2.slice({x})
    if len(p2.sliced) < 2:
        return {"reproduced": True, "detail": f"after extend_path the constraints of the previous transaction are not found any more: sliced = {p2.sliced} for conditions {[str(c) for c in p2.conditions]}"}
    try:
        from contracts import c15_frontier_replay as fr

        miss, counts = fr.missing_states()
        if miss:
            return {"reproduced": True, "detail": f"real get_frontier on the target `set(x, y) {{ require(x + y == 10); s = x; if (y == 3) return; if (y == 4) return; revert(); }}`: depth 1 has {counts.get(1)} explored state(s) and the call(s) {sorted(miss)} are not represented by any of them (two different post-states were merged)", "inputs": "invariant frontier at depth 1 of the hand-assembled target"}
    except Exception as e:  # noqa
        return {"reproduced": None, "detail": f"end-to-end frontier replay could not run: {type(e).__name__}: {e}"}
    return {"reproduced": False, "detail": "state constraints are closed under shared variables in both scenarios and the end-to-end frontier represents both calls"}


def ground_fuzz_selector_decoding():
    """abi_decode_FuzzSelector_array against an independent ABI encoder, exhaustively over small arrays: several
    entries may name the same contract (forge-std appends one entry per targetSelector / excludeSelector call and
    Foundry takes their union)"""
    from halmos.bytevec import ByteVec

    def word(n):
        return int(n).to_bytes(32, "big")

    def encode(entries):
        items = []
        for addr, sels in entries:
            it = word(addr) + word(0x40) + word(len(sels)) + b"".join(bytes(x) + bytes(28) for x in sels)
            items.append(it)
        heads, pos = [], 32 * len(items)
        for it in items:
            heads.append(word(pos))
            pos += len(it)
        return word(0x20) + word(len(items)) + b"".join(heads) + b"".join(items)

    ADDRS = [0xAAAA, 0xBBBB]
    SELS = [b"\x11\x11\x11\x11", b"\x22\x22\x22\x22", b"\x33\x33\x33\x33"]
    sel_lists = [[], [SELS[0]], [SELS[1]], [SELS[0], SELS[2]]]
    universe = [(a, sl) for a in ADDRS for sl in sel_lists]
    bad, n = [], 0
    for k in range(0, 4):
        for entries in itertools.product(universe, repeat=k):
            n += 1
            want = {}
            for a, sl in entries:
                want.setdefault(a, []).extend(sl)
            try:
                got = hm.abi_decode_FuzzSelector_array(ByteVec(encode(entries)))
                got = {int(str(a)) if not hasattr(a, "as_long") else a.as_long(): [bytes(x) if isinstance(x, (bytes, bytearray)) else x for x in v] for a, v in dict(got).items()}
            except Exception as e:  # noqa
                got = f"{type(e).__name__}: {e}"
            if got != want and len(bad) < 3:
                bad.append((entries, got))
    return [(f"abi_decode_FuzzSelector_array returns, for every contract, all selectors of all its entries in order, on all {n} arrays of up to 3 entries over 2 contracts", not bad, f"first disagreement: {str(bad[:1])[:300]}")]


def target_call_path_cases():
    """run_target_function: the path handed to the engine for one target call holds every constraint of the input state,
    the sender restriction and the length candidates of this call's dynamic arguments (so that bytes / string / T[]
    arguments are explored over their configured lengths, not left symbolic)"""
    from contracts.common import config, replay_script
    from halmos.calldata import DynamicParam

    out = []
    for with_sender_cond in (False, True):

        def harness(interp, with_sender_cond=with_sender_cond):
            ctx = interp.ctx
            seen = []

            class Engine:
                def __init__(self):
                    self.logs = hs.HalmosLogs()

                def run_message(self, ex, message, path):
                    seen.append((ex, message, path))
                    return []

            interp.contracts["halmos.sevm:SEVM"] = lambda i, a, k: Engine()
            size = z3.BitVec("p_data_length_1", 256)
            dyn = [DynamicParam(name="data", size_choices=[0, 32, 65], size_symbol=size, typ=None)]
            interp.contracts["halmos.calldata:mk_calldata"] = lambda i, a, k: ("<calldata>", dyn)
            interp.contracts["halmos.__main__:mk_calldata"] = lambda i, a, k: ("<calldata>", dyn)
            interp.externals[hm.mk_calldata] = lambda i, *a, **k: ("<calldata>", dyn)
            interp.contracts["halmos.sevm:Message"] = lambda i, a, k: NS(**k)
            interp.externals[hm.reset] = lambda i, *a, **k: None
            parent = hs.Path(hm.mk_solver(config()))
            a, b = z3.BitVec("stored", 256), z3.BitVec("other", 256)
            parent.append(z3.ULT(a, 10))
            parent.append(b == 3)
            earlier = z3.BitVec("p_earlier_length", 256)
            parent.concretization.candidates[earlier] = [1, 2]
            parent.sliced = {0}
            ex = NS(path=parent, new_symbol_id=lambda: 1)
            sender = z3.BitVec("msg_sender", 160)
            cond = (sender != 0) if with_sender_cond else None
            g = interp.call(hm.run_target_function, [config(), ex, "<addr>", {}, NS(sig="store(bytes)", name="store"), "<origin>", sender, "<value>"], {"msg_sender_cond": cond})
            list(g)
            ok = len(seen) == 1 and seen[0][0] is ex
            ctx.oblige("the call is executed once, from the input state", z3.BoolVal(ok))
            if not ok:
                return
            path = seen[0][2]
            conds = list(path.conditions)
            ctx.oblige("the call's path starts from every constraint of the input state (in order) and is a path of its own", z3.BoolVal(path is not parent and [str(c) for c in conds[:2]] == [str(c) for c in parent.conditions]))
            ctx.oblige("the length candidates of this call's dynamic arguments are registered on the path the engine runs", z3.BoolVal(any(z3.eq(k, size) and list(v) == [0, 32, 65] for k, v in path.concretization.candidates.items())), info={"registered": str({str(k): v for k, v in path.concretization.candidates.items()})[:200]})
            if with_sender_cond:
                ctx.oblige("the sender restriction is a constraint of the call's path", z3.BoolVal(any(z3.eq(c, z3.simplify(cond)) for c in conds)))
            ctx.oblige("the input state's own path is not modified", z3.BoolVal(len(parent.conditions) == 2 and not any(z3.eq(k, size) for k in parent.concretization.candidates)))

        out.append(Case(f"{PROP}/__main__.run_target_function#path", "with a sender restriction" if with_sender_cond else "without a sender restriction", harness, replay=replay_script("dynamic_args_in_invariant_calls.py", "a target function store(bytes) that breaks the invariant"), sources=("halmos.__main__:run_target_function", "halmos.sevm:Path.extend_path", "halmos.sevm:Path.process_dyn_params")))
    return out


def _reachable(root, target, limit=20000):
    """is `target` reachable from `root` through attributes and containers?"""
    seen, todo = set(), [root]
    while todo and len(seen) < limit:
        o = todo.pop()
        if o is target:
            return True
        if id(o) in seen or isinstance(o, (str, bytes, int, float, bool, type(None), z3.AstRef)):
            continue
        seen.add(id(o))
        if isinstance(o, dict):
            todo.extend(o.keys())
            todo.extend(o.values())
        elif isinstance(o, (list, tuple, set, frozenset)):
            todo.extend(o)
        elif hasattr(o, "__dict__"):
            todo.extend(vars(o).values())
    return False


def probe_outcome_cases():
    """`any assertion inside a target is checked after each call; a sequence that breaks it yields FAIL`: the context into which the
    handler of _compute_frontier records the outcomes of those queries (counterexamples, timeouts, errors) has to be one a verdict is
    computed from: the context of a test, or something the contract context keeps.  KNOWN FINDING C15-F19: it is a throw-away context"""
    from contracts.common import replay_script
    from contracts.c20 import LenientArgs

    out = []

    def harness(interp):
        ctx = interp.ctx
        sf, node = loader.func_node(hm._compute_frontier)
        idx = [k for k, st in enumerate(node.body) if isinstance(st, ast.For) and "curr_exs" in ast.unparse(st.iter)]
        if len(idx) != 1:
            raise loader.BindingError("_compute_frontier: the loop over the previous frontier was not found")
        head = [st for st in node.body[: idx[0]] if not (isinstance(st, ast.Expr) and isinstance(st.value, ast.Constant))]
        made = []

        def mk_fctx(i, a, k):
            o = NS(**k, solver_outputs=[], valid_counterexamples=[], invalid_counterexamples=[])
            made.append(o)
            return o

        interp.contracts["halmos.solve:FunctionContext"] = mk_fctx
        interp.contracts["halmos.__main__:CounterexampleHandler"] = lambda i, a, k: NS(**k)
        cctx = NS(frontier_states={0: [NS(tag="setUp state")]}, visited=set(), args=LenientArgs(), name="T", probes_reported=set())
        env = Env({"ctx": cctx, "depth": 1}, None, hm.__dict__)
        kind, payload, _ = interp.exec_fragment(head, env, qual="halmos.__main__:_compute_frontier#probe-context", is_gen=False)
        ctx.oblige("the part before the loop runs to its end and creates the handler for target assertions", z3.BoolVal(kind == "fallthrough" and "handler" in env.vars), info={"kind": kind, "payload": str(payload)[:120]})
        if kind != "fallthrough" or "handler" not in env.vars:
            return
        handler = env.vars["handler"]
        pctx = handler.ctx
        ctx.oblige("target assertions are handled as probes of an invariant run", z3.BoolVal(handler.is_probe is True and handler.is_invariant is True))
        ctx.oblige("the outcomes of the target assertions' queries are recorded where a verdict can see them (a test's context, or kept by the contract context)", z3.BoolVal(_reachable(cctx, pctx)), info={"context": str(getattr(getattr(pctx, "info", None), "name", None))})

    out.append(Case(f"{PROP}/__main__._compute_frontier#probe-context", "depth 1", harness, replay=replay_script("probe_verdict.py", "Target.poke(x) asserts x != 0; invariant_ok() is trivially true; depth 1"), sources=("halmos.__main__:_compute_frontier",)))
    return out


def var_set_cases():
    """Path.get_var_set(t): every uninterpreted constant occurring in t, of whatever sort (bit-vector words, the Array-sorted symbols of
    mapping / dynamic-array storage and of balances, Bool symbols): the state's constraints are found through them"""
    from contracts.common import config, replay_script

    out = []

    def harness(interp):
        ctx = interp.ctx
        x, y = z3.BitVecs("vs_x vs_y", 256)
        arr = z3.Array("vs_storage_m", z3.BitVecSort(256), z3.BitVecSort(256))
        bal = z3.Array("vs_balance", z3.BitVecSort(160), z3.BitVecSort(256))
        p = z3.Bool("vs_flag")
        a = z3.BitVec("vs_addr", 160)
        f = z3.Function("vs_f", z3.BitVecSort(256), z3.BitVecSort(256))
        family = [
            (x, {x}),
            (z3.BitVecVal(7, 256), set()),
            (x + y * 3, {x, y}),
            (z3.Select(arr, x), {arr, x}),
            (z3.Select(z3.Store(arr, x, y), z3.BitVecVal(3, 256)), {arr, x, y}),
            (z3.Store(arr, z3.BitVecVal(1, 256), z3.BitVecVal(2, 256)), {arr}),
            (z3.Select(bal, a) + 1, {bal, a}),
            (z3.If(p, x, z3.BitVecVal(0, 256)), {p, x}),
            (z3.And(p, z3.ULT(x, f(y))), {p, x, y}),
            (arr, {arr}),
        ]
        for k, (term, want) in enumerate(family):
            path = hs.Path(hm.mk_solver(config()))
            got = set(interp.call(hs.Path.__dict__["get_var_set"], [path, term], {}))
            ctx.oblige(f"get_var_set #{k}: exactly the uninterpreted constants of the term, of every sort", z3.BoolVal({v.get_id() for v in got} == {v.get_id() for v in want}), info={"term": str(term)[:60], "got": sorted(str(v) for v in got), "want": sorted(str(v) for v in want)})
            again = set(interp.call(hs.Path.__dict__["get_var_set"], [path, term], {}))
            ctx.oblige(f"get_var_set #{k}: the memoised answer is the same", z3.BoolVal({v.get_id() for v in again} == {v.get_id() for v in got}))

    out.append(Case(f"{PROP}/sevm.Path.get_var_set", "words, mapping and balance arrays, Bool symbols, uninterpreted functions", harness, replay=replay_script("mapping_constraints_in_state_id.py", "a mapping-keyed guard: put(k); f(k) requires k > 5, g(k) requires k <= 5"), sources=("halmos.sevm:Path.get_var_set", "halmos.sevm:Path.collect_var_sets")))
    return out


def path_slice_cases():
    """Exec.path_slice: the state variables handed to Path.slice are the variables of the balance, of every symbolic code
    chunk of EVERY account and of every stored value of EVERY account (the state id and the successor's solver are built from
    the constraints related to them)"""
    from contracts.common import replay_script
    from halmos.bytevec import ByteVec

    out = []

    def harness(interp):
        ctx = interp.ctx
        b, c1, c2, s1, s2, s3, t1 = z3.BitVecs("bal_v code_v1 code_v2 st_v1 st_v2 st_v3 tr_v1", 256)
        ts, num = z3.BitVec("timestamp_v", 64), z3.BitVec("number_v", 256)
        import halmos.bitvec as hb_

        # the block a frontier state carries: the timestamp is the symbol of the previous depth (constraints on it bound every later
        # timestamp), the other fields are what the cheatcodes left there (terms or wrapped values)
        # (vm.roll / vm.fee ... with a concrete argument leave a plain python int in the block: chainid here)
        block = NS(basefee=hb_.HalmosBitVec(0), chainid=31337, coinbase=z3.BitVecVal(0, 160), difficulty=hb_.HalmosBitVec(0), gaslimit=z3.BitVecVal(2**63 - 1, 256), number=hb_.HalmosBitVec(num), timestamp=z3.ZeroExt(192, ts))
        a1, a2, a3 = z3.BitVecVal(0xA1, 160), z3.BitVecVal(0xA2, 160), z3.BitVecVal(0xA3, 160)
        arr = z3.Store(z3.K(z3.BitVecSort(160), z3.BitVecVal(0, 256)), a1, b)

        def vars_of(t):
            seen, todo, out_ = set(), [t], set()
            while todo:
                e = todo.pop()
                if e.get_id() in seen:
                    continue
                seen.add(e.get_id())
                if z3.is_const(e) and e.decl().kind() == z3.Z3_OP_UNINTERPRETED:
                    out_.add(e)
                todo.extend(e.children())
            return out_

        got = []
        path = NS(get_var_set=lambda t: vars_of(t), slice=lambda vs: got.append(set(vs)))
        code = {a1: NS(_code=ByteVec([b"\x60\x00", z3.Extract(15, 0, c1)])), a2: NS(_code=ByteVec(b"\x00")), a3: NS(_code=ByteVec([z3.Extract(7, 0, c2)]))}
        storage = {a1: NS(_mapping={(0, 0, 0): s1}), a2: NS(_mapping={(0, 0, 0): s2 + 1, (1, 0, 0): z3.BitVecVal(7, 256)}), a3: NS(_mapping={(5, 1, 0): z3.Store(z3.K(z3.BitVecSort(256), z3.BitVecVal(0, 256)), z3.BitVecVal(1, 256), s3)})}
        for this in (a1, a2, a3):
            got.clear()
            ex = NS(balance=arr, code=code, storage=storage, transient_storage={a1: NS(_mapping={(0, 0, 0): t1})}, path=path, this=lambda this=this: this, block=block)
            try:
                interp.call(hs.Exec.__dict__["path_slice"], [ex], {})
            except AttributeError as e:  # (what the real get_var_set raises for a value that is not a z3 term)
                ctx.oblige("path_slice copes with every value a block field can hold (terms, wrapped values, plain ints left by the block cheatcodes)", z3.BoolVal(False), info={"exc": str(e)[:120]})
                return
            ctx.oblige("path_slice copes with every value a block field can hold (terms, wrapped values, plain ints left by the block cheatcodes)", z3.BoolVal(True))
            want = {b, c1, c2, s1, s2, s3}
            if len(got) == 1:
                ctx.oblige("path_slice: the symbolic block values (timestamp, number, ...) are state variables too: the next transaction starts from this block", z3.BoolVal({ts, num} <= set(got[0])), info={"missing": [str(v) for v in {ts, num} - set(got[0])]})
            ctx.oblige("path_slice: Path.slice is called once", z3.BoolVal(len(got) == 1))
            if len(got) == 1:
                ctx.oblige("path_slice: the state variables are those of the balance, of the symbolic code of every account and of the stored values of every account, whichever account ran last", z3.BoolVal(set(got[0]) >= want), info={"missing": [str(v) for v in want - set(got[0])]})

    def replay_both(r):
        a = replay_script("timestamp_constraints_merged.py", "f() requires block.timestamp > 100, g() requires <= 100, same storage effect; the invariant breaks only after g()")(r)
        if a.get("reproduced"):
            return a
        a = replay_script("concrete_warp_in_setup.py", "setUp() { vm.warp(1000); } and an invariant target that calls vm.roll with a concrete argument")(r)
        if a.get("reproduced"):
            return a
        return replay_script("slice_other_account.py", "two target contracts, A reads B's storage: call sequences B.set(x); A.sync()")(r)

    out.append(Case(f"{PROP}/sevm.Exec.path_slice", "three accounts: symbolic code in two, storage in three, balance, block", harness, replay=replay_both, sources=("halmos.sevm:Exec.path_slice",)))
    return out


def build_cases(tier="quick"):
    from contracts import c20

    ref = [Case(f"{PROP}/__main__.run_message", c.case, c.harness, sources=c.sources) for c in c20.main_cases() if c.unit.endswith("__main__.run_message")]
    from contracts import c11

    ref += [Case(f"{PROP}/sevm.SEVM.run_message#own-block", c.case, c.harness, replay=c.replay, sources=c.sources) for c in c20.fork_cases() if c.unit.endswith("sevm.SEVM.run_message")]
    ref += [Case(f"{PROP}/sevm.Path.extend_path#successor-owns-its-conditions", c.case, c.harness, replay=c.replay, sources=c.sources) for c in c11.path_growth_cases() if "extend_path" in c.unit]
    from contracts import c12
    from contracts.common import rewrap

    # `with arbitrary arguments`: a dynamic array argument of a target call has a free element per index below its largest length candidate (C12's unit)
    ref += rewrap(PROP, c12.encode_cases(), "arbitrary-arguments", lambda c: "sizes=" in c.case)
    return var_set_cases() + probe_outcome_cases() + path_slice_cases() + sender_cases() + frontier_cases() + digest_cases() + slice_cases() + target_call_path_cases() + ref


def ground_build_out_lookup():
    """run_target_contract takes the ABI and selectors of a target from BuildOut().get_by_name(name, filename): it must be THAT file's contract,
    also for the second contract of the same name and whatever was looked up before (every order of lookups over two files x two names)"""
    import itertools

    from halmos.mapper import BuildOut

    jA, jB, jC = {"tag": "A.sol:Vault"}, {"tag": "B.sol:Vault"}, {"tag": "A.sol:Other"}
    bom = {"A.sol": {"Vault": (jA, "contract", None), "Other": (jC, "contract", None)}, "B.sol": {"Vault": (jB, "contract", None)}}
    want = {("Vault", "A.sol"): jA, ("Vault", "B.sol"): jB, ("Other", "A.sol"): jC, ("Other", None): jC}
    bo = BuildOut()
    saved = bo._build_out_map
    bad, n = [], 0
    try:
        for order in itertools.permutations(list(want)):
            bo.set_build_out({k: dict(v) for k, v in bom.items()})  # (a new map object: caches start empty)
            for name, fn in list(order) + list(order):
                n += 1
                got = bo.get_by_name(name, fn)
                if got is not want[(name, fn)] and len(bad) < 3:
                    bad.append(([f"{a}@{b}" for a, b in order], f"{name}@{fn}", got.get("tag")))
    finally:
        bo.set_build_out(saved) if saved is not None else None
    return [(f"BuildOut.get_by_name(name, filename) returns that file's contract in every order of lookups ({n} lookups)", not bad, str(bad[:2])[:400])]


def grounds():
    from contracts.common import ground_script

    return [Ground(f"{PROP}/mapper.BuildOut.get_by_name", ground_build_out_lookup, sources=("halmos.mapper:BuildOut.get_by_name",)), Ground(f"{PROP}/cheatcodes.snapshot_state#block", ground_script("block_values_in_state_id.py", "a handler bump(n){vm.roll(n)} and f(){require(block.number >= 2); flag = 1}, depth 2", "a post-state that differs from its pre-state only in a block value is a new state (it is not dropped as visited)"), sources=("halmos.cheatcodes:snapshot_state",)), Ground(f"{PROP}/__main__.resolve_target_contracts", ground_target_contracts, sources=("halmos.__main__:resolve_target_contracts",)), Ground(f"{PROP}/__main__.resolve_target_selectors", ground_target_selectors, sources=("halmos.__main__:resolve_target_selectors",)), Ground(f"{PROP}/__main__.abi_decode_FuzzSelector_array", ground_fuzz_selector_decoding, sources=("halmos.__main__:abi_decode_FuzzSelector_array",))]


ASSUMPTIONS = [
    "pyvc (VC generator, Python-subset semantics) is trusted",
    "NOT CLAIMED: the global statement `every sequence of at most d calls is represented among the explored states`; it follows from these per-function contracts together with C02 (no behaviour dropped inside a call) only under the assumption that SEVM.run explores every pushed state (worklist protocol, not under contract)",
    "resolve_target_contracts / resolve_target_selectors are compared with the reference rule exhaustively over small universes (3 addresses, 10 methods); set algebra is uniform in the elements",
    "64-bit xxh3 collisions are assumed absent; z3 term identities are stable because every visited state is kept alive in the frontier cache",
    "the post-state loop body is executed as a fragment with the callee contracts of is_global_fail_set / get_state_id / handle_assertion_violation; the call itself (run_target_function -> SEVM.run_message) is C02/C09/C10 material",
]
TRUSTED = ["pyvc (this repository's verifier)", "z3 4.12.6", "Foundry's target/exclude rules as transcribed in the reference functions"]
TECHNIQUE = "fragment and function VCs from the real source AST (pyvc) with callee contracts; exhaustive small-universe comparison for the filter algebra; recorded hash streams for state identity; z3"
