"""C17 — solver subprocess lifecycle is safe under every schedule.

Thread-modular contracts.  Each thread's code is the real AST; the harness is a small cooperative
scheduler: the interpreter's statement hook is an interleaving point at which the *other* thread's
atomic steps (also real AST) may run.  Atomicity assumed: one Python statement of the verified units
(GIL granularity is finer, but the units' shared accesses are one per statement), a `with lock:`
body is atomic with respect to other bodies of the same lock.  Every schedule of the listed step
sets is enumerated (ctx.choose), so the obligations hold for all interleavings of those steps.

  processes.PopenFuture.start.<locals>.run      (sequential, every outcome of Popen / communicate)
        set_result is called exactly once, last, on every path; a started process is dead afterwards;
        a timeout is stored as the future's exception, so result() raises TimeoutExpired
        (=> solve_low_level reports unknown, C05); other failures likewise surface from result()
  processes.PopenFuture.run || cancel            (cancel requested at any statement boundary of run)
        once cancellation was requested the process is not left running: it is never started, or it
        is terminated
  processes.PopenFuture.cancel                   terminates the whole process tree, tolerates a vanished
        process, closes the pipes; no-op before start / after termination
  processes.PopenExecutor.submit || shutdown(wait=False)      (every placement of shutdown's two steps)
        no job is started after shutdown has returned; a job started before is cancelled by it;
        submit raises ShutdownError when it sees the flag
  processes.PopenExecutor._join / shutdown(wait=True)   waits for every registered job even if some
        of them failed or timed out
  processes.ExecutorRegistry.shutdown_all        every registered executor is shut down without waiting
  solve.solve_low_level                          timeout => unknown, never unsat                [C05 pack]
"""
from __future__ import annotations

import ast
import subprocess
import threading

import z3

from pyvc import loader
from pyvc.interp import _ENGINE, PathEnd
from pyvc.pack import Case

loader.import_repo()
import halmos.processes as hp  # noqa: E402

PROP = "C17"


class NS:
    def __init__(self, **kw):
        self.__dict__.update(kw)


class Trace:
    def __init__(self):
        self.ev = []

    def add(self, *e):
        self.ev.append(e)

    def index(self, name, *rest):
        for k, e in enumerate(self.ev):
            if e[0] == name and tuple(e[1 : 1 + len(rest)]) == rest:
                return k
        return None

    def count(self, name):
        return sum(1 for e in self.ev if e[0] == name)


class Stream:
    def __init__(self):
        self.closed = False

    def close(self):
        self.closed = True


class StubProc:
    """subprocess.Popen by contract"""

    def __init__(self, trace, outcome):
        self.trace = trace
        self.outcome = outcome
        self.pid = 4242
        self.alive = True
        self.returncode = None
        self.stdout, self.stderr, self.stdin = Stream(), Stream(), None
        trace.add("POPEN")

    def poll(self):
        return None if self.alive else self.returncode

    def die(self, code, how):
        if self.alive:
            self.alive = False
            self.returncode = code
            self.trace.add(how)

    def communicate(self, timeout=None):
        self.trace.add("COMMUNICATE", timeout)
        if not self.alive:
            return ("", "")
        if self.outcome == "timeout":
            raise subprocess.TimeoutExpired(["solver"], timeout)
        if self.outcome == "communicate-error":
            raise OSError(9, "Bad file descriptor")
        self.die(0, "NATURAL-END")
        return ("unsat\n", "")


class StubChild:
    def __init__(self, trace):
        self.trace = trace
        self.alive = True
        self.returncode = None

    def die(self, code, how):
        if self.alive:
            self.alive = False
            self.returncode = code
            self.trace.add(how + "-CHILD")


class PsProc:
    def __init__(self, proc, trace, child=False):
        self.proc, self.trace = proc, trace
        self.is_child = child

    def children(self, recursive=False):
        # the solver has spawned one child process (e.g. a portfolio worker)
        if self.is_child or not recursive:
            return []
        if not hasattr(self.proc, "child"):
            self.proc.child = StubChild(self.trace)
        return [PsProc(self.proc.child, self.trace, child=True)]

    def terminate(self):
        # the solver itself exits on SIGTERM (unless the scenario says it ignores it); its child ignores SIGTERM
        if not self.is_child and not getattr(self.proc, "ignores_sigterm", False):
            self.proc.die(-15, "KILLED")

    def wait(self, timeout=None):
        if self.proc.alive:
            import psutil

            raise psutil.TimeoutExpired(timeout, pid=getattr(self.proc, "pid", None))
        return 0

    def is_running(self):
        return self.proc.alive

    def kill(self):
        self.proc.die(-9, "KILLED")


def _reraise_wouldblock():
    pass


def install_externals(interp, trace, outcome, procs):
    import psutil

    def mk_popen(i, cmd, **kw):
        if outcome == "popen-error":
            trace.add("POPEN-FAILED")
            raise FileNotFoundError(2, "No such file or directory: 'solver'")
        p = StubProc(trace, outcome)
        procs.append(p)
        return p

    def mk_ps(i, pid):
        p = next((x for x in procs if x.pid == pid), None)
        if p is None or not p.alive:
            raise psutil.NoSuchProcess(pid)
        return PsProc(p, trace)

    interp.externals[hp.Popen] = mk_popen
    interp.externals[psutil.Process] = mk_ps
    clock = [0.0]

    def now(i):
        clock[0] += 1.0
        return clock[0]

    interp.externals[hp.time.time] = now


def capture_run(interp, fut):
    """interpret PopenFuture.start with threading.Thread by contract: returns the `run` closure"""
    captured = []

    class T:
        def __init__(self, target=None, daemon=None):
            captured.append((target, daemon))

        def start(self):
            pass

    interp.externals[threading.Thread] = lambda i, **kw: T(**kw)
    r = interp.call(hp.PopenFuture.__dict__["start"], [fut], {})
    if len(captured) != 1 or r is not fut:
        raise loader.BindingError("PopenFuture.start does not create exactly one worker thread")
    return captured[0][0]


def mk_future(trace):
    fut = hp.PopenFuture(["solver", "q.smt2"], timeout=1.5)
    return fut


def finish_natively(fut, recorded):
    """apply the recorded set_result through CPython's real Future, then ask result()"""
    import concurrent.futures as cf

    cf.Future.set_result(fut, recorded)
    try:
        return ("value", fut.result(timeout=0))
    except BaseException as e:  # noqa
        return ("raises", e)


OUTCOMES = ("ok", "timeout", "communicate-error", "popen-error")


def run_cases():
    out = []
    for outcome in OUTCOMES:

        def harness(interp, outcome=outcome):
            ctx = interp.ctx
            trace = Trace()
            procs = []
            install_externals(interp, trace, outcome, procs)
            fut = mk_future(trace)
            results = []
            interp.contracts["concurrent.futures._base:Future.set_result"] = lambda i, a, k: (trace.add("SET_RESULT"), results.append(a[1]))[1]
            run = capture_run(interp, fut)
            try:
                interp.call(run, [], {})
            except PathEnd:
                raise
            except BaseException as e:
                if isinstance(e, _ENGINE):
                    raise
                ctx.oblige(f"worker-thread-never-dies-with-an-exception[{type(e).__name__}]", z3.BoolVal(False), info={"msg": str(e)[:200]})
                return
            ctx.oblige("set_result is called exactly once on this path", z3.BoolVal(len(results) == 1), info={"n": len(results)})
            ctx.oblige("set_result is the last thing the worker does", z3.BoolVal(bool(trace.ev) and trace.ev[-1][0] == "SET_RESULT"))
            ctx.oblige("no process is left running when the result is delivered", z3.BoolVal(all(not p.alive for p in procs)), info={"trace": str(trace.ev)[:200]})
            if len(results) != 1:
                return
            kind, val = finish_natively(fut, results[0])
            if outcome == "ok":
                ctx.oblige("normal completion: result() returns (stdout, stderr, returncode) of the process", z3.BoolVal(kind == "value" and val == ("unsat\n", "", 0)), info={"got": str((kind, val))[:100]})
                ctx.oblige("normal completion: no exception recorded", z3.BoolVal(fut.exception() is None))
            elif outcome == "timeout":
                ctx.oblige("time limit exceeded: result() raises TimeoutExpired (reported as unknown by solve_low_level), never returns a value", z3.BoolVal(kind == "raises" and isinstance(val, subprocess.TimeoutExpired)), info={"got": str((kind, val))[:100]})
                ctx.oblige("time limit exceeded: the process was terminated", z3.BoolVal(trace.index("KILLED") is not None))
            else:
                ctx.oblige("failure to run or to talk to the solver surfaces from result() as that exception", z3.BoolVal(kind == "raises" and isinstance(val, OSError)), info={"got": str((kind, val))[:100]})
            ctx.oblige("waiting returns: the future is finished", z3.BoolVal(fut.done()))

        out.append(Case(f"{PROP}/processes.PopenFuture.start.run", outcome, harness, sources=("halmos.processes:PopenFuture.start",)))
    return out


def run_body(run):
    node = run.node
    tries = [n for n in node.body if isinstance(n, ast.Try)]
    if len(tries) != 1:
        raise loader.BindingError("worker `run` is expected to be one try/except/finally")
    return tries[0]


def run_vs_cancel_cases():
    out = []
    for outcome in ("ok", "timeout"):

        def harness(interp, outcome=outcome):
            ctx = interp.ctx
            trace = Trace()
            procs = []
            install_externals(interp, trace, outcome, procs)
            fut = mk_future(trace)
            results = []
            interp.contracts["concurrent.futures._base:Future.set_result"] = lambda i, a, k: (trace.add("SET_RESULT"), results.append(a[1]))[1]
            run = capture_run(interp, fut)
            t = run_body(run)
            points = list(t.body)  # an external cancel() may run before any statement of the try body ...
            n = len(points)
            k = ctx.choose(n + 2, "where shutdown's cancel() runs")  # ... or before the worker starts (0), or never (n+1)
            state = {"done": False}

            def external_cancel():
                state["done"] = True
                trace.add("CANCEL-REQUESTED")
                hook, interp.step_hook = interp.step_hook, None
                try:
                    interp.call(hp.PopenFuture.__dict__["cancel"], [fut], {})
                finally:
                    interp.step_hook = hook
                trace.add("CANCEL-RETURNED")

            def hook(stmt, env, qual):
                if state["done"] or k > n:
                    return
                if stmt in points and points.index(stmt) == k - 1:
                    external_cancel()

            if k == 0:
                external_cancel()
            interp.step_hook = hook
            try:
                interp.call(run, [], {})
            finally:
                interp.step_hook = None
            ctx.oblige("set_result exactly once under interference", z3.BoolVal(len(results) == 1))
            if state["done"]:
                started_after = trace.index("POPEN") is not None and trace.index("CANCEL-RETURNED") is not None and trace.index("POPEN") > trace.index("CANCEL-RETURNED")
                killed = trace.index("KILLED") is not None
                natural = trace.index("NATURAL-END") is not None
                # a process started after cancel() returned must not be left to run to its natural end
                ctx.oblige("after a cancellation request the process is not left running: never started, or terminated (not run to completion)", z3.BoolVal((not started_after) or (killed and not natural)), info={"trace": str([e[0] for e in trace.ev])})
                ctx.oblige("a process alive when cancel() runs is terminated by it", z3.BoolVal(all(not p.alive for p in procs)))

        out.append(Case(f"{PROP}/processes.PopenFuture.run||cancel", outcome, harness, replay=replay_cancel_before_start, sources=("halmos.processes:PopenFuture.start", "halmos.processes:PopenFuture.cancel")))
    return out


def replay_cancel_before_start(r):
    """real threads: cancel() lands between start() and the worker's Popen — is the process left running?"""
    import time

    gate = threading.Event()
    real_popen = hp.Popen

    def slow_popen(*a, **k):
        gate.wait(5)
        return real_popen(*a, **k)

    hp.Popen = slow_popen
    try:
        fut = hp.PopenFuture(["sleep", "3"], timeout=10)
        fut.start()
        fut.cancel()  # what shutdown(wait=False) does for every registered job
        gate.set()
        time.sleep(0.7)
        running = bool(fut.is_running())
        pid = fut.process.pid if fut.process else None
        fut.cancel()
    finally:
        hp.Popen = real_popen
    if running:
        return {"reproduced": True, "detail": f"PopenFuture(['sleep','3']): cancel() arrived after start() but before the worker thread created the process; 0.7 s after cancel() returned the solver process (pid {pid}) was still running", "inputs": "start(); cancel(); <worker reaches Popen>"}
    return {"reproduced": False, "detail": "the process was not left running after cancel()"}


def cancel_cases():
    out = []
    for st in ("not-started", "running", "running, ignores SIGTERM", "already-dead", "vanished-during-cancel"):

        def harness(interp, st=st):
            ctx = interp.ctx
            import psutil

            trace = Trace()
            procs = []
            install_externals(interp, trace, "ok", procs)
            fut = mk_future(trace)
            if st != "not-started":
                p = StubProc(trace, "ok")
                procs.append(p)
                fut.process = p
                if st == "running, ignores SIGTERM":
                    p.ignores_sigterm = True
                if st == "already-dead":
                    p.die(0, "NATURAL-END")
                if st == "vanished-during-cancel":
                    interp.externals[psutil.Process] = lambda i, pid: (_ for _ in ()).throw(psutil.NoSuchProcess(pid))
            try:
                interp.call(hp.PopenFuture.__dict__["cancel"], [fut], {})
            except BaseException as e:
                if isinstance(e, _ENGINE):
                    raise
                ctx.oblige(f"cancel-never-raises[{type(e).__name__}]", z3.BoolVal(False), info={"msg": str(e)[:200]})
                return
            if st.startswith("running"):
                ctx.oblige("a running process is terminated and its pipes are closed", z3.BoolVal(not p.alive and p.stdout.closed and p.stderr.closed))
                ctx.oblige("the whole process tree is terminated (children too)", z3.BoolVal(hasattr(p, "child") and not p.child.alive))
            elif st == "vanished-during-cancel":
                ctx.oblige("a process that vanished meanwhile is tolerated; pipes are still closed", z3.BoolVal(p.stdout.closed and p.stderr.closed))
            else:
                ctx.oblige("no-op before start / after termination", z3.BoolVal(trace.count("KILLED") == 0))

        out.append(Case(f"{PROP}/processes.PopenFuture.cancel", st, harness, sources=("halmos.processes:PopenFuture.cancel", "halmos.processes:PopenFuture.is_running")))
    return out


# ---------------------------------------------------------------------------------------
class WouldBlock(BaseException):
    """the other thread holds the lock: this step cannot run now"""


class StubLock:
    def __init__(self, trace):
        self.held_by = None
        self.trace = trace

    def __enter__(self):
        if self.held_by is not None:
            raise WouldBlock()
        self.held_by = "?"
        return self

    def __exit__(self, *a):
        self.held_by = None
        return False


class StubFuture:
    def __init__(self, name, trace):
        self.name, self.trace = name, trace
        self.started = False

    def start(self):
        self.started = True
        self.trace.add("START", self.name)
        return self

    def cancel(self):
        self.trace.add("CANCEL", self.name)

    def result(self, timeout=None):
        self.trace.add("WAIT", self.name)
        return ("", "", 0)


def mk_executor(trace):
    ex = hp.PopenExecutor()
    ex._lock = StubLock(trace)
    return ex


def shutdown_steps(interp, ex, trace, wait=False):
    """the two atomic steps of shutdown(wait=False), taken from the real AST: (1) the statement that
    sets the flag, (2) the `with self._lock ...` statement of the else branch"""
    sf, node = loader.func_node(hp.PopenExecutor.__dict__["shutdown"])
    body = [s for s in node.body if not (isinstance(s, ast.Expr) and isinstance(s.value, ast.Constant))]
    if not (len(body) == 2 and isinstance(body[0], ast.Expr) and isinstance(body[1], ast.If) and ast.unparse(body[1].test) == "wait"):
        raise loader.BindingError(f"shutdown() is expected to be `<set flag>; if wait: ... else: ...`, found {[ast.unparse(s)[:40] for s in body]}")
    from pyvc.interp import Env
    import concurrent.futures as cf

    class InlinePool:
        def __enter__(self):
            return self

        def __exit__(self, *a):
            return False

        def submit(self, f):
            f()
            return "task"

    interp.externals[cf.ThreadPoolExecutor] = lambda i, *a, **k: InlinePool()
    interp.externals[cf.wait] = lambda i, tasks, **k: None
    env = Env({"self": ex, "wait": wait, "cancel_futures": False}, None, hp.__dict__)

    def step1():
        trace.add("FLAG-SET")
        interp.exec_fragment([body[0]], env, qual="halmos.processes:PopenExecutor.shutdown#1", is_gen=False)

    def step2():
        kind, payload, _ = interp.exec_fragment(body[1].body if wait else body[1].orelse, env, qual="halmos.processes:PopenExecutor.shutdown#2", is_gen=False)
        if kind == "raise":
            raise payload
        trace.add("SHUTDOWN-RETURNED")

    return step1, step2


def submit_vs_shutdown_cases():
    out = []

    def harness(interp, wait=False):
        ctx = interp.ctx
        trace = Trace()
        ex = mk_executor(trace)
        old = StubFuture("old", trace)
        ex._futures.append(old)
        old.start()
        new = StubFuture("new", trace)
        step1, step2 = shutdown_steps(interp, ex, trace, wait)
        sf, node = loader.func_node(hp.PopenExecutor.__dict__["submit"])
        # interleaving points of submit: before each statement of its body and of the lock body
        pts = []

        def collect(stmts):
            for s_ in stmts:
                if isinstance(s_, ast.Expr) and isinstance(s_.value, ast.Constant):
                    continue
                pts.append(s_)
                if isinstance(s_, ast.With):
                    collect(s_.body)

        collect(node.body)
        n = len(pts)
        # shutdown's step 1 runs before point i (i == n: after submit), step 2 before point j >= i
        i = ctx.choose(n + 1, "flag set")
        j = i + ctx.choose(n + 1 - i, "cancel all")
        done = {"s1": False, "s2": False, "blocked": False}

        def run_other(k):
            if not done["s1"] and i == k:
                done["s1"] = True
                hook, interp.step_hook = interp.step_hook, None
                try:
                    step1()
                finally:
                    interp.step_hook = hook
            if done["s1"] and not done["s2"] and j <= k:
                hook, interp.step_hook = interp.step_hook, None
                try:
                    step2()
                    done["s2"] = True
                except WouldBlock:
                    done["blocked"] = True  # must wait for submit's critical section to end; retried at the next point
                finally:
                    interp.step_hook = hook

        def hook(stmt, env, qual):
            if stmt in pts:
                run_other(pts.index(stmt))

        interp.step_hook = hook
        raised = None
        try:
            try:
                interp.call(hp.PopenExecutor.__dict__["submit"], [ex, new], {})
            except hp.ShutdownError as e:
                raised = e
        finally:
            interp.step_hook = None
        run_other(n)
        if not done["s2"]:
            j = n
            run_other(n)
        ev = [e[0] + (":" + e[1] if len(e) > 1 and isinstance(e[1], str) else "") for e in trace.ev]
        sd = trace.index("SHUTDOWN-RETURNED")
        st_new = trace.index("START", "new")
        ctx.oblige(f"shutdown(wait={wait}) completes", z3.BoolVal(sd is not None), info={"trace": ev})
        if sd is None:
            return
        ctx.oblige("no job is started after shutdown has returned", z3.BoolVal(st_new is None or st_new < sd), info={"trace": ev})
        if wait:
            for name in ("old", "new"):
                st = trace.index("START", name)
                if st is not None:
                    wt = [k for k, e in enumerate(trace.ev) if e[0] == "WAIT" and e[1] == name and k < sd]
                    ctx.oblige(f"shutdown(wait=True) returns only after every job that is ever started has been waited for [{name}]", z3.BoolVal(bool(wt) and st < sd), info={"trace": ev})
        for name in (() if wait else ("old", "new")):
            st = trace.index("START", name)
            if st is not None and st < sd:
                # (a cancellation that arrives before the worker has created the process is honoured by the
                #  worker itself: run||cancel contract)
                cn = [k for k, e in enumerate(trace.ev) if e[0] == "CANCEL" and e[1] == name and k < sd]
                ctx.oblige(f"a job started before shutdown returned is cancelled by it [{name}]", z3.BoolVal(bool(cn)), info={"trace": ev})
        ctx.oblige("submit either starts the job or raises ShutdownError, never both, never neither", z3.BoolVal((raised is not None) != (st_new is not None)))
        fl = trace.index("FLAG-SET")
        if raised is not None:
            ctx.oblige("ShutdownError only when shutdown had been requested", z3.BoolVal(fl is not None and done["s1"]))

    out.append(Case(f"{PROP}/processes.PopenExecutor.submit||shutdown", "every placement of shutdown's steps", harness, replay=replay_submit_race, sources=("halmos.processes:PopenExecutor.submit", "halmos.processes:PopenExecutor.shutdown")))
    out.append(Case(f"{PROP}/processes.PopenExecutor.submit||shutdown(wait=True)", "every placement of shutdown's steps", lambda interp: harness(interp, True), replay=replay_submit_join_race, sources=("halmos.processes:PopenExecutor.submit", "halmos.processes:PopenExecutor.shutdown", "halmos.processes:PopenExecutor._join")))
    return out


def replay_submit_join_race(r):
    """real threads: submit() is stopped between its flag check and the append (both inside its critical section);
    shutdown(wait=True) runs meanwhile; then submit() goes on"""
    import threading
    import time

    ex = hp.PopenExecutor()
    in_cs, go_on = threading.Event(), threading.Event()
    real_is_set = ex._shutdown.is_set

    class Ev:
        def is_set(self_):
            v = real_is_set()
            if threading.current_thread().name == "submitter":
                in_cs.set()
                go_on.wait(5)
            return v

        def set(self_):
            ex_shutdown.set()

    ex_shutdown = ex._shutdown
    ex._shutdown = Ev()
    fut = hp.PopenFuture(["sleep", "2"])
    res = {}

    def do_submit():
        try:
            ex.submit(fut)
            res["submit"] = "accepted"
        except hp.ShutdownError:
            res["submit"] = "refused"

    t = threading.Thread(target=do_submit, name="submitter")
    t.start()
    in_cs.wait(5)
    returned = threading.Event()
    sh = threading.Thread(target=lambda: (ex.shutdown(wait=True), returned.set()), name="shutter")
    sh.start()
    early = returned.wait(0.7)  # does shutdown(wait=True) return while submit() is still inside its critical section?
    go_on.set()
    t.join(5)
    time.sleep(0.3)
    running = fut.is_running()
    sh.join(6)
    try:
        fut.cancel()
    except Exception:  # noqa
        pass
    if early and res.get("submit") == "accepted" and running:
        return {"reproduced": True, "detail": "submit() had checked the shutdown flag inside its critical section; shutdown(wait=True) set the flag, found no registered job and returned; submit() then registered and started the job: the solver process (`sleep 2`) was running after shutdown(wait=True) had returned", "inputs": "submit: lock, check flag | shutdown(wait=True) | submit: append, start"}
    return {"reproduced": False, "detail": f"shutdown(wait=True) returned early={early}, submit {res.get('submit')}, job running afterwards={bool(running)}"}


def replay_submit_race(r):
    """real threads, interleaving forced by a wrapper lock: shutdown(wait=False) runs to completion
    after submit() has checked the flag and before it takes the lock"""
    import time

    ex = hp.PopenExecutor()
    real = ex._lock
    fired = []

    class L:
        def __enter__(self):
            if threading.current_thread().name == "submitter" and not fired:
                fired.append(1)
                t = threading.Thread(target=lambda: ex.shutdown(wait=False), name="shutter")
                t.start()
                t.join()
            return real.__enter__()

        def __exit__(self, *a):
            return real.__exit__(*a)

    ex._lock = L()
    fut = hp.PopenFuture(["sleep", "3"], timeout=10)
    res = {}

    def sub():
        try:
            ex.submit(fut)
            res["submitted"] = True
        except hp.ShutdownError:
            res["submitted"] = False

    t = threading.Thread(target=sub, name="submitter")
    t.start()
    t.join()
    time.sleep(0.5)
    running = bool(fut.is_running())
    fut.cancel()
    if res.get("submitted") and running:
        return {"reproduced": True, "detail": "submit() checked the shutdown flag, then shutdown(wait=False) ran to completion, then submit() took the lock and started the job: the solver process (`sleep 3`) was running 0.5 s after shutdown had returned and the job had been accepted", "inputs": "submit: check flag | shutdown(wait=False) | submit: lock, append, start"}
    return {"reproduced": False, "detail": f"submitted={res.get('submitted')} running={running}"}


def join_cases():
    out = []
    for which in ("all ok", "first timed out", "first failed", "first cancelled"):

        def harness(interp, which=which):
            ctx = interp.ctx
            import concurrent.futures as cf

            waited = []

            class F:
                def __init__(self, name, exc=None):
                    self.name, self.exc = name, exc

                def result(self, timeout=None):
                    waited.append(self.name)
                    if self.exc is not None:
                        raise self.exc
                    return ("", "", 0)

            exc = {"all ok": None, "first timed out": subprocess.TimeoutExpired(["s"], 1), "first failed": OSError(2, "x"), "first cancelled": cf.CancelledError()}[which]
            ex = hp.PopenExecutor()
            ex._futures.extend([F("a", exc), F("b"), F("c")])
            try:
                interp.call(hp.PopenExecutor.__dict__["shutdown"], [ex], {"wait": True})
                raised = None
            except BaseException as e:
                if isinstance(e, _ENGINE):
                    raise
                raised = e
            ctx.oblige("shutdown(wait=True) sets the flag", z3.BoolVal(ex._shutdown.is_set()))
            ctx.oblige("shutdown(wait=True) waits for every registered job, whatever the outcome of the others", z3.BoolVal(waited == ["a", "b", "c"]), info={"waited": str(waited), "raised": type(raised).__name__ if raised else None})
            ctx.oblige("shutdown(wait=True) does not fail because a job failed or timed out", z3.BoolVal(raised is None), info={"raised": type(raised).__name__ if raised else None})

        out.append(Case(f"{PROP}/processes.PopenExecutor.shutdown(wait=True)", which, harness, sources=("halmos.processes:PopenExecutor.shutdown", "halmos.processes:PopenExecutor._join")))

    def harness_registry(interp):
        ctx = interp.ctx
        calls = []
        reg = object.__new__(hp.ExecutorRegistry)
        # executor 1 is in the middle of its own shutdown(wait=True): its flag is already set, its jobs are still running
        reg._executors = [NS(shutdown=lambda wait=True, n=n: calls.append((n, wait)), is_shutdown=lambda n=n: n == 1, _shutdown=NS(is_set=lambda n=n: n == 1)) for n in range(3)]
        interp.call(hp.ExecutorRegistry.__dict__["shutdown_all"], [reg], {})
        ctx.oblige("shutdown_all shuts every registered executor down without waiting, also one whose own shutdown(wait=True) is still waiting for its jobs (that waiter is released because the jobs are cancelled)", z3.BoolVal(calls == [(0, False), (1, False), (2, False)]), info={"calls": str(calls)})

    out.append(Case(f"{PROP}/processes.ExecutorRegistry.shutdown_all", "three executors", harness_registry, sources=("halmos.processes:ExecutorRegistry.shutdown_all",)))

    def harness_singleton(interp):
        """the callers never keep the registry: each one writes `ExecutorRegistry().register(e)` / `ExecutorRegistry().shutdown_all()`.  Every
        such expression must denote the one registry, with everything registered so far"""
        ctx = interp.ctx
        saved = hp.ExecutorRegistry._instance
        hp.ExecutorRegistry._instance = None
        try:
            calls = []

            class Ex:  # (weakly referenceable and hashable, like PopenExecutor)
                def __init__(self, n):
                    self.n = n

                def shutdown(self, wait=True):
                    calls.append((self.n, wait))

            exs = [Ex(0), Ex(1), Ex(2)]
            regs = []
            for e in exs:
                r = interp.call(hp.ExecutorRegistry, [], {})
                regs.append(r)
                interp.call(hp.ExecutorRegistry.__dict__["register"], [r, e], {})
            last = interp.call(hp.ExecutorRegistry, [], {})
            ctx.oblige("ExecutorRegistry() always denotes the same registry", z3.BoolVal(all(r is last for r in regs)))
            interp.call(hp.ExecutorRegistry.__dict__["shutdown_all"], [last], {})
            ctx.oblige("a shutdown request issued through a new ExecutorRegistry() expression reaches every executor registered through earlier ones", z3.BoolVal(sorted(calls) == [(0, False), (1, False), (2, False)]), info={"calls": str(calls)})
        finally:
            hp.ExecutorRegistry._instance = saved

    def replay_singleton(r):
        saved = hp.ExecutorRegistry._instance
        hp.ExecutorRegistry._instance = None
        try:
            calls = []

            class Ex:
                def __init__(self, n):
                    self.n = n

                def shutdown(self, wait=True):
                    calls.append(self.n)

            keep = [Ex(0), Ex(1), Ex(2)]
            for e in keep:
                hp.ExecutorRegistry().register(e)
            hp.ExecutorRegistry().shutdown_all()
            return {"reproduced": sorted(calls) != [0, 1, 2], "detail": f"three executors registered through ExecutorRegistry().register(e), then ExecutorRegistry().shutdown_all(): shut down: {sorted(calls)}", "inputs": "register x3; shutdown_all"}
        finally:
            hp.ExecutorRegistry._instance = saved

    out.append(Case(f"{PROP}/processes.ExecutorRegistry", "registered through one expression, shut down through another", harness_singleton, replay=replay_singleton, sources=("halmos.processes:ExecutorRegistry.__new__", "halmos.processes:ExecutorRegistry.register", "halmos.processes:ExecutorRegistry.shutdown_all")))
    return out


def build_cases(tier="quick"):
    from contracts import c05

    extra = [Case(f"{PROP}/solve.solve_low_level", c.case, c.harness, sources=c.sources) for c in c05.timeout_cases()]
    # the consumers of solve_low_level: a timed-out job (unknown) is never acted upon as if it were unsat (C10's unit: setup())
    from contracts import c10
    from contracts.common import rewrap

    extra += rewrap(PROP, c10.setup_selection_cases(), "timeout-is-not-unsat")
    # the second job of a path (the refined query) runs on the executor that a shutdown request reaches (C11's unit)
    from contracts import c11

    extra += rewrap(PROP, c11.refine_ctx_cases(), "refined-job-on-the-registered-executor")
    return run_cases() + run_vs_cancel_cases() + cancel_cases() + submit_vs_shutdown_cases() + join_cases() + extra


ASSUMPTIONS = [
    "pyvc (VC generator, Python-subset semantics) is trusted",
    "atomicity: one Python statement of the verified units is an atomic step (the units touch shared state once per statement), and `with self._lock` bodies exclude each other; bytecode-level interleavings inside a statement and memory-model effects are not modelled (CPython's GIL gives sequential consistency)",
    "interference considered: one concurrent shutdown(wait=False) against one submit; one concurrent cancel() against the worker thread; schedules of those step sets are enumerated exhaustively. Several concurrent submits or shutdowns are not modelled",
    "externals by contract: subprocess.Popen / communicate (returns, raises TimeoutExpired, raises OSError), psutil.Process (terminate/kill end the process; NoSuchProcess for a vanished pid — other psutil errors such as AccessDenied are not modelled), threading.Thread(target).start runs target in a new thread, concurrent.futures.Future.set_result / result as implemented by CPython (the real Future is used for result())",
    "NOT CLAIMED: liveness beyond `the worker always reaches set_result` (e.g. that the OS delivers process termination, that communicate() returns once the process is dead)",
]
TRUSTED = ["pyvc (this repository's verifier)", "CPython concurrent.futures.Future", "the step/atomicity model stated in the assumptions"]
TECHNIQUE = "thread-modular contracts: each thread's real AST is executed by pyvc, the other thread's atomic steps (also real AST) are run at every statement boundary under every schedule (exhaustive enumeration of the listed step placements); sequential contracts for every outcome of the external calls; z3 only for path feasibility"
