"""C20 — tests are isolated from each other; state built by one path is never visible to another.

What contracts decide here is **ownership**: wherever an Exec or a Path is derived from another
(sibling path at a branch, top-level state of a new transaction/test, path of a new test, successor
of an alias/size split), every mutable component the new one can write is its own copy, except a
whitelist of components that are shared on purpose and justified one by one.  Every field of
`Exec` and `Path` (introspected from the class on every run) must be classified — a new field that
is not classified is an obligation failure, not a silent pass.

  sevm.SEVM.create_branch        sibling paths (every Exec field classified)
  sevm.SEVM.run_message          the top-level state of a transaction / test against the setUp or
                                 frontier state it starts from; the starting state is not modified
  sevm.Path.branch               (C02 pack, referenced) conditions / concretization / dependency maps
  sevm.Path.extend_path          (C11 pack, referenced) child owns its copies
  __main__.run_message           every (state, test) pair gets a new solver and a new Path extending
                                 the state's path; the solver is reset afterwards, also on exceptions
  __main__.run_tests             every test function gets its own FunctionContext built from the
                                 contract's config and the same setUp state object, and an exception in
                                 one test does not stop the others
  copies used at fork points     State.__deepcopy__, Contract.__deepcopy__, KeccakRegistry.copy,
                                 OffsetMap.copy (C08), ByteVec.copy

NOT decidable by per-function contracts and not claimed: that verdicts do not depend on the random
uid() suffixes (a 2-safety property over two runs) and equality of outcomes across run orders (a
property of whole histories).
"""
from __future__ import annotations

import ast
from copy import deepcopy

import z3

from pyvc import loader
from pyvc.interp import _ENGINE, PathEnd
from pyvc.pack import Case

loader.import_repo()
import halmos.__main__ as hm  # noqa: E402
import halmos.bitvec as hb  # noqa: E402
import halmos.sevm as hs  # noqa: E402
from contracts.common import THIS, mk_ex, mk_sevm, replay_script  # noqa: E402
from halmos.bytevec import ByteVec  # noqa: E402

PROP = "C20"


class NS:
    def __init__(self, **kw):
        self.__dict__.update(kw)


# how each Exec field must relate between a state and one derived from it at a fork
EXEC_FIELDS = {
    # own copies (the derived state may write them)
    "code": "copy",  # the map is copied; Contract values are immutable (Contract.__deepcopy__ returns self)
    "storage": "deep",
    "transient_storage": "deep",
    "block": "deep",
    "context": "deep",
    "st": "deep",
    "jumpis": "deep",
    "alias": "copy",
    "cnts": "deep",
    "sha3s": "copy",
    "storages": "copy",
    "balances": "copy",
    "known_keys": "copy",
    "known_sigs": "copy",
    "path": "own",  # a Path of its own (branch / extend_path contracts)
    "addresses_to_delete": "fresh-or-copy",
    # shared on purpose
    "balance": "shared: an immutable z3 array term; updates rebind the field",
    "pgm": "shared: Contract is immutable up to its decode caches",
    "callback": "shared: the continuation of the enclosing frame (same for both siblings)",
    "call_sequence": "shared: the list is never mutated in place (extended by `+` into a new list)",
    "pc": "value",
    "insn": "value",
}


def exec_field_names():
    ann = set(getattr(hs.Exec, "__annotations__", {}))
    sf, node = loader.func_node(hs.Exec.__dict__["__init__"])
    assigned = {t.attr for n in ast.walk(node) if isinstance(n, ast.Assign) for t in n.targets if isinstance(t, ast.Attribute) and isinstance(t.value, ast.Name) and t.value.id == "self"}
    return sorted(ann | assigned)


def rich_exec():
    sevm = mk_sevm()
    ex = mk_ex(sevm, bytes([0x5B, 0x00, 0x5B, 0x00]))
    OTHER = z3.BitVecVal(0xBEEF, 160)
    ex.code[OTHER] = hs.Contract(b"\x00")
    ex.storage[OTHER] = sevm.mk_storagedata()
    ex.transient_storage[OTHER] = sevm.mk_storagedata()
    sevm.sstore(ex, THIS, hb.HalmosBitVec(1), hb.HalmosBitVec(z3.BitVec("v", 256)))
    sevm.sstore(ex, THIS, hb.HalmosBitVec(2), hb.HalmosBitVec(5), transient=True)
    ex.st.stack.append(hb.HalmosBitVec(7))
    ex.st.memory.set_slice(0, 4, ByteVec(b"\x01\x02\x03\x04"))
    ex.jumpis[(0, ())] = {True: 1, False: 0}
    ex.alias[z3.BitVec("some_addr", 160)] = OTHER
    ex.cnts["fresh"] = 3
    ex.sha3_data(z3.BitVec("preimage", 256))
    ex.balance_update(THIS, z3.BitVec("bal", 256))
    ex.known_keys[z3.BitVec("pk", 256)] = z3.BitVec("addr_of_pk", 160)
    ex.known_sigs[(z3.BitVec("pk", 256), z3.BitVec("digest", 256))] = (z3.BitVec("v", 8), z3.BitVec("r", 256), z3.BitVec("s", 256))
    ex.context.trace.append(hs.StorageRead(THIS, z3.BitVecVal(1, 256), z3.BitVecVal(0, 256), False))
    return sevm, ex


def owned(kind, a, b):
    """is component b (of the derived state) an own copy of component a, to the depth `kind` asks"""
    if kind == "own":
        return b is not a
    if kind in ("copy", "fresh-or-copy"):
        return b is not a
    if kind == "deep":
        if b is a:
            return False
        if isinstance(a, dict):
            return all((b[k] is not a[k]) or isinstance(a[k], (int, str, bytes, z3.AstRef, type(None))) for k in a if k in b)
        if isinstance(a, hs.State):
            return b.stack is not a.stack and b.memory is not a.memory
        if isinstance(a, hs.CallContext):
            return b.trace is not a.trace and b.output is not a.output and b.prank is not a.prank
        return True
    raise ValueError(kind)


def classify_cases():
    def harness(interp):
        ctx = interp.ctx
        names = exec_field_names()
        unknown = [n for n in names if n not in EXEC_FIELDS]
        ctx.oblige("every field of Exec is classified (own copy vs shared-with-reason) in the ownership contract", z3.BoolVal(not unknown), info={"unclassified": unknown})
        gone = [n for n in EXEC_FIELDS if n not in names]
        ctx.oblige("the ownership contract names only fields that exist", z3.BoolVal(not gone), info={"stale": gone})

    return [Case(f"{PROP}/sevm.Exec#fields", "introspection", harness, sources=("halmos.sevm:Exec.__init__",))]


def fork_cases():
    out = []

    def check_fields(ctx, src, new, what, skip=()):
        for name, kind in EXEC_FIELDS.items():
            if name in skip or kind.startswith("shared") or kind == "value":
                continue
            a, b = getattr(src, name, None), getattr(new, name, None)
            ok = owned(kind, a, b)
            ctx.oblige(f"{what}: `{name}` of the derived state is its own copy", z3.BoolVal(bool(ok)))

    def harness_branch(interp):
        ctx = interp.ctx
        sevm, ex = rich_exec()
        fp = (len(ex.known_keys), len(ex.known_sigs), len(ex.alias), dict(ex.cnts), len(ex.st.stack))
        n_trace = len(ex.context.trace)
        nx = interp.call(hs.SEVM.__dict__["create_branch"], [sevm, ex, z3.Bool("c"), 2], {})
        check_fields(ctx, ex, nx, "sibling path")
        ctx.oblige("sibling path: the copies start equal to the original's", z3.BoolVal(len(nx.known_keys) == fp[0] and len(nx.known_sigs) == fp[1] and len(nx.alias) == fp[2] and dict(nx.cnts) == fp[3] and len(nx.st.stack) == fp[4] and set(map(str, nx.code)) == set(map(str, ex.code))))
        # what one path does afterwards is invisible to the other
        nx.known_keys[z3.BitVec("pk2", 256)] = z3.BitVec("a2", 160)
        nx.known_sigs[("k", "d")] = (1, 2, 3)
        nx.alias[z3.BitVec("x", 160)] = None
        nx.cnts["fresh"] += 1
        nx.st.stack.append(hb.HalmosBitVec(9))
        sevm.sstore(nx, THIS, hb.HalmosBitVec(1), hb.HalmosBitVec(99))
        nx.context.trace.append("subcall")
        nx.jumpis[(0, ())][True] = 5
        after = (len(ex.known_keys), len(ex.known_sigs), len(ex.alias), dict(ex.cnts), len(ex.st.stack))
        ctx.oblige("frame: keys/signatures created, aliases chosen, counters, stack, storage writes, trace and loop counts of one path are invisible to its sibling", z3.BoolVal(after == fp and len(ex.context.trace) == n_trace and ex.jumpis[(0, ())][True] == 1 and "99" not in str(ex.storage[THIS]._mapping)))

    out.append(Case(f"{PROP}/sevm.SEVM.create_branch", "state with keys, signatures, aliases, storage, memory", harness_branch, replay=replay_known_sigs, sources=("halmos.sevm:SEVM.create_branch",)))

    def harness_tx(interp):
        ctx = interp.ctx
        sevm, pre = rich_exec()
        snapshot = (hs_fingerprint(pre), len(pre.known_keys), dict(pre.cnts), len(pre.alias), len(pre.st.stack), len(pre.context.trace))
        made = []
        interp.contracts["halmos.sevm:SEVM.run"] = lambda i, a, k: (made.append(a[1]), [])[1]
        msg = hs.Message(target=THIS, caller=z3.BitVec("c", 160), origin=z3.BitVec("o", 160), value=0, data=ByteVec(), call_scheme=0xF1)
        newpath = hs.Path(pre.path.solver)
        list(interp.call(hs.SEVM.__dict__["run_message"], [sevm, pre, msg, newpath], {}))
        if len(made) != 1:
            ctx.oblige("one top-level state per transaction", z3.BoolVal(False))
            return
        ex0 = made[0]
        check_fields(ctx, pre, ex0, "new transaction / test", skip=("known_keys", "known_sigs"))
        ctx.oblige("new transaction: starts with an empty stack, memory and loop record at pc 0 in a fresh call context", z3.BoolVal(ex0.st.stack == [] and len(ex0.st.memory) == 0 and ex0.jumpis == {} and ex0.pc == 0 and ex0.context.trace == [] and ex0.context.message is msg and ex0.path is newpath))
        ctx.oblige("new transaction: keys and signatures of earlier transactions are not inherited by reference", z3.BoolVal(ex0.known_keys is not pre.known_keys and ex0.known_sigs is not pre.known_sigs))
        ctx.oblige("new transaction: the copies start equal to the pre-state's: counters (the address allocator behind CREATE, symbol ids), aliases, accounts, balance", z3.BoolVal(dict(ex0.cnts) == dict(pre.cnts) and sum(pre.cnts.values()) > 0 and len(ex0.alias) == len(pre.alias) and set(map(str, ex0.code)) == set(map(str, pre.code)) and ex0.balance is pre.balance), info={"pre": str(dict(pre.cnts)), "new": str(dict(ex0.cnts))})
        ctx.oblige("new transaction: it starts from exactly the post-setUp state, the keys and signatures known there included (their distinctness facts are on the path)", z3.BoolVal(len(pre.known_keys) > 0 and dict(ex0.known_keys) == dict(pre.known_keys) and dict(ex0.known_sigs) == dict(pre.known_sigs)), info={"pre": len(pre.known_keys), "new": len(ex0.known_keys)})
        # the test works on its state ...
        sevm.sstore(ex0, THIS, hb.HalmosBitVec(1), hb.HalmosBitVec(1234))
        ex0.cnts["fresh"] += 5
        ex0.alias[z3.BitVec("y", 160)] = None
        ex0.st.stack.append(hb.HalmosBitVec(1))
        ex0.code[z3.BitVecVal(0xC0DE, 160)] = hs.Contract(b"\x00")
        # ... and the state it started from (post-setUp / frontier state, shared by all tests) is untouched
        now = (hs_fingerprint(pre), len(pre.known_keys), dict(pre.cnts), len(pre.alias), len(pre.st.stack), len(pre.context.trace))
        ctx.oblige("frame: running a test/transaction does not modify the state it starts from (the next test starts from exactly the post-setUp state)", z3.BoolVal(now == snapshot))

    out.append(Case(f"{PROP}/sevm.SEVM.run_message", "test state derived from the setUp state", harness_tx, replay=lambda r: (lambda a: a if a.get("reproduced") else replay_script("block_shared_between_tests.py", "two tests from one setUp state; the first calls vm.warp, the second asserts under block.timestamp <= deadline")(r))(replay_script("known_keys_across_tests.py", "alice = vm.addr(1) in setUp(); a test asserts vm.addr(2) != alice")(r)), sources=("halmos.sevm:SEVM.run_message",)))
    return out


def hs_fingerprint(ex):
    return (
        {str(a): {str(k): str(v) for k, v in sd._mapping.items()} for a, sd in ex.storage.items()},
        {str(a): {str(k): str(v) for k, v in sd._mapping.items()} for a, sd in ex.transient_storage.items()},
        sorted(map(str, ex.code)),
        str(ex.balance),
    )


def replay_known_sigs(r):
    """real vm.sign on two sibling paths: the second must constrain its signature like the first"""
    import halmos.cheatcodes as hc

    sevm, ex = rich_exec()
    ex.known_sigs.clear()
    ex.known_keys.clear()
    nx = sevm.create_branch(ex, z3.Bool("c"), 2)
    key, digest = z3.BitVec("private_key", 256), z3.BitVec("digest", 256)
    cd = ByteVec()
    cd.append(hc.hevm_cheat_code.sign_sig.to_bytes(4, "big"))
    cd.append(key)
    cd.append(digest)
    before_a, before_b = len(ex.path.conditions), len(nx.path.conditions)
    try:
        hc.hevm_cheat_code.handle(sevm, ex, cd, hs.Worklist())
        nx.path.activate() if not nx.path.is_activated() else None
        hc.hevm_cheat_code.handle(sevm, nx, cd, hs.Worklist())
    except Exception as e:  # noqa
        return {"reproduced": None, "detail": f"replay could not drive vm.sign: {type(e).__name__}: {e}"}
    added_a = len(ex.path.conditions) - before_a
    added_b = len(nx.path.conditions) - before_b - 1  # minus the branching condition
    if added_a > 0 and added_b < added_a:
        return {"reproduced": True, "detail": f"vm.sign(key, digest) on one path added {added_a} constraints (range of v/r/s, ecrecover = signer); the same call on its sibling path afterwards added {added_b}: it found the signature in the dictionary shared with its sibling and skipped its own constraints, so its models depend on the order in which paths run", "inputs": "create_branch; vm.sign on path A; vm.sign on sibling B"}
    return {"reproduced": False, "detail": f"both sibling paths constrain their signatures ({added_a} / {added_b} conditions)"}


def main_cases():
    out = []
    for raises in (False, True):

        def harness(interp, raises=raises):
            ctx = interp.ctx
            solvers, paths, resets, ran = [], [], [], []

            def mk_solver(i, a, k):
                s_ = NS(tag=f"solver{len(solvers)}")
                solvers.append(s_)
                return s_

            class P:
                def __init__(self, solver):
                    self.solver = solver
                    self.ext, self.dyn = [], []
                    paths.append(self)

                def extend_path(self, p):
                    self.ext.append(p)

                def process_dyn_params(self, d):
                    self.dyn.append(d)

            interp.contracts["halmos.__main__:mk_solver"] = mk_solver
            interp.externals[hm.mk_solver] = lambda i, *a, **k: mk_solver(i, a, k)
            interp.contracts["halmos.sevm:Path"] = lambda i, a, k: P(a[0])
            interp.externals[hm.reset] = lambda i, s_: resets.append(s_)
            interp.contracts["halmos.__main__:reset"] = lambda i, a, k: resets.append(a[0])
            states = {0: [NS(path="path-of-setup")], 1: [NS(path="path-of-f1"), NS(path="path-of-f2")]}
            interp.contracts["halmos.__main__:get_frontier"] = lambda i, a, k: states[a[1]]
            interp.externals[hm.get_frontier] = lambda i, c, d: states[d]

            class Sevm:
                def run_message(self, ex, message, path):
                    ran.append((ex, message, path))
                    if raises and len(ran) == 2:
                        raise RuntimeError("engine failure in one state")
                    return [f"end-of-{ex.path}"]

            fctx = NS(args=NS(), contract_ctx="<contract>", max_call_depth=1)
            try:
                outs = list(interp.call(hm.run_message, [fctx, Sevm(), "<message>", ["<dyn>"]], {}))
                err = None
            except RuntimeError as e:
                outs, err = None, e
            n = 2 if raises else 3
            ctx.oblige("every (state, test) pair gets a solver of its own", z3.BoolVal(len(solvers) == n and len(set(map(id, solvers))) == n))
            ctx.oblige("and a Path of its own on that solver, extending exactly that state's path, with this test's size candidates", z3.BoolVal(len(paths) == n and all(p.solver is s_ for p, s_ in zip(paths, solvers)) and [p.ext for p in paths] == [[st.path] for st in (states[0] + states[1])[:n]] and all(p.dyn == [["<dyn>"]] for p in paths)))
            ctx.oblige("the engine runs the message from that state on that path", z3.BoolVal([(r_[0], r_[2]) for r_ in ran] == list(zip((states[0] + states[1])[:n], paths))))
            ctx.oblige("every solver is reset when its state is done, also when the run raises", z3.BoolVal(resets == solvers), info={"resets": len(resets), "solvers": len(solvers)})
            if raises:
                ctx.oblige("an engine failure propagates (it is turned into an ERROR result by run_tests)", z3.BoolVal(err is not None))
            else:
                ctx.oblige("depths 0..max are visited in order and every end state is passed on", z3.BoolVal(outs == ["end-of-path-of-setup", "end-of-path-of-f1", "end-of-path-of-f2"]))

        out.append(Case(f"{PROP}/__main__.run_message", f"engine raises={raises}", harness, sources=("halmos.__main__:run_message",)))

    def harness_tests(interp):
        ctx = interp.ctx
        made, results = [], []
        setup_ex = NS(tag="post-setUp state")

        def run_test(i, a, k):
            made.append(a[0])
            if len(made) == 2:
                raise ValueError("this test blows up")
            return NS(name=a[0].info.sig, exitcode=0)

        interp.contracts["halmos.__main__:run_test"] = run_test
        interp.contracts["halmos.solve:FunctionContext"] = lambda i, a, k: NS(**k)  # (its __post_init__ creates dump directories and a thread pool)
        interp.contracts["halmos.__main__:with_devdoc"] = lambda i, a, k: NS(layer=("function", a[1]), base=a[0], invariant_depth=2, formatted_layers=lambda: "", debug=False, debug_config=False)
        cctx = NS(args=LenientArgs(debug_config=False, debug=False), method_identifiers={"check_a()": "11", "check_b()": "22", "check_c()": "33"}, name="C", contract_json={})
        n0 = len(ctx.ghost_log)
        res = interp.call(hm.run_tests, [cctx, setup_ex, ["check_a()", "check_b()", "check_c()"]], {})
        ctx.oblige("one result per selected test, in order; a test that raises becomes an EXCEPTION result and the others still run", z3.BoolVal(len(res) == 3 and res[0].exitcode == 0 and res[1].exitcode == hm.Exitcode.EXCEPTION.value and res[2].exitcode == 0 and len(made) == 3))
        ctx.oblige("every test gets a FunctionContext of its own", z3.BoolVal(len(set(map(id, made))) == 3))
        ctx.oblige("every test starts from the same post-setUp state object and the contract's context", z3.BoolVal(all(m.setup_ex is setup_ex and m.contract_ctx is cctx for m in made)))
        ctx.oblige("function-level configuration is derived per test from the contract's configuration (an annotation of one test never reaches another)", z3.BoolVal(all(m.args.base is cctx.args and m.args.layer == ("function", f"check_{c}()") for m, c in zip(made, "abc"))))

    out.append(Case(f"{PROP}/__main__.run_tests", "three tests, the second raises", harness_tests, sources=("halmos.__main__:run_tests",)))

    def harness_depth(interp):
        """the values USED for a test are those of its own configuration (contract configuration + its own annotation)"""
        ctx = interp.ctx
        made = []
        setup_ex = NS(tag="post-setUp state")
        own_depth = {"invariant_a()": 4, "check_b()": 6, "invariant_c()": 9}
        interp.contracts["halmos.__main__:run_test"] = lambda i, a, k: (made.append(a[0]), NS(name=a[0].info.sig, exitcode=0))[1]
        interp.contracts["halmos.solve:FunctionContext"] = lambda i, a, k: NS(**k)
        interp.contracts["halmos.__main__:with_devdoc"] = lambda i, a, k: LenientArgs(layer=("function", a[1]), base=a[0], invariant_depth=own_depth[a[1]], formatted_layers=lambda: "", debug=False, debug_config=False)
        interp.contracts["halmos.__main__:get_invariant_testing_context"] = lambda i, a, k: NS(tag="inv ctx")
        interp.contracts["halmos.__main__:print_invariant_targets"] = lambda i, a, k: None
        cctx = NS(args=LenientArgs(debug_config=False, debug=False, invariant_depth=2), method_identifiers={s: "11" for s in own_depth}, name="C", contract_json={}, set_invariant_testing_context=lambda c: None)
        res = interp.call(hm.run_tests, [cctx, setup_ex, list(own_depth)], {})
        ctx.oblige("one context per test", z3.BoolVal(len(made) == 3 and len(res) == 3))
        if len(made) == 3:
            ctx.oblige("the call-depth bound used for an invariant test is the one of its own configuration (function annotation included); a regular test makes no target calls", z3.BoolVal([m.max_call_depth for m in made] == [4, 0, 9]), info={"used": [m.max_call_depth for m in made]})
            ctx.oblige("the configuration handed to each test is its own", z3.BoolVal(all(m.args.layer == ("function", s) for m, s in zip(made, own_depth))))

    out.append(Case(f"{PROP}/__main__.run_tests", "two invariant tests with their own depth annotation and a regular test", harness_depth, replay=replay_script("invariant_depth_annotation.py", "invariant tests with a @custom:halmos --invariant-depth annotation"), sources=("halmos.__main__:run_tests",)))
    return out


class LenientArgs:
    """a configuration stub that answers the options a harness does not care about with halmos' defaults"""

    def __init__(self, **kw):
        self.__dict__.update(kw)

    def __getattr__(self, name):
        if name.startswith("__"):
            raise AttributeError(name)
        from contracts.common import config

        return getattr(config(), name)


def copy_cases():
    out = []

    def harness(interp):
        ctx = interp.ctx
        st = hs.State()
        st.stack.append(hb.HalmosBitVec(1))
        st.memory.set_slice(0, 2, ByteVec(b"\xaa\xbb"))
        c = interp.call(hs.State.__dict__["__deepcopy__"], [st, {}], {})
        c.stack.append(hb.HalmosBitVec(2))
        c.memory.set_slice(0, 1, ByteVec(b"\xff"))
        ctx.oblige("State copy: stack and memory of the copy are independent of the original", z3.BoolVal(c is not st and len(st.stack) == 1 and st.memory.slice(0, 2).unwrap() == b"\xaa\xbb" and c.memory.slice(0, 2).unwrap() == b"\xff\xbb"))
        k = hs.Contract(b"\x5b\x00")
        ctx.oblige("Contract is shared by copies (immutable up to its caches)", z3.BoolVal(interp.call(hs.Contract.__dict__["__deepcopy__"], [k, {}], {}) is k))
        m = ByteVec(b"\x01\x02\x03")
        c2 = interp.call(ByteVec.__dict__["copy"], [m], {})
        c2.set_slice(0, 1, ByteVec(b"\x09"))
        m.set_slice(2, 3, ByteVec(b"\x07"))
        ctx.oblige("ByteVec.copy: later writes to either are invisible to the other", z3.BoolVal(m.unwrap() == b"\x01\x02\x07" and c2.unwrap() == b"\x09\x02\x03"))
        reg = hs.KeccakRegistry()
        e = z3.BitVec("h", 256)
        reg.register(e, None)
        r2 = interp.call(hs.KeccakRegistry.__dict__["copy"], [reg], {})
        r2.register(z3.BitVec("h2", 256), None)
        ctx.oblige("KeccakRegistry.copy is independent", z3.BoolVal(len(reg._hash_ids) == 1 and len(r2._hash_ids) == 2))

    out.append(Case(f"{PROP}/copies-at-fork-points", "State, Contract, ByteVec, KeccakRegistry", harness, sources=("halmos.sevm:State.__deepcopy__", "halmos.contract:Contract.__deepcopy__", "halmos.bytevec:ByteVec.copy", "halmos.sevm:KeccakRegistry.copy")))
    return out


def build_cases(tier="quick"):
    from contracts import c02, c11

    ref = []
    for c in c02.path_cases():
        if "Path.branch" in c.unit:
            ref.append(Case(f"{PROP}/sevm.Path.branch", c.case, c.harness, replay=c.replay, sources=c.sources))
    for c in c11.path_growth_cases():
        if "extend_path" in c.unit:
            ref.append(Case(f"{PROP}/sevm.Path.extend_path", c.case, c.harness, replay=c.replay, sources=c.sources))
    # sibling continuations of one sub-call (every path leaving the callee runs the callback once) and the
    # hash registry handed to every test/path: ownership obligations proved in the C09 and C08 packs
    from contracts import c08, c09

    from contracts import c15

    for c in c15.frontier_cases():
        if "nested frame" in c.case:
            continue  # (a C13/C15 matter: what happens to a failure raised in a nested frame)
        ref.append(Case(f"{PROP}/__main__._compute_frontier#shared-call-sequence", c.case, c.harness, replay=c.replay, sources=c.sources))
    from contracts import c05

    for c in c05.context_cases():
        ref.append(Case(f"{PROP}/solve.SolvingContext#per-test-state", c.case, c.harness, replay=c.replay, sources=c.sources))
    for c in c09.create_cases():
        ref.append(Case(f"{PROP}/sevm.SEVM.create#callback-ownership", c.case, c.harness, replay=c.replay, sources=c.sources))
    for c in c09.callback_cases():
        ref.append(Case(f"{PROP}/sevm.SEVM.call#callback-ownership", c.case, c.harness, replay=c.replay, sources=c.sources))
    for c in c08.offsetmap_cases():
        if "KeccakRegistry" in c.unit:
            ref.append(Case(f"{PROP}/sevm.KeccakRegistry.copy", c.case, c.harness, replay=c.replay, sources=c.sources))
    # every test contract is deployed with a block of its own (C14's unit): the block cheatcodes write it in place
    from contracts import c14
    from contracts.common import rewrap

    ref += rewrap(PROP, c14.default_block_cases(), "per-deployment-block")
    # state built by one explored path is never visible to another: the running state keeps the shared solver only if it is taken next (C02's unit)
    ref += rewrap(PROP, c02.multi_return_cases(), "paths-apart-after-a-multi-valued-return")
    return classify_cases() + fork_cases() + main_cases() + copy_cases() + ref


ASSUMPTIONS = [
    "pyvc (VC generator, Python-subset semantics) is trusted",
    "ownership is checked on a representative rich state (storage, transient storage, memory, aliases, counters, hashes, keys, signatures, trace) by object identity to the depth each field needs; copy.deepcopy is trusted to return fresh deep-equal objects (the repo's own __deepcopy__/copy methods are executed from the AST)",
    "shared on purpose (whitelist, with the reason in the contract): the balance term (immutable), pgm/Contract (immutable up to caches), callback, call_sequence (never mutated in place), the z3 solver object of sibling paths (push/pop discipline of Path.branch/activate, C02), Path.term_to_vars (memo of a pure function)",
    "NOT CLAIMED: independence of verdicts from the random uid() suffixes (2-safety over two runs) and equality of outcomes across run orders (whole-history property); process-wide singletons (Mapper, BuildOut, the pinned-condition registry of C16, logs' duplicate filter) are shared across tests by design and are not state of the symbolic execution",
]
TRUSTED = ["pyvc (this repository's verifier)", "z3 4.12.6"]
TECHNIQUE = "ownership/frame contracts: real AST of the fork points executed by pyvc on a representative rich state; every field of Exec classified (introspected); identity-level obligations + frame tests; callee contracts for the per-test loop"
