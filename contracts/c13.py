"""C13 — assume and assert cheatcodes have exactly their stated meaning.

Units under contract:
  assertions.assert_cheatcode_handler (table)   ground, one obligation per entry read from the AST:
        key = first 4 bytes of keccak256(signature); the signature is a Forge-std assert* form;
        the table is exactly the set of supported forms (76 signatures)
  cheatcodes.*_sig constants                    ground: each constant equals keccak4 of the signature
        quoted in the adjacent `# bytes4(keccak256("..."))` comment (read with tokenize)
  assertions.mk_assert_handler -> vm_assert_binary/_unary -> mk_cond     by symbolic execution of
        the real bodies, for every table signature: the returned condition is equivalent, for ALL
        256-bit operand words, to the relation the signature names (unsigned for uint256, signed
        for int256, bit equality otherwise); bytes/string/array operands: equal iff same length and
        same content (all length pairs from a small set, contents symbolic); the log message is
        read from the right argument slot.  The calldata extractors (extract_bytes, extract_*_argument)
        are replaced by their contracts (callee by contract).
  cheatcodes.hevm_cheat_code.handle, assert arm and assume arm (fragments of the real body):
        for every pair of solver answers {unsat, sat, unknown}^2: the failing state exists exactly
        when not proved impossible, carries Not(cond) (proved equivalent by SMT) and FailCheatcode;
        the whole state fails only when cond is proved unsatisfiable; assume appends exactly word != 0.
"""
from __future__ import annotations

import ast
import io
import re
import tokenize

import z3

from pyvc import loader
from pyvc.interp import Env, PathEnd, SymBytes, _ENGINE
from pyvc.pack import Case, Ground

loader.import_repo()
import halmos.assertions as ha  # noqa: E402
import halmos.cheatcodes as hc  # noqa: E402
import halmos.sevm as hs  # noqa: E402
from halmos.exceptions import FailCheatcode, InfeasiblePath  # noqa: E402

PROP = "C13"


def keccak4(sig: str) -> int:
    from eth_hash.auto import keccak

    return int.from_bytes(keccak(sig.encode())[:4], "big")


def table_entries():
    """(selector, signature) pairs read from the AST of assertions.py"""
    sf = loader.module_file("halmos.assertions")
    for n in ast.walk(sf.tree):
        if isinstance(n, ast.Assign) and any(isinstance(t, ast.Name) and t.id == "assert_cheatcode_handler" for t in n.targets):
            if not isinstance(n.value, ast.Dict):
                raise loader.BindingError("assert_cheatcode_handler is not a dict literal")
            out = []
            for k, v in zip(n.value.keys, n.value.values):
                if not (isinstance(k, ast.Constant) and isinstance(k.value, int) and isinstance(v, ast.Call) and getattr(v.func, "id", None) == "mk_assert_handler" and len(v.args) == 1 and isinstance(v.args[0], ast.Constant)):
                    raise loader.BindingError(f"unexpected table entry at line {k.lineno}")
                out.append((k.value, v.args[0].value))
            return out
    raise loader.BindingError("assert_cheatcode_handler not found")


SCALARS = ["bool", "uint256", "int256", "address", "bytes32", "string", "bytes"]


def expected_signatures():
    out = []
    for op in ("True", "False"):
        out += [f"assert{op}(bool)", f"assert{op}(bool,string)"]
    for op in ("Eq", "NotEq"):
        for t in SCALARS:
            for arr in ("", "[]"):
                out += [f"assert{op}({t}{arr},{t}{arr})", f"assert{op}({t}{arr},{t}{arr},string)"]
    for op in ("Lt", "Gt", "Le", "Ge"):
        for t in ("uint256", "int256"):
            out += [f"assert{op}({t},{t})", f"assert{op}({t},{t},string)"]
    return out


def ground_table():
    out = []
    entries = table_entries()
    exp = set(expected_signatures())
    seen = set()
    for sel, sig in entries:
        out.append((f"table/{sig}/selector-is-keccak4", sel == keccak4(sig), f"table key {sel:#010x}, keccak4 = {keccak4(sig):#010x}"))
        out.append((f"table/{sig}/is-a-forge-std-assert-form", sig in exp, ""))
        out.append((f"table/{sig}/runtime-table-agrees", sel in ha.assert_cheatcode_handler, ""))
        seen.add(sig)
    out.append(("table/complete", seen == exp and len(entries) == len(exp), f"missing {sorted(exp - seen)[:5]} extra {sorted(seen - exp)[:5]} entries {len(entries)}"))
    # second, independently maintained table in the repo must not contradict it
    from halmos.utils import dict_of_unsupported_cheatcodes as unsup

    clash = [f"{sel:#x}: {sig} vs {unsup[sel]}" for sel, sig in entries if sel in unsup and unsup[sel] != sig]
    both = sum(1 for sel, _ in entries if sel in unsup)
    out.append(("table/agrees-with-the-repo's-second-selector-table", not clash, f"{both} selectors listed in both utils.dict_of_unsupported_cheatcodes and the handler table; disagreements: {clash[:5]}"))
    return out


def ground_sig_constants():
    sf = loader.module_file("halmos.cheatcodes")
    toks = list(tokenize.generate_tokens(io.StringIO(sf.text).readline))
    comments = {t.start[0]: t.string for t in toks if t.type == tokenize.COMMENT}
    out = []
    n = 0
    for node in ast.walk(sf.tree):
        if isinstance(node, ast.AnnAssign) and isinstance(node.target, ast.Name) and node.target.id.endswith("_sig") and isinstance(node.value, ast.Constant) and isinstance(node.value.value, int):
            c = None
            for ln in (node.lineno - 1, node.lineno - 2, node.lineno):
                m = re.search(r'keccak256\("([^"]+)"\)', comments.get(ln, ""))
                if m:
                    c = m.group(1)
                    break
            if c is None:
                continue
            n += 1
            out.append((f"sig-constant/{node.target.id}", node.value.value == keccak4(c), f"{node.target.id} = {node.value.value:#010x}, keccak4({c!r}) = {keccak4(c):#010x}"))
    out.append(("sig-constant/found-some", n >= 20, f"{n} constants with a signature comment"))
    a = hc.hevm_cheat_code.assume_sig
    out.append(("sig-constant/assume(bool)", a == keccak4("assume(bool)"), f"{a:#x}"))
    return out


# ---------------------------------------------------------------------------------------
class GhostCalldata:
    def __init__(self, words=None, bytes_args=None, arrays=None, has_msg=False):
        self.words = words or {}
        self.bytes_args = bytes_args or {}
        self.arrays = arrays or {}
        self.has_msg = has_msg
        self.msg_reads = []

    def get_word(self, off):
        return self.words[off]


def extractor_contracts(log):
    def extract_bytes(i, args, kwargs):
        data, off, size = args
        if type(data) is not GhostCalldata or size != 32 or off not in data.words:
            raise loader.BindingError(f"extract_bytes called outside its contract's domain: {off}, {size}")
        log.append(("word", off))
        return data.words[off]

    def extract_bytes_argument(i, args, kwargs):
        data, idx = args
        log.append(("bytes", idx))
        return data.bytes_args[idx]

    def extract_array(i, args, kwargs):
        data, idx = args
        log.append(("array", idx))
        return data.arrays[idx]

    def extract_string_argument(i, args, kwargs):
        data, idx = args
        log.append(("msg", idx))
        if not data.has_msg:
            raise ValueError("no string argument at this position")
        return "the message"

    return {
        "halmos.utils:extract_bytes": extract_bytes,
        "halmos.utils:extract_bytes_argument": extract_bytes_argument,
        "halmos.utils:extract_bytes32_array_argument": extract_array,
        "halmos.utils:extract_string_argument": extract_string_argument,
    }


def parse_sig(sig):
    m = re.fullmatch(r"assert(True|False|Eq|NotEq|Lt|Gt|Le|Ge)\(([^)]*)\)", sig)
    op = m.group(1)
    params = m.group(2).split(",")
    return op, params


def rel_word(op, typ, a, b):
    signed = typ == "int256"
    if op == "Eq":
        return a == b
    if op == "NotEq":
        return a != b
    if op == "Lt":
        return (a < b) if signed else z3.ULT(a, b)
    if op == "Gt":
        return (a > b) if signed else z3.UGT(a, b)
    if op == "Le":
        return (a <= b) if signed else z3.ULE(a, b)
    if op == "Ge":
        return (a >= b) if signed else z3.UGE(a, b)
    raise ValueError(op)


def rel_seq(op, la, a, lb, b):
    """byte/element sequences: equal iff same length and same content"""
    if la != lb:
        eq = z3.BoolVal(False)
    elif la == 0:
        eq = z3.BoolVal(True)
    else:
        eq = a == b
    return eq if op == "Eq" else z3.Not(eq)


def run_handler(interp, sig, arg):
    ctx = interp.ctx
    try:
        h = interp.call(ha.mk_assert_handler, [sig], {})
        return interp.call(h, [arg], {})
    except PathEnd:
        raise
    except BaseException as e:
        if isinstance(e, _ENGINE):
            raise
        ctx.oblige(f"no-exception[{type(e).__name__}]", z3.BoolVal(False), info={"msg": str(e)[:200]})
        return None


def handler_cases():
    out = []
    srcs = ("halmos.assertions:mk_assert_handler", "halmos.assertions:vm_assert_binary", "halmos.assertions:vm_assert_unary", "halmos.assertions:mk_cond")
    for sel, sig in table_entries():
        op, params = parse_sig(sig)
        unary = op in ("True", "False")
        has_msg = len(params) > (1 if unary else 2)
        typ = params[0]
        if typ in ("string[]", "bytes[]"):
            # documented unsupported: must be rejected with NotImplementedError, never mis-evaluated
            def harness(interp, sig=sig):
                ctx = interp.ctx
                try:
                    h = interp.call(ha.mk_assert_handler, [sig], {})
                    interp.call(h, [GhostCalldata()], {})
                    ctx.oblige("unsupported-type-rejected", z3.BoolVal(False))
                except NotImplementedError:
                    ctx.oblige("unsupported-type-rejected", z3.BoolVal(True))

            out.append(Case(f"{PROP}/assertions.handler", sig, harness, sources=srcs))
            continue

        def harness(interp, sig=sig, op=op, typ=typ, unary=unary, has_msg=has_msg):
            ctx = interp.ctx
            log = []
            interp.contracts.update(extractor_contracts(log))
            A, B = z3.BitVec("A", 256), z3.BitVec("B", 256)
            if unary:
                arg = GhostCalldata(words={4: A}, has_msg=has_msg)
                r = run_handler(interp, sig, arg)
                if r is None:
                    return
                want = (A != 0) if op == "True" else (A == 0)
                ctx.oblige("meaning", r.cond == want)
                ctx.oblige("message-slot", z3.BoolVal((("msg", 1) in log) == has_msg and (r.msg == "the message") == has_msg))
                return
            # operand representations: a symbolic term, or a *concrete* python bytes object whose
            # content is arbitrary (SymBytes: what the extractors return for concrete calldata)
            def operand(name, nbits, rep):
                if rep == "term":
                    return z3.BitVec(name, nbits), z3.BitVec(name, nbits)
                sym = ctx.new_int_input(name, nbits)
                return SymBytes(nbits // 8, sym), z3.BitVec(name, nbits)

            reps = ("term", "concrete")
            if typ in ("string", "bytes") or typ.endswith("[]"):
                unit = 8 if typ in ("string", "bytes") else 256
                lens = (0, 1, 2, 33) if unit == 8 else (0, 1, 2)
                k = ctx.choose(len(lens) ** 2, "lengths")
                la, lb = lens[k // len(lens)], lens[k % len(lens)]
                kr = ctx.choose(4, "representations")
                ra, rb = reps[kr // 2], reps[kr % 2]
                va, sa = (b"", None) if la == 0 else operand("A", la * unit, ra)
                vb, sb = (b"", None) if lb == 0 else operand("B", lb * unit, rb)
                d = {0: va, 1: vb}
                arg = GhostCalldata(bytes_args=d, arrays=d, has_msg=has_msg)
                r = run_handler(interp, sig, arg)
                if r is None:
                    return
                ctx.oblige("meaning/length-sensitive", r.cond == rel_seq(op, la, sa, lb, sb), info={"lengths": f"{la},{lb}", "representations": f"{ra},{rb}"})
                kind = "bytes" if unit == 8 else "array"
                ctx.oblige("operands-read-from-arguments-0-and-1", z3.BoolVal([e for e in log if e[0] == kind] == [(kind, 0), (kind, 1)]))
            else:
                kr = ctx.choose(4, "representations")
                ra, rb = reps[kr // 2], reps[kr % 2]
                va, _ = operand("A", 256, ra)
                vb, _ = operand("B", 256, rb)
                arg = GhostCalldata(words={4: va, 36: vb}, has_msg=has_msg)
                r = run_handler(interp, sig, arg)
                if r is None:
                    return
                ctx.oblige("meaning", r.cond == rel_word(op, typ, A, B), info={"representations": f"{ra},{rb}"})
                ctx.oblige("operands-read-from-words-4-and-36", z3.BoolVal([e for e in log if e[0] == "word"] == [("word", 4), ("word", 36)]))
            ctx.oblige("message-slot", z3.BoolVal((("msg", 2) in log) == has_msg and (r.msg == "the message") == has_msg))

        out.append(Case(f"{PROP}/assertions.handler", sig, harness, sources=srcs, replay=replay_handler(sig)))
    return out


def replay_seq(sig, op, params, r):
    """real handler on real ABI-encoded calldata with concrete bytes/string/array operands"""
    from halmos.bytevec import ByteVec

    typ = params[0]
    unit = 1 if typ in ("bytes", "string") else 32
    m = r.get("model") or {}
    try:
        la, lb = [int(x) for x in (r.get("info") or {}).get("lengths", "1,1").split(",")]
    except ValueError:
        la, lb = 1, 1

    def enc(payload, n_elems):
        return n_elems.to_bytes(32, "big") + payload + b"\0" * (-len(payload) % 32)

    cands = []
    if isinstance(m.get("A"), int) and isinstance(m.get("B"), int) and la and lb:
        cands.append((m["A"].to_bytes(la * unit, "big"), m["B"].to_bytes(lb * unit, "big")))
    z = b"\0" * unit
    one = (1).to_bytes(unit, "big")
    cands += [(z + one, one), (one, z + one), (one, one), (one + z, one), (z, z + z), (b"", z), (one, (2).to_bytes(unit, "big"))]
    h = ha.assert_cheatcode_handler.get(keccak4(sig)) or ha.mk_assert_handler(sig)
    for a, b in cands:
        ea, eb = enc(a, len(a) // unit), enc(b, len(b) // unit)
        em = enc(b"m", 1)
        head = (96).to_bytes(32, "big") + (96 + len(ea)).to_bytes(32, "big") + (96 + len(ea) + len(eb)).to_bytes(32, "big")
        data = keccak4(sig).to_bytes(4, "big") + head + ea + eb + em
        try:
            cond = h(ByteVec(data)).cond
            got = z3.is_true(z3.simplify(cond))
        except Exception as e:  # noqa
            return {"reproduced": True, "detail": f"{sig} on ({a.hex()},{b.hex()}) raised {type(e).__name__}: {e}"}
        want = (a == b) if op == "Eq" else (a != b)
        if got != want:
            return {"reproduced": True, "detail": f"{sig} with operands (0x{a.hex()}, 0x{b.hex()}): handler condition is {got}, the signature's relation is {want}", "inputs": [a.hex(), b.hex()]}
    return {"reproduced": False, "detail": "real handler agrees with the relation on the candidate operands and the solver's model"}


def replay_handler(sig):
    def replay(r):
        """drive the real handler with real ABI-encoded calldata for boundary operand values"""
        from halmos.bytevec import ByteVec

        op, params = parse_sig(sig)
        if op in ("True", "False"):
            return {"reproduced": None, "detail": "no concrete replay for this operand kind"}
        if params[0] not in ("uint256", "int256", "bool", "address", "bytes32"):
            return replay_seq(sig, op, params, r)
        vals = [0, 1, 2, 2**255 - 1, 2**255, 2**256 - 1]
        m = r.get("model") or {}
        for k in ("A", "B"):
            if isinstance(m.get(k), int):
                vals.append(m[k] % 2**256)
        h = ha.assert_cheatcode_handler.get(keccak4(sig)) or ha.mk_assert_handler(sig)
        for a in vals:
            for b in vals:
                data = keccak4(sig).to_bytes(4, "big") + a.to_bytes(32, "big") + b.to_bytes(32, "big") + (96).to_bytes(32, "big") + (1).to_bytes(32, "big") + b"m".ljust(32, b"\0")
                try:
                    cond = h(ByteVec(data)).cond
                    got = z3.is_true(z3.simplify(cond))
                except Exception as e:  # noqa
                    return {"reproduced": True, "detail": f"{sig} on ({a:#x},{b:#x}) raised {type(e).__name__}: {e}"}
                sa = a - 2**256 if a >= 2**255 and params[0] == "int256" else a
                sb = b - 2**256 if b >= 2**255 and params[0] == "int256" else b
                want = {"Eq": a == b, "NotEq": a != b, "Lt": sa < sb, "Gt": sa > sb, "Le": sa <= sb, "Ge": sa >= sb}[op]
                if got != want:
                    return {"reproduced": True, "detail": f"{sig} with operands ({a:#x}, {b:#x}): handler condition is {got}, the signature's relation is {want}", "inputs": [a, b]}
        return {"reproduced": False, "detail": "real handler agrees with the relation on the boundary grid and the solver's model"}

    return replay


# ---------------------------------------------------------------------------------------
class StubPath:
    def __init__(self):
        self.appended = []

    def append(self, cond, branching=False):
        self.appended.append((cond, branching))


class StubEx:
    def __init__(self, script, cond_probe):
        self.script = script
        self.cond_probe = cond_probe
        self.halted = []
        self.pc = 7
        self.checks = []
        self.path = StubPath()

    def check(self, c):
        self.checks.append(c)
        which = self.cond_probe(c)
        return self.script[which]

    def halt(self, data=None, error=None):
        self.halted.append((data, error))


class StubSevm:
    def __init__(self):
        self.branches = []

    def create_branch(self, ex, cond, pc):
        # contract of create_branch: the successor inherits what the parent path holds at the time of the call
        inh = [c[0] if isinstance(c, tuple) else c for c in ex.path.appended]
        nx = StubEx({}, None)
        self.branches.append((ex, z3.And(*inh, cond) if inh else cond, pc, nx))
        return nx


class StubStack:
    def __init__(self):
        self.pushed = []

    def push(self, x):
        self.pushed.append(x)


def _handle_fragment(mention):
    fn = hc.hevm_cheat_code.__dict__["handle"]
    fn = fn.__func__ if isinstance(fn, staticmethod) else fn
    sf, node = loader.func_node(fn)
    hits = [n for n in ast.walk(node) if isinstance(n, ast.If) and any((isinstance(x, ast.Name) and x.id == mention) or (isinstance(x, ast.Attribute) and x.attr == mention) for x in ast.walk(n.test))]
    if len(hits) != 1:
        raise loader.BindingError(f"expected exactly one arm of hevm_cheat_code.handle testing {mention}, found {len(hits)}")
    return fn, hits[0]


RES = {"unsat": z3.unsat, "sat": z3.sat, "unknown": z3.unknown}


def handle_arm_cases():
    out = []
    for rc in RES:
        for rn in RES:

            def harness(interp, rc=rc, rn=rn):
                from halmos.bytevec import ByteVec

                ctx = interp.ctx
                fn, arm = _handle_fragment("assert_cheatcode_handler")
                w = z3.BitVec("w", 256)
                cond_expected = w != 0

                def probe(c):
                    s = z3.Solver()
                    s.add(c != cond_expected)
                    if s.check() == z3.unsat:
                        return "cond"
                    s = z3.Solver()
                    s.add(c != z3.Not(cond_expected))
                    if s.check() == z3.unsat:
                        return "not"
                    raise loader.BindingError(f"ex.check called with an unexpected formula {c}")

                ex = StubEx({"cond": RES[rc], "not": RES[rn]}, probe)
                sevm, stack = StubSevm(), StubStack()
                arg = GhostCalldata(words={4: w})
                interp.contracts.update(extractor_contracts([]))
                env = Env({"sevm": sevm, "ex": ex, "arg": arg, "stack": stack, "funsig": keccak4("assertTrue(bool)"), "ret": ByteVec()}, None, fn.__globals__)
                kind, payload, _ = interp.exec_fragment(arm.body, env, qual="halmos.cheatcodes:hevm_cheat_code.handle#assert", is_gen=False)
                ctx.oblige("arm-returns-normally", z3.BoolVal(kind == "return" and isinstance(payload, ByteVec) and len(payload) == 0), info={"kind": kind, "payload": str(payload)[:100]})
                whole_fails = len(ex.halted) == 1 and isinstance(ex.halted[0][1], FailCheatcode)
                branch_fails = len(sevm.branches) == 1 and len(sevm.branches[0][3].halted) == 1 and isinstance(sevm.branches[0][3].halted[0][1], FailCheatcode) and stack.pushed == [sevm.branches[0][3]] and sevm.branches[0][0] is ex
                if rc == "unsat":
                    ctx.oblige("cond-proved-impossible: whole state fails", z3.BoolVal(whole_fails and not sevm.branches and not stack.pushed))
                elif rn != "unsat":
                    ctx.oblige("failure-not-excluded (sat or unknown): failing state is created and pushed", z3.BoolVal(branch_fails and not ex.halted), info={"branches": len(sevm.branches)})
                    if sevm.branches:
                        ctx.oblige("failing-state-carries-exactly-not-cond", sevm.branches[0][1] == z3.Not(cond_expected))
                        ctx.oblige("failing-state-resumes-at-the-same-pc", z3.BoolVal(sevm.branches[0][2] == ex.pc))
                else:
                    ctx.oblige("failure-proved-impossible: nothing fails", z3.BoolVal(not ex.halted and not sevm.branches and not stack.pushed))
                ctx.oblige("continuing-path-gets-no-extra-constraint", z3.BoolVal(ex.path.appended == []))

            out.append(Case(f"{PROP}/cheatcodes.hevm_cheat_code.handle#assert", f"check(cond)={rc},check(not cond)={rn}", harness, sources=("halmos.cheatcodes:hevm_cheat_code.handle",)))

    # the same arm composed with the real handler of every word-comparison assertion: the failing state must
    # carry exactly the negation of the *specified* relation (signed / unsigned), whatever object the handler returns
    BIN = [f"assert{op}({t},{t})" for op in ("Eq", "NotEq", "Lt", "Gt", "Le", "Ge") for t in ("uint256", "int256")] + ["assertEq(address,address)", "assertEq(bool,bool)", "assertEq(bytes32,bytes32)", "assertNotEq(bytes32,bytes32)"]
    known = {sig for _, sig in table_entries()}
    for sig in BIN:
        if sig not in known:
            continue
        for rc, rn in (("sat", "sat"), ("unknown", "unknown"), ("sat", "unknown")):

            def harness(interp, sig=sig, rc=rc, rn=rn):
                from halmos.bytevec import ByteVec

                ctx = interp.ctx
                fn, arm = _handle_fragment("assert_cheatcode_handler")
                op, params = parse_sig(sig)
                A, B = z3.BitVec("A", 256), z3.BitVec("B", 256)
                cond_expected = rel_word(op, params[0], A, B)
                unexpected = []

                def probe(c):
                    for name, f in (("cond", cond_expected), ("not", z3.Not(cond_expected))):
                        s_ = z3.Solver()
                        s_.add(c != f)
                        if s_.check() == z3.unsat:
                            return name
                    unexpected.append(c)
                    return "not"

                ex = StubEx({"cond": RES[rc], "not": RES[rn]}, probe)
                sevm, stack = StubSevm(), StubStack()
                arg = GhostCalldata(words={4: A, 36: B})
                interp.contracts.update(extractor_contracts([]))
                env = Env({"sevm": sevm, "ex": ex, "arg": arg, "stack": stack, "funsig": keccak4(sig), "ret": ByteVec()}, None, fn.__globals__)
                kind, payload, _ = interp.exec_fragment(arm.body, env, qual="halmos.cheatcodes:hevm_cheat_code.handle#assert", is_gen=False)
                ctx.oblige("arm-returns-normally", z3.BoolVal(kind == "return"), info={"kind": kind, "payload": str(payload)[:100]})
                ctx.oblige("the solver is asked only about the specified relation and its negation", z3.BoolVal(not unexpected), info={"asked": str(unexpected)[:200]})
                ok = len(sevm.branches) == 1 and not ex.halted and stack.pushed == [sevm.branches[0][3]]
                ctx.oblige("failure-not-excluded: exactly one failing state is created and pushed", z3.BoolVal(ok))
                if sevm.branches:
                    ctx.oblige("failing-state-carries-exactly-the-negation-of-the-specified-relation", sevm.branches[0][1] == z3.Not(cond_expected))
                ctx.oblige("continuing-path-gets-no-extra-constraint", z3.BoolVal(ex.path.appended == []))

            out.append(Case(f"{PROP}/cheatcodes.hevm_cheat_code.handle#assert", f"{sig}; check(cond)={rc},check(not cond)={rn}", harness, replay=replay_assert_boundary(sig), sources=("halmos.cheatcodes:hevm_cheat_code.handle", "halmos.assertions:vm_assert_binary", "halmos.assertions:mk_cond")))

    for kind_w in ("term", "zero", "one"):

        def harness(interp, kind_w=kind_w):
            from halmos.bytevec import ByteVec

            ctx = interp.ctx
            fn, arm = _handle_fragment("assume_sig")
            w = {"term": z3.BitVec("w", 256), "zero": 0, "one": 1}[kind_w]
            ex = StubEx({}, None)
            arg = GhostCalldata(words={4: w})
            env = Env({"sevm": StubSevm(), "ex": ex, "arg": arg, "stack": StubStack(), "funsig": hc.hevm_cheat_code.assume_sig, "ret": ByteVec()}, None, fn.__globals__)
            kind, payload, _ = interp.exec_fragment(arm.body, env, qual="halmos.cheatcodes:hevm_cheat_code.handle#assume", is_gen=False)
            if kind_w == "zero":
                ctx.oblige("assume(false)-is-infeasible-path", z3.BoolVal(kind == "raise" and isinstance(payload, InfeasiblePath) and ex.path.appended == []))
                return
            ctx.oblige("arm-returns-normally", z3.BoolVal(kind == "return"), info={"kind": kind, "payload": str(payload)[:100]})
            ok = len(ex.path.appended) == 1 and ex.path.appended[0][1] is True
            ctx.oblige("one-branching-condition-appended", z3.BoolVal(ok))
            if ok:
                c = ex.path.appended[0][0]
                want = (w != 0) if kind_w == "term" else z3.BoolVal(True)
                ctx.oblige("appended-condition-is-exactly-word-nonzero", c == want)
            ctx.oblige("nothing-halted", z3.BoolVal(ex.halted == []))

        out.append(Case(f"{PROP}/cheatcodes.hevm_cheat_code.handle#assume", kind_w, harness, sources=("halmos.cheatcodes:hevm_cheat_code.handle",)))
    return out


def replay_assert_boundary(sig):
    """real hevm_cheat_code.handle on a real Exec: the union of the failing states' conditions is the negation of the relation"""

    def replay(r):
        from contracts.common import mk_ex, mk_sevm
        from halmos.bytevec import ByteVec

        op, params = parse_sig(sig)
        sevm = mk_sevm()
        ex = mk_ex(sevm, b"\x00")
        A, B = z3.BitVec("A", 256), z3.BitVec("B", 256)
        arg = ByteVec(keccak4(sig).to_bytes(4, "big"))
        arg.append(A)
        arg.append(B)
        stack = hs.Worklist()
        n0 = len(ex.path.conditions)
        try:
            hc.hevm_cheat_code.handle(sevm, ex, arg, stack)
        except Exception as e:  # noqa
            return {"reproduced": True, "detail": f"{sig}: handle raised {type(e).__name__}: {e}"}
        fails = []
        while True:
            nx = stack.pop()
            if nx is None:
                break
            fails.append(z3.And(*nx.path.pending) if nx.path.pending else z3.BoolVal(True))
        rel = rel_word(op, params[0], A, B)
        s_ = z3.Solver()
        s_.add(z3.Or(*fails) != z3.Not(rel) if fails else z3.Not(rel))
        if s_.check() == z3.sat:
            m = s_.model()
            return {"reproduced": True, "detail": f"{sig} with symbolic operands: the failing state(s) carry {[str(f) for f in fails]}, which is not the negation of the relation, e.g. for A={m.eval(A, True)}, B={m.eval(B, True)}", "inputs": f"A={m.eval(A, True)}, B={m.eval(B, True)}"}
        return {"reproduced": False, "detail": f"{sig}: the failing state carries exactly the negation of the relation"}

    return replay


def delayed_error_cases():
    """SEVM.run loop head: a state that was pushed with a stored failure (the failing branch of vm.assert*) is
    activated first, so the negated assertion is part of its path constraints when it is reported"""
    from contracts.common import mk_ex, mk_sevm

    out = []

    def harness(interp):
        ctx = interp.ctx
        sf, fn = loader.find_unit("halmos.sevm:SEVM.run")
        loops = [n for n in ast.walk(fn) if isinstance(n, ast.While)]
        if len(loops) != 1:
            raise loader.BindingError("expected one main loop in SEVM.run")
        tr = [n for n in loops[0].body if isinstance(n, ast.Try)]
        if len(tr) != 1:
            raise loader.BindingError("expected one try block in the main loop of SEVM.run")
        body = tr[0].body
        cut = next((i for i, st in enumerate(body) if isinstance(st, (ast.Assign, ast.AnnAssign)) and "ex.insn" in ast.unparse(st)), None)
        if cut is None:
            raise loader.BindingError("loop head of SEVM.run not recognised (no `insn = ex.insn`)")
        head = body[:cut]
        sevm = mk_sevm()
        ex0 = mk_ex(sevm, b"\x00")
        A, B = z3.BitVecs("A B", 256)
        not_cond = z3.Not(z3.ULT(A, B))
        nx = sevm.create_branch(ex0, not_cond, ex0.pc)
        err = FailCheatcode("assertLt")
        from halmos.bytevec import ByteVec

        nx.halt(data=ByteVec(), error=err)
        ctx.oblige("precondition (C13 handle#assert): the failing state is created with the negated assertion pending", z3.BoolVal(list(nx.path.pending) == [not_cond] or (len(nx.path.pending) == 1 and z3.eq(nx.path.pending[0], not_cond))))
        env = Env({"self": sevm, "ex": nx, "next_ex": nx, "step_id": 0, "step_interval_mask": 1023, "no_status": True, "stack": hs.Worklist(), "start_time": 0.0, "fun_name": "f", "call_seq_str": "", "max_depth": 0, "print_steps": False, "coverage_output": None, "profile_instructions": False}, None, hs.__dict__)
        kind, payload, yields = interp.exec_fragment(head, env, qual="halmos.sevm:SEVM.run#loop-head")
        ctx.oblige("the stored failure of a popped state is raised by the loop head (and handled by the FailCheatcode arm)", z3.BoolVal(kind == "raise" and payload is err), info={"kind": kind, "payload": str(payload)[:100]})
        conds = [c for c in nx.path.conditions]
        s_ = z3.Solver()
        s_.add(z3.And(*conds) if conds else z3.BoolVal(True))
        s_.add(z3.ULT(A, B))
        ctx.oblige("when the failure is raised the path has been activated: nothing pending, and the path constraints imply the negated assertion", z3.BoolVal(len(nx.path.pending) == 0 and s_.check() == z3.unsat), info={"pending": str(nx.path.pending)[:100], "conditions": str(conds)[:200]})

    out.append(Case(f"{PROP}/sevm.SEVM.run#loop-head", "popped state with a stored assertion failure and a pending condition", harness, replay=replay_delayed_error, sources=("halmos.sevm:SEVM.run", "halmos.sevm:Path.activate")))
    return out


def replay_delayed_error(r):
    """real SEVM.run on a program that calls vm.assertLt(x, y) with symbolic operands: every reported failing path must imply x >= y"""
    from contracts.common import mk_ex, mk_sevm
    from halmos.bytevec import ByteVec

    sig = keccak4("assertLt(uint256,uint256)")
    # mem[0..4) = selector, mem[4..36) = calldata word 0, mem[36..68) = calldata word 1; STATICCALL vm; STOP
    code = bytes([0x63]) + sig.to_bytes(4, "big") + bytes([0x60, 0xE0, 0x1B, 0x60, 0x00, 0x52])  # PUSH4 sel; PUSH1 224; SHL; PUSH1 0; MSTORE
    code += bytes([0x60, 0x00, 0x35, 0x60, 0x04, 0x52, 0x60, 0x20, 0x35, 0x60, 0x24, 0x52])  # calldata words to memory
    vm = hc.hevm_cheat_code.address.as_long() if hasattr(hc.hevm_cheat_code.address, "as_long") else int(hc.hevm_cheat_code.address)
    code += bytes([0x60, 0x00, 0x60, 0x00, 0x60, 0x44, 0x60, 0x00, 0x73]) + vm.to_bytes(20, "big") + bytes([0x5A, 0xFA, 0x50, 0x00])  # STATICCALL(gas, vm, 0, 0x44, 0, 0); POP; STOP
    sevm = mk_sevm()
    x, y = z3.BitVecs("x y", 256)
    data = ByteVec(x)
    data.append(y)
    ex = mk_ex(sevm, code, data=data)
    outs = list(sevm.run(ex))
    bad = []
    for o in outs:
        e = o.context.output.error
        if isinstance(e, FailCheatcode):
            s_ = z3.Solver()
            s_.add(*list(o.path.conditions))
            s_.add(z3.ULT(x, y))
            if s_.check() == z3.sat:
                m = s_.model()
                bad.append(f"x={m.eval(x, True)}, y={m.eval(y, True)}")
    if bad:
        return {"reproduced": True, "detail": f"program vm.assertLt(x, y) with symbolic calldata: a path reported as an assertion failure admits {bad[0]} for which x < y holds (the negated assertion is not among its constraints)", "inputs": bad[0]}
    if not any(isinstance(o.context.output.error, FailCheatcode) for o in outs):
        return {"reproduced": None, "detail": f"no failing path was reported ({len(outs)} paths)"}
    return {"reproduced": False, "detail": "every reported assertion-failure path implies x >= y"}


def build_cases(tier="quick"):
    # the failing branch of an assertion keeps exactly its own constraints only if it does not share the parent's table
    from contracts import c02

    ref = [Case(f"{PROP}/sevm.Path.branch#conditions-owned", c.case, c.harness, replay=c.replay, sources=c.sources) for c in c02.path_cases() if "Path.branch" in c.unit or "Path.activate" in c.unit]
    # vm.assume of one test must not restrict the tests run after it: the test's path owns its condition table (C11's unit)
    from contracts import c11
    from contracts.common import rewrap

    ref += rewrap(PROP, c11.path_growth_cases(), "assume-scope", lambda c: "extend_path" in c.unit)
    # `even when the failing call happens inside a nested call`: also for the calls made during invariant testing (C15's unit)
    from contracts import c15

    # vm.assume restricts the REMAINDER of the path: the query of a later assertion still carries it, also for a test path that extends a
    # sliced setUp path (C11's unit)
    ref += rewrap(PROP, c11.to_smt2_cases(), "assumptions-stay-in-the-query")
    ref += rewrap(PROP, c15.frontier_cases(), "nested-failure-in-target", lambda c: c.case in ("fail-flag", "fail-flag, raised in a nested frame"))
    return handler_cases() + handle_arm_cases() + delayed_error_cases() + ref


def ground_message_total():
    """the handler proofs replace extract_string_argument by `returns a message`: it must do so for EVERY byte content of the string
    (a solidity string holds arbitrary bytes).  Exhaustive family, evaluated natively on the real extractor: every string of 0, 1
    and 2 bytes (65793 strings) and the 256 three-byte strings e2 82 xx, as argument 1 of a (bool,string) call"""
    import halmos.utils as hu
    from halmos.bytevec import ByteVec

    def calldata(msg):
        return ByteVec(b"\x00" * 4 + (1).to_bytes(32, "big") + (64).to_bytes(32, "big") + len(msg).to_bytes(32, "big") + msg.ljust(32, b"\x00"))

    bad, n = [], 0
    fam = [b""] + [bytes([a]) for a in range(256)] + [bytes([a, b]) for a in range(256) for b in range(256)] + [bytes([0xE2, 0x82, c]) for c in range(256)]
    for msg in fam:
        n += 1
        try:
            r = hu.extract_string_argument(calldata(msg), 1)
            if not isinstance(r, str):
                bad.append((msg.hex(), f"returned {type(r).__name__}"))
        except Exception as e:  # noqa
            if len(bad) < 3:
                bad.append((msg.hex(), f"{type(e).__name__}: {str(e)[:60]}"))
    return [(f"extract_string_argument returns a message for every byte content ({n} strings): an assertion is evaluated whatever its log message holds", not bad, f"first failures (hex of the string, outcome): {bad[:2]}")]


def ground_bytes_operand():
    """the operands of assertEq(bytes,bytes) / (string,string) are read by extract_bytes_argument: a concrete length gives exactly that many bytes
    (0, 1, 31, 32, 33, 64), a SYMBOLIC offset or length is given up with NotConcreteError (the path is flagged), never read as an empty operand"""
    import halmos.utils as hu
    from halmos.bytevec import ByteVec
    from halmos.exceptions import NotConcreteError

    out = []
    bad = []
    for n in (0, 1, 31, 32, 33, 64):
        payload = bytes(range(1, n + 1))
        data = ByteVec(b"\xaa" * 4 + (32).to_bytes(32, "big") + n.to_bytes(32, "big") + payload.ljust((n + 31) // 32 * 32, b"\x00"))
        try:
            got = hu.extract_bytes_argument(data, 0)
            got = got.unwrap() if hasattr(got, "unwrap") else got
            if got != payload:
                bad.append((n, repr(got)[:40]))
        except Exception as e:  # noqa
            bad.append((n, f"{type(e).__name__}"))
    out.append(("extract_bytes_argument returns exactly `length` bytes for concrete lengths 0, 1, 31, 32, 33, 64", not bad, str(bad[:3])))
    res = []
    for which in ("length", "offset"):
        ln = z3.BitVec("len_word", 256)
        words = [(32).to_bytes(32, "big") if which == "length" else z3.BitVec("off_word", 256), ln if which == "length" else (3).to_bytes(32, "big"), b"abc".ljust(32, b"\x00")]
        data = ByteVec([b"\xaa" * 4] + words)
        try:
            got = hu.extract_bytes_argument(data, 0)
            res.append((which, f"returned {got!r}"[:60]))
        except NotConcreteError:
            pass
        except Exception as e:  # noqa
            res.append((which, f"{type(e).__name__}: {e}"[:80]))
    out.append(("a symbolic offset or length word of a bytes/string operand gives the path up with NotConcreteError (flagged), it is never read as an empty operand", not res, str(res)))
    return out


def grounds():
    return [Ground(f"{PROP}/utils.extract_bytes_argument", ground_bytes_operand, sources=("halmos.utils:extract_bytes_argument",)), Ground(f"{PROP}/utils.extract_string_argument#total", ground_message_total, sources=("halmos.utils:extract_string_argument",)), Ground(f"{PROP}/assertions.assert_cheatcode_handler", ground_table, sources=()), Ground(f"{PROP}/cheatcodes.sig-constants", ground_sig_constants)]


ASSUMPTIONS = [
    "pyvc (VC generator, Python-subset semantics) is trusted; path covers guard vacuity",
    "eth_hash keccak256 is the standard Keccak-256; the list of Forge-std assert* forms is generated from the grammar in expected_signatures() (Forge-std is not vendored in this sandbox)",
    "calldata extractors (extract_bytes, extract_bytes_argument, extract_bytes32_array_argument, extract_string_argument) are replaced by their contracts in the handler proofs: operand i is what the ABI encoding holds at slot i; their bodies (ByteVec slicing, C07) are not proved in this round",
    "bytes/string/array operands: lengths from {0,1,2,33} bytes / {0,1,2} elements (all pairs), contents fully symbolic",
    "Exec.check is abstracted by its answer (unsat / sat / unknown); z3 `unsat` is trusted to mean unsatisfiable",
    "nesting: is_global_fail_set and the FailCheatcode handling in SEVM.run are not under contract in this round",
]
TRUSTED = ["pyvc (this repository's verifier)", "z3 4.12.6 (QF_BV)", "eth_hash keccak", "the relation named by each signature as transcribed in rel_word / rel_seq"]
