"""C14 — prank, state-setting cheatcodes and fresh symbols behave as specified.

Units under contract (bodies from the AST on every run):
  cheatcodes.Prank.{prank,startPrank,stopPrank,lookup,__bool__}, PrankResult.__bool__
        two-field state machine (active, keep): prank/startPrank succeed iff no prank is active and
        record (sender, origin, keep); lookup(to) hands the active prank to a call whose target is
        not a cheatcode address and consumes it iff it is a one-shot prank; cheatcode calls never see
        or consume it; stopPrank clears.  Proved for every target address (int-backed symbolic,
        term-backed) and every sender/origin.
  sevm.Exec.resolve_prank          caller/origin of the outgoing message = pranked values, else this/origin
  sevm.py / __main__.py            every CallContext(...) construction passes no prank (fresh Prank per
                                   frame and per transaction)                        [syntactic, all sites]
  cheatcodes.hevm_cheat_code.handle   prank / prank(2) / startPrank / startPrank(2) / stopPrank arms;
        deal, fee, chainId, coinbase, difficulty, roll, warp arms composed with the reading arm of
        SEVM.run (BALANCE/SELFBALANCE, BASEFEE, CHAINID, COINBASE, DIFFICULTY, NUMBER, TIMESTAMP):
        the read pushes exactly the supplied word, for the targeted account only
  cheatcodes.create_*              width, encoding (zero / sign extension, left alignment, length prefix),
        bits > 256 rejected, range constraints exactly min <= v <= max, label carries a counter that
        strictly increases along the path (fresh, independent symbol)
"""
from __future__ import annotations

import ast
import itertools
import re

import z3

from pyvc import loader
from pyvc.interp import _ENGINE, Env, PathEnd
from pyvc.pack import Case, Ground
from pyvc.sym import SymInt

loader.import_repo()
import halmos.bitvec as hb  # noqa: E402
import halmos.cheatcodes as hc  # noqa: E402
import halmos.sevm as hs  # noqa: E402
from halmos.bytevec import ByteVec  # noqa: E402
from halmos.exceptions import HalmosException  # noqa: E402

PROP = "C14"
CHEATS = (hc.halmos_cheat_code.address, hc.hevm_cheat_code.address)


class NS:
    def __init__(self, **kw):
        self.__dict__.update(kw)


def mk_addr(ctx, name, kind):
    """an address operand: int-backed with an arbitrary value, term-backed, or one of the cheatcode addresses"""
    if kind == "int":
        o = object.__new__(hb.HalmosBitVec)
        o._size = 160
        o._value = ctx.new_int_input(name, 160)
        o._symbolic = False
        return o
    if kind == "term":
        return hb.HalmosBitVec(z3.BitVec(name, 160), size=160)
    if kind == "hevm":
        return hc.hevm_cheat_code.address
    if kind == "svm":
        return hc.halmos_cheat_code.address
    raise ValueError(kind)


def den_addr(o):
    v = o._value
    if type(v) is SymInt:
        return v.view[0]
    if isinstance(v, int):
        return z3.BitVecVal(v, 160)
    return v


def guarded(interp, thunk):
    try:
        return True, thunk()
    except PathEnd:
        raise
    except BaseException as e:
        if isinstance(e, _ENGINE):
            raise
        interp.ctx.oblige(f"no-exception[{type(e).__name__}]", z3.BoolVal(False), info={"msg": str(e)[:200]})
        return False, None


def replay_prank(r):
    """real Prank objects against the reference state machine, over all states x operations x targets"""
    S, O, S2 = z3.BitVec("sender", 160), z3.BitVec("origin", 160), z3.BitVec("sender2", 160)
    targets = [hb.HalmosBitVec(0x1234, size=160), hb.HalmosBitVec(z3.BitVec("to", 160), size=160), hc.hevm_cheat_code.address, hc.halmos_cheat_code.address, hb.HalmosBitVec(int(hc.hevm_cheat_code.address) + 1, size=160)]
    for active, keep in ((None, False), ((S, None), False), ((S, O), False), ((S, None), True), ((S, O), True)):
        def mk():
            return hc.Prank() if active is None else hc.Prank(active=hc.PrankResult(sender=active[0], origin=active[1]), keep=keep)

        for to in targets:
            p = mk()
            cheat = any(to is c for c in CHEATS)
            res = p.lookup(to)
            want_applied = active is not None and not cheat
            got_applied = res.sender is not None or res.origin is not None
            consumed = not bool(p.active)
            want_consumed = (active is None) or (want_applied and not keep)
            if got_applied != want_applied or (want_applied and (res.sender is not active[0] or res.origin is not active[1])) or consumed != want_consumed:
                return {"reproduced": True, "detail": f"Prank(active={active}, keep={keep}).lookup({to}): applied={got_applied} (expected {want_applied}), record cleared={consumed} (expected {want_consumed})", "inputs": str(to)}
        for op, args in (("prank", (S2,)), ("prank", (S2, O)), ("startPrank", (S2,)), ("startPrank", (S2, O)), ("stopPrank", ())):
            p = mk()
            ret = getattr(p, op)(*args)
            if op == "stopPrank":
                ok = ret is True and not bool(p.active) and p.keep is False
            elif active is not None:
                ok = ret is False and p.active.sender is active[0] and p.keep is keep
            else:
                ok = ret is True and p.active.sender is S2 and p.active.origin is (args[1] if len(args) > 1 else None) and p.keep is (op == "startPrank")
            if not ok:
                return {"reproduced": True, "detail": f"Prank(active={active}, keep={keep}).{op}{args} returned {ret} leaving active={p.active}, keep={p.keep}", "inputs": op}
    return {"reproduced": False, "detail": "real Prank agrees with the reference state machine on all states x operations x targets"}


# ---------------------------------------------------------------------------------------
def prank_cases():
    out = []
    P = hc.Prank.__dict__
    S, O, S2 = z3.BitVec("sender", 160), z3.BitVec("origin", 160), z3.BitVec("sender2", 160)

    states = {
        "inactive": lambda: hc.Prank(),
        "one-shot(sender)": lambda: hc.Prank(active=hc.PrankResult(sender=S), keep=False),
        "one-shot(sender,origin)": lambda: hc.Prank(active=hc.PrankResult(sender=S, origin=O), keep=False),
        "started(sender)": lambda: hc.Prank(active=hc.PrankResult(sender=S), keep=True),
        "started(sender,origin)": lambda: hc.Prank(active=hc.PrankResult(sender=S, origin=O), keep=True),
    }
    for sname, mk in states.items():
        for op in ("prank(1)", "prank(2)", "startPrank(1)", "startPrank(2)", "stopPrank"):

            def harness(interp, mk=mk, op=op, sname=sname):
                ctx = interp.ctx
                p = mk()
                a0, k0 = p.active, p.keep
                origin = O if "(2)" in op else None
                if op.startswith("prank"):
                    ok, r = guarded(interp, lambda: interp.call(P["prank"], [p, S2] + ([origin] if origin is not None else []), {}))
                elif op.startswith("startPrank"):
                    ok, r = guarded(interp, lambda: interp.call(P["startPrank"], [p, S2] + ([origin] if origin is not None else []), {}))
                else:
                    ok, r = guarded(interp, lambda: interp.call(P["stopPrank"], [p], {}))
                if not ok:
                    return
                was_active = sname != "inactive"
                if op == "stopPrank":
                    ctx.oblige("stopPrank clears the prank (allowed when none is active)", z3.BoolVal(r is True and not bool(p.active) and p.active.sender is None and p.active.origin is None and p.keep is False))
                elif was_active:
                    ctx.oblige("a second prank while one is active is refused and changes nothing", z3.BoolVal(r is False and p.active is a0 and p.keep is k0))
                else:
                    want_keep = op.startswith("startPrank")
                    ctx.oblige("prank accepted: records exactly (sender, origin) and whether it persists", z3.BoolVal(r is True and p.active.sender is S2 and p.active.origin is origin and p.keep is want_keep))

            out.append(Case(f"{PROP}/cheatcodes.Prank", f"{sname};{op}", harness, replay=replay_prank, sources=("halmos.cheatcodes:Prank.prank", "halmos.cheatcodes:Prank.startPrank", "halmos.cheatcodes:Prank.stopPrank")))

        for tk in ("int", "term", "hevm", "svm"):

            def harness_lookup(interp, mk=mk, tk=tk, sname=sname):
                ctx = interp.ctx
                p = mk()
                a0, k0 = p.active, p.keep
                to = mk_addr(ctx, "to", tk)
                ok, r = guarded(interp, lambda: interp.call(P["lookup"], [p, to], {}))
                if not ok:
                    return
                t = den_addr(to)
                is_cheat = z3.Or(*[t == den_addr(c) for c in CHEATS])
                was_active = sname != "inactive"
                got_active = r is a0 and was_active
                got_none = (r.sender is None and r.origin is None)
                if was_active:
                    if tk == "term":
                        # a symbolic target is never a cheatcode call (cheatcode calls need the literal address)
                        ctx.oblige("active prank is applied to a call to a (symbolic) non-cheatcode address", z3.BoolVal(got_active))
                    else:
                        ctx.oblige("active prank is applied iff the target is not a cheatcode address", z3.BoolVal(got_active) == z3.Not(is_cheat), info={"returned": str(r)[:60]})
                        ctx.oblige("a cheatcode call sees no prank", z3.Implies(is_cheat, z3.BoolVal(got_none)))
                    if got_active:
                        if k0:
                            ctx.oblige("startPrank persists after the call", z3.BoolVal(p.active is a0 and p.keep is True))
                        else:
                            ctx.oblige("a one-shot prank is consumed by the call", z3.BoolVal(not bool(p.active) and p.active.sender is None and p.keep is False))
                    else:
                        ctx.oblige("a cheatcode call does not consume the prank", z3.BoolVal(p.active is a0 and p.keep is k0))
                else:
                    ctx.oblige("no prank active: nothing is applied and nothing changes", z3.BoolVal(got_none and p.active is a0 and p.keep is k0))

            out.append(Case(f"{PROP}/cheatcodes.Prank.lookup", f"{sname};to={tk}", harness_lookup, replay=replay_prank, sources=("halmos.cheatcodes:Prank.lookup", "halmos.cheatcodes:Prank.__bool__", "halmos.cheatcodes:PrankResult.__bool__")))
    return out


def resolve_prank_cases():
    out = []
    S, O = z3.BitVec("sender", 160), z3.BitVec("origin", 160)
    for name, res in (("no prank", hc.NO_PRANK), ("sender only", hc.PrankResult(sender=S)), ("sender and origin", hc.PrankResult(sender=S, origin=O))):

        def harness(interp, res=res):
            ctx = interp.ctx
            asked = []
            ex = object.__new__(hs.Exec)
            THIS, ORIGIN = z3.BitVec("this", 160), z3.BitVec("tx_origin", 160)
            ex.context = NS(prank=NS(lookup=lambda to: (asked.append(to), res)[1]), message=NS(target=THIS, origin=ORIGIN))
            to = hb.HalmosBitVec(z3.BitVec("to", 160), size=160)
            r = interp.call(hs.Exec.__dict__["resolve_prank"], [ex, to], {})
            want = (THIS if res.sender is None else res.sender, ORIGIN if res.origin is None else res.origin)
            ctx.oblige("the prank record is consulted exactly once, for this call's target", z3.BoolVal(asked == [to]))
            ctx.oblige("msg.sender / tx.origin of the outgoing message: pranked values where set, otherwise this / the current origin", z3.BoolVal(isinstance(r, tuple) and len(r) == 2 and r[0] is want[0] and r[1] is want[1]))

        out.append(Case(f"{PROP}/sevm.Exec.resolve_prank", name, harness, sources=("halmos.sevm:Exec.resolve_prank",)))
    return out


def ground_fresh_prank():
    """every construction of a CallContext starts with a fresh Prank (no prank= argument), so a prank
    never leaks into nested frames or later transactions; the caller's own record travels only with
    deepcopy(ex.context)"""
    out = []
    n = 0
    for mod in ("halmos.sevm", "halmos.__main__", "halmos.cheatcodes"):
        sf = loader.module_file(mod)
        # enclosing function of each construction site (ids must not depend on line numbers)
        owner = {}
        for fn_node in ast.walk(sf.tree):
            if isinstance(fn_node, (ast.FunctionDef, ast.AsyncFunctionDef)):
                for sub in ast.walk(fn_node):
                    if isinstance(sub, ast.Call):
                        owner[id(sub)] = getattr(fn_node, "_qual", fn_node.name)  # innermost wins (walk order: outer first)
        per_fn = {}
        for node in ast.walk(sf.tree):
            if isinstance(node, ast.Call) and getattr(node.func, "id", None) == "CallContext":
                n += 1
                q = owner.get(id(node), "<module>")
                per_fn[q] = per_fn.get(q, 0) + 1
                kws = [k.arg for k in node.keywords]
                out.append((f"fresh-prank/{mod}:{q}#{per_fn[q]}", "prank" not in kws and len(node.args) <= 1, f"CallContext({', '.join(k for k in kws if k)}) in {q} (line {node.lineno})"))
    out.append(("fresh-prank/construction-sites-found", n >= 5, f"{n} CallContext(...) sites"))
    f = hs.CallContext.__dataclass_fields__["prank"]
    fresh = f.default_factory is hc.Prank
    a, b = hs.CallContext(message=None), hs.CallContext(message=None)
    out.append(("fresh-prank/default-is-a-new-Prank-per-context", fresh and a.prank is not b.prank and not bool(a.prank), ""))
    sf = loader.module_file("halmos.sevm")
    src = sf.text
    out.append(("call-and-create-resolve-the-prank-exactly-once", len(re.findall(r"ex\.resolve_prank\(", src)) == 2 and "pranked_caller, pranked_origin = ex.resolve_prank(to)" in src, "call(): resolve_prank(to); create(): resolve_prank(...)"))
    return out


# ---------------------------------------------------------------------------------------
class WordCalldata:
    def __init__(self, words):
        self.words = words

    def get_word(self, off):
        return self.words[off]


def _handle_arm(mention):
    fn = hc.hevm_cheat_code.__dict__["handle"]
    fn = fn.__func__ if isinstance(fn, staticmethod) else fn
    sf, node = loader.func_node(fn)
    hits = [n for n in ast.walk(node) if isinstance(n, ast.If) and isinstance(n.test, ast.Compare) and any(isinstance(x, ast.Attribute) and x.attr == mention for x in ast.walk(n.test))]
    if len(hits) != 1:
        raise loader.BindingError(f"expected exactly one arm of hevm_cheat_code.handle testing {mention}, found {len(hits)}")
    return fn, hits[0]


def prank_arm_cases():
    out = []
    arms = {"prank_sig": ("prank", 1), "prank_addr_addr_sig": ("prank", 2), "start_prank_sig": ("startPrank", 1), "start_prank_addr_addr_sig": ("startPrank", 2), "stop_prank_sig": ("stopPrank", 0)}
    for sig, (meth, nargs) in arms.items():
        for accepted in (True, False):

            def harness(interp, sig=sig, meth=meth, nargs=nargs, accepted=accepted):
                ctx = interp.ctx
                fn, arm = _handle_arm(sig)
                calls = []

                def rec(name):
                    def f(*a):
                        calls.append((name, a))
                        return accepted

                    return f

                prank = NS(prank=rec("prank"), startPrank=rec("startPrank"), stopPrank=rec("stopPrank"))
                w1, w2 = z3.BitVec("word1", 256), z3.BitVec("word2", 256)
                ex = NS(context=NS(prank=prank))
                ret = ByteVec()
                env = Env({"ex": ex, "arg": WordCalldata({4: w1, 36: w2}), "ret": ret, "funsig": getattr(hc.hevm_cheat_code, sig), "sevm": NS(), "stack": NS()}, None, fn.__globals__)
                kind, payload, _ = interp.exec_fragment(arm.body, env, qual="halmos.cheatcodes:hevm_cheat_code.handle#prank", is_gen=False)
                ctx.oblige("the prank record of the calling frame is updated by exactly one call of the right method", z3.BoolVal(len(calls) == 1 and calls[0][0] == meth and len(calls[0][1]) == nargs), info={"calls": str(calls)[:120]})
                if len(calls) == 1 and nargs >= 1:
                    ctx.oblige("sender is the low 160 bits of the first argument word", calls[0][1][0] == z3.Extract(159, 0, w1))
                if len(calls) == 1 and nargs == 2:
                    ctx.oblige("origin is the low 160 bits of the second argument word", calls[0][1][1] == z3.Extract(159, 0, w2))
                if meth == "stopPrank" or accepted:
                    ctx.oblige("returns empty data", z3.BoolVal(kind == "return" and payload is ret))
                else:
                    ctx.oblige("a refused prank is an error, not silently ignored", z3.BoolVal(kind == "raise" and isinstance(payload, HalmosException)))

            if meth == "stopPrank" and not accepted:
                continue
            out.append(Case(f"{PROP}/cheatcodes.hevm_cheat_code.handle#{sig}", f"accepted={accepted}", harness, sources=("halmos.cheatcodes:hevm_cheat_code.handle",)))
    return out


def setter_cases():
    from contracts.c06 import run_dispatch_chain, select_arm

    out = []
    setters = {
        "fee_sig": ("basefee", hs.OP_BASEFEE, "word"),
        "chainid_sig": ("chainid", hs.OP_CHAINID, "word"),
        "coinbase_sig": ("coinbase", hs.OP_COINBASE, "address"),
        "difficulty_sig": ("difficulty", hs.OP_DIFFICULTY, "word"),
        "roll_sig": ("number", hs.OP_NUMBER, "word"),
        "warp_sig": ("timestamp", hs.OP_TIMESTAMP, "word"),
    }
    sf, runfn, first = run_dispatch_chain()
    for sig, (field, opcode, kind) in setters.items():

        def harness(interp, sig=sig, field=field, opcode=opcode, kind=kind):
            ctx = interp.ctx
            fn, arm = _handle_arm(sig)
            w = z3.BitVec("new_value", 256)
            names = ("basefee", "chainid", "coinbase", "difficulty", "gaslimit", "number", "timestamp")
            old = {n: (z3.BitVec("old_" + n, 256) if n != "coinbase" else hb.HalmosBitVec(z3.BitVec("old_coinbase", 160), size=160)) for n in names}
            block = hs.Block(**old)
            ex = NS(block=block)
            ret = ByteVec()
            env = Env({"ex": ex, "arg": WordCalldata({4: w}), "ret": ret, "funsig": getattr(hc.hevm_cheat_code, sig), "sevm": NS(), "stack": NS()}, None, fn.__globals__)
            k, payload, _ = interp.exec_fragment(arm.body, env, qual="halmos.cheatcodes:hevm_cheat_code.handle#setter", is_gen=False)
            ctx.oblige("setter returns empty data", z3.BoolVal(k == "return" and payload is ret))
            ctx.oblige("only the targeted block field changes", z3.BoolVal(all(getattr(block, n) is old[n] for n in names if n != field)))
            # compose with the reading arm of SEVM.run
            pushed = []
            state = NS(push_any=lambda v: pushed.append(v), push=lambda v: pushed.append(v))
            env2 = Env({"self": NS(), "ex": ex, "state": state, "opcode": opcode, "insn": NS(opcode=opcode, next_pc=1), "stack": NS()}, None, hs.__dict__)
            body = select_arm(interp, first, env2)
            k2, payload2, _ = interp.exec_fragment(body, env2, qual="halmos.sevm:SEVM.run#block-read")
            ctx.oblige("the reading instruction pushes one value and falls through", z3.BoolVal(k2 == "fallthrough" and len(pushed) == 1), info={"kind": k2, "payload": str(payload2)[:80]})
            if len(pushed) == 1:
                v = pushed[0]
                v = v.as_z3() if hasattr(v, "as_z3") else v
                if kind == "address":
                    ctx.oblige("the read returns the supplied address (low 160 bits of the word)", z3.ZeroExt(96, v) == z3.ZeroExt(96, z3.Extract(159, 0, w)) if v.size() == 160 else v == z3.ZeroExt(96, z3.Extract(159, 0, w)))
                else:
                    ctx.oblige("the read returns exactly the supplied word", v == w)

        out.append(Case(f"{PROP}/cheatcodes.hevm_cheat_code.handle#{sig}", "set then read", harness, sources=("halmos.cheatcodes:hevm_cheat_code.handle", "halmos.sevm:SEVM.run")))

    def harness_deal(interp):
        ctx = interp.ctx
        fn, arm = _handle_arm("deal_sig")
        who_w, amt = z3.BitVec("who_word", 256), z3.BitVec("amount", 256)
        bal0 = z3.Array("balance_before", z3.BitVecSort(160), z3.BitVecSort(256))
        st = {"bal": bal0, "updates": []}

        def balance_update(who, v):
            st["updates"].append((who, v))
            st["bal"] = z3.Store(st["bal"], who, v)

        ex = NS(balance_update=balance_update)
        ret = ByteVec()
        env = Env({"ex": ex, "arg": WordCalldata({4: who_w, 36: amt}), "ret": ret, "funsig": hc.hevm_cheat_code.deal_sig, "sevm": NS(), "stack": NS()}, None, fn.__globals__)
        k, payload, _ = interp.exec_fragment(arm.body, env, qual="halmos.cheatcodes:hevm_cheat_code.handle#deal", is_gen=False)
        ctx.oblige("deal returns empty data after exactly one balance update", z3.BoolVal(k == "return" and payload is ret and len(st["updates"]) == 1))
        a = z3.BitVec("any_account", 160)
        who = z3.Extract(159, 0, who_w)
        ctx.oblige("after deal: the targeted account holds exactly the amount, every other balance is unchanged", z3.Select(st["bal"], a) == z3.If(a == who, amt, z3.Select(bal0, a)))

    out.append(Case(f"{PROP}/cheatcodes.hevm_cheat_code.handle#deal_sig", "pointwise", harness_deal, sources=("halmos.cheatcodes:hevm_cheat_code.handle",)))

    def harness_balance_update(interp):
        ctx = interp.ctx
        bal0 = z3.Array("balance_before", z3.BitVecSort(160), z3.BitVecSort(256))
        ex = object.__new__(hs.Exec)
        ex.balance = bal0
        ex.balances = {}
        appended = []
        ex.path = NS(append=lambda c, branching=False: appended.append(c))
        who, amt = z3.BitVec("who", 160), z3.BitVec("amount", 256)
        interp.call(hs.Exec.__dict__["balance_update"], [ex, who, amt], {})
        new = ex.balance
        ctx.oblige("balance_update: a new balance array is introduced and defined as Store(old, who, amount) on the path", z3.BoolVal(new is not bal0 and len(appended) == 1 and ex.balances.get(new) is not None))
        if len(appended) == 1:
            a = z3.BitVec("any_account", 160)
            ctx.oblige("under that definition the new array reads amount at who and the old value elsewhere", z3.Implies(appended[0], z3.Select(new, a) == z3.If(a == who, amt, z3.Select(bal0, a))))
            ctx.oblige("the recorded definition is the one on the path", appended[0] == (new == ex.balances[new]))

    out.append(Case(f"{PROP}/sevm.Exec.balance_update", "pointwise", harness_balance_update, sources=("halmos.sevm:Exec.balance_update",)))
    return out


# ---------------------------------------------------------------------------------------
class CounterEx:
    def __init__(self, start=0):
        self.n = start
        self.ids = []
        self.path = NS(appended=[])
        self.path.append = lambda c, branching=False: self.path.appended.append(c)

    def new_symbol_id(self):
        self.n += 1
        self.ids.append(self.n)
        return self.n


def label_of(term):
    names = set()

    def walk(t):
        if z3.is_const(t) and t.decl().kind() == z3.Z3_OP_UNINTERPRETED:
            names.add(t.decl().name())
        for c in t.children():
            walk(c)

    walk(term)
    return names


def replay_min_max(r):
    """real create_uint256_min_max on boundary ranges: the constraints must be exactly min <= v <= max"""
    m = r.get("model") or {}
    grid = [(0, 0), (0, 1), (5, 5), (1, 10), (0, 2**255 - 1), (0, 2**255), (2**255, 2**256 - 2), (1, 2**256 - 2), (0, 2**256 - 1), (2**256 - 1, 2**256 - 1)]
    if isinstance(m.get("min_value"), int) and isinstance(m.get("max_value"), int) and m["min_value"] <= m["max_value"]:
        grid.insert(0, (m["min_value"], m["max_value"]))
    for lo, hi in grid:
        ex = CounterEx()
        try:
            out = hc.create_uint256_min_max(ex, cd(lo, hi), name="x")
        except Exception as e:  # noqa
            return {"reproduced": True, "detail": f"create_uint256_min_max(min={lo:#x}, max={hi:#x}) raised {type(e).__name__}: {e}", "inputs": [lo, hi]}
        v = out.unwrap()
        s_ = z3.Solver()
        s_.add(z3.And(*ex.path.appended) != z3.And(z3.UGE(v, lo), z3.ULE(v, hi)))
        if s_.check() == z3.sat:
            w = s_.model().eval(v, model_completion=True)
            return {"reproduced": True, "detail": f"vm.randomUint / svm.createUint256 with min={lo:#x}, max={hi:#x}: the path constraints {ex.path.appended} are not `min <= v <= max`; e.g. v = {w} is admitted or excluded wrongly", "inputs": [lo, hi]}
    return {"reproduced": False, "detail": "real create_uint256_min_max constrains the value to [min, max] on the boundary grid"}


def cd(*words, tail=b""):
    """real calldata: 4-byte selector, 32-byte words, optional tail (e.g. an ABI-encoded string)"""
    return ByteVec(b"\x11\x22\x33\x44" + b"".join(int(w).to_bytes(32, "big") for w in words) + tail)


def create_cases():
    out = []

    def run_create(interp, fn, ex, arg, **kw):
        return guarded(interp, lambda: interp.call(fn, [ex, arg], kw))

    def unwrap(bv):
        v = bv.unwrap()
        return z3.BitVecVal(int.from_bytes(v, "big"), len(v) * 8) if isinstance(v, bytes) else v

    def fresh_ok(ctx, ex, term, want_bits, tname):
        names = label_of(term)
        ok = len(names) == 1
        name = next(iter(names)) if ok else ""
        m = re.fullmatch(r"halmos_(.+)_" + re.escape(tname) + r"_[0-9a-f]+_(\d+)", name)
        ctx.oblige("the value is built on exactly one symbol, labelled with the name, the type and this path's running counter", z3.BoolVal(bool(m) and ex.ids and int(m.group(2)) == ex.ids[-1]), info={"label": name})
        ctx.oblige("the counter was advanced exactly once (a later call gets a different label)", z3.BoolVal(len(ex.ids) == 1 and ex.ids[0] == ex.n))
        return name

    # createUint(bits, name) / createInt(bits, name)
    for fname, signed in (("create_uint", False), ("create_int", True)):
        for bits in (1, 8, 64, 160, 255, 256):

            def harness(interp, fname=fname, signed=signed, bits=bits):
                ctx = interp.ctx
                ex = CounterEx(start=41)
                arg = cd(bits)
                ok, r = run_create(interp, getattr(hc, fname), ex, arg, name="x")
                if not ok:
                    return
                t = unwrap(r)
                ctx.oblige("returns one 32-byte word", z3.BoolVal(len(r) == 32 and t.size() == 256))
                tname = f"{'int' if signed else 'uint'}{bits}"
                name = fresh_ok(ctx, ex, t, bits, tname)
                sym = z3.BitVec(name, bits)
                want = sym if bits == 256 else (z3.SignExt(256 - bits, sym) if signed else z3.ZeroExt(256 - bits, sym))
                ctx.oblige(f"ABI encoding of a{'n' if signed else ''} {'int' if signed else 'uint'}{bits}: {'sign' if signed else 'zero'}-extended unconstrained {bits}-bit symbol", t == want)
                ctx.oblige("no constraint is added (the value is unconstrained)", z3.BoolVal(ex.path.appended == []))

            out.append(Case(f"{PROP}/cheatcodes.{fname}", f"bits={bits}", harness, sources=(f"halmos.cheatcodes:{fname}", "halmos.cheatcodes:create_generic")))

        for bits in (257, 512, 2**255):

            def harness_big(interp, fname=fname, bits=bits):
                ctx = interp.ctx
                ex = CounterEx()
                arg = cd(bits)
                try:
                    r = interp.call(getattr(hc, fname), [ex, arg], {"name": "x"})
                    ctx.oblige("a width above 256 bits is rejected", z3.BoolVal(False), info={"returned": str(r)[:60]})
                except HalmosException:
                    ctx.oblige("a width above 256 bits is rejected", z3.BoolVal(True))

            out.append(Case(f"{PROP}/cheatcodes.{fname}", f"bits={bits}", harness_big, sources=(f"halmos.cheatcodes:{fname}",)))

    fixed = {"create_uint256": (256, "uint256", "full"), "create_int256": (256, "int256", "full"), "create_bytes32": (256, "bytes32", "full"), "create_address": (160, "address", "zext"), "create_bool": (1, "bool", "zext"), "create_bytes4": (32, "bytes4", "left"), "create_bytes8": (64, "bytes8", "left")}
    for fname, (bits, tname, enc) in fixed.items():

        def harness_fixed(interp, fname=fname, bits=bits, tname=tname, enc=enc):
            ctx = interp.ctx
            ex = CounterEx(start=7)
            ok, r = run_create(interp, getattr(hc, fname), ex, cd(), name="x")
            if not ok:
                return
            t = unwrap(r)
            ctx.oblige("returns one 32-byte word", z3.BoolVal(len(r) == 32 and t.size() == 256))
            name = fresh_ok(ctx, ex, t, bits, tname)
            sym = z3.BitVec(name, bits)
            want = sym if enc == "full" else (z3.ZeroExt(256 - bits, sym) if enc == "zext" else z3.Concat(sym, z3.BitVecVal(0, 256 - bits)))
            ctx.oblige(f"ABI encoding of {tname}: {'left-aligned, zero padded on the right' if enc == 'left' else ('zero-extended' if enc == 'zext' else 'the full word')}", t == want)
            ctx.oblige("no constraint is added", z3.BoolVal(ex.path.appended == []))

        out.append(Case(f"{PROP}/cheatcodes.{fname}", tname, harness_fixed, sources=(f"halmos.cheatcodes:{fname}", "halmos.cheatcodes:create_generic")))

    for fname, tname in (("create_bytes", "bytes"),):
        for n in (0, 1, 31, 32, 33, 65):

            def harness_bytes(interp, fname=fname, tname=tname, n=n):
                ctx = interp.ctx
                ex = CounterEx(start=3)
                ok, r = run_create(interp, getattr(hc, fname), ex, cd(n), name="x")
                if not ok:
                    return
                padded = (n + 31) // 32 * 32
                # the tail may be left unpadded: returndata reads as zero past its end, so both decode alike
                ctx.oblige("ABI encoding of `bytes`: offset word, length word, then the data (optionally zero-padded to 32 bytes)", z3.BoolVal(len(r) in (64 + n, 64 + padded)), info={"len": len(r)})
                if len(r) not in (64 + n, 64 + padded):
                    return
                padded = len(r) - 64
                t = unwrap(r)
                off = z3.Extract(t.size() - 1, t.size() - 256, t)
                ln = z3.Extract(t.size() - 257, t.size() - 512, t)
                ctx.oblige("offset word is 32 and length word is the requested size", z3.And(off == 32, ln == n))
                if n:
                    data = z3.Extract(t.size() - 513, t.size() - 512 - 8 * n, t)
                    names = label_of(data)
                    name = next(iter(names)) if len(names) == 1 else ""
                    ctx.oblige("data is one unconstrained symbol of exactly the requested size, counter-labelled", z3.And(z3.BoolVal(bool(re.fullmatch(r"halmos_x_bytes_[0-9a-f]+_04", name))), data == z3.BitVec(name, 8 * n) if name else z3.BoolVal(False)), info={"label": name})
                    if padded > n:
                        pad = z3.Extract(8 * (padded - n) - 1, 0, t)
                        ctx.oblige("padding bytes are zero", pad == 0)
                ctx.oblige("no constraint is added", z3.BoolVal(ex.path.appended == []))

            out.append(Case(f"{PROP}/cheatcodes.{fname}", f"size={n}", harness_bytes, sources=(f"halmos.cheatcodes:{fname}", "halmos.cheatcodes:encode_tuple_bytes")))

    for lo, hi in ((0, 0), (5, 5), (1, 10), (0, 2**256 - 1), (2**255, 2**256 - 1), (10, 1)):

        def harness_range(interp, lo=lo, hi=hi):
            ctx = interp.ctx
            ex = CounterEx(start=9)
            arg = cd(lo, hi)
            try:
                r = interp.call(hc.create_uint256_min_max, [ex, arg], {"name": "x"})
            except HalmosException:
                ctx.oblige("min > max is rejected", z3.BoolVal(lo > hi))
                return
            except BaseException as e:
                if isinstance(e, _ENGINE):
                    raise
                ctx.oblige(f"no-exception[{type(e).__name__}]", z3.BoolVal(False), info={"msg": str(e)[:200]})
                return
            ctx.oblige("min > max is rejected", z3.BoolVal(lo <= hi))
            t = unwrap(r)
            name = fresh_ok(ctx, ex, t, 256, "uint256")
            v = z3.BitVec(name, 256)
            ctx.oblige("the value is the symbol itself", t == v)
            conj = z3.And(*ex.path.appended) if ex.path.appended else z3.BoolVal(True)
            ctx.oblige("the added constraints are exactly min <= v <= max (unsigned)", conj == z3.And(z3.UGE(v, lo), z3.ULE(v, hi)))

        out.append(Case(f"{PROP}/cheatcodes.create_uint256_min_max", f"[{lo:#x},{hi:#x}]"[:40], harness_range, sources=("halmos.cheatcodes:create_uint256_min_max",)))

    def harness_range_sym(interp):
        from pyvc.sym import to_bv

        ctx = interp.ctx
        ex = CounterEx(start=9)
        lo = ctx.new_int_input("min_value", 256)
        hi = ctx.new_int_input("max_value", 256)
        words = {4: to_bv(lo, 256), 36: to_bv(hi, 256)}
        interp.contracts["halmos.utils:extract_word"] = lambda i, a, k: words[a[1]]
        interp.externals[hc.extract_word] = lambda i, d, off: words[off]
        try:
            r = interp.call(hc.create_uint256_min_max, [ex, "<calldata>"], {"name": "x"})
        except HalmosException:
            ctx.oblige("rejected only when min > max", lo.e > hi.e, z3.UGT(lo.view[0], hi.view[0]))
            return
        except BaseException as e:
            if isinstance(e, _ENGINE):
                raise
            ctx.oblige(f"no-exception[{type(e).__name__}]", z3.BoolVal(False), info={"msg": str(e)[:200]})
            return
        ctx.oblige("accepted only when min <= max", lo.e <= hi.e, z3.ULE(lo.view[0], hi.view[0]))
        t = unwrap(r)
        names = label_of(t)
        name = next(iter(n for n in names if n.startswith("halmos_")), "")
        v = z3.BitVec(name, 256)
        conj = z3.And(*[c for c in ex.path.appended]) if ex.path.appended else z3.BoolVal(True)
        ctx.oblige("for ALL bounds: the added constraints are exactly min <= v <= max (unsigned)", conj == z3.And(z3.UGE(v, lo.view[0]), z3.ULE(v, hi.view[0])))

    out.append(Case(f"{PROP}/cheatcodes.create_uint256_min_max", "symbolic bounds", harness_range_sym, replay=replay_min_max, sources=("halmos.cheatcodes:create_uint256_min_max",)))

    def harness_counter(interp):
        ctx = interp.ctx
        ex = object.__new__(hs.Exec)
        from collections import defaultdict

        ex.cnts = defaultdict(int)
        n0 = SymInt(z3.Int("symbols_created_so_far"))
        ctx.assume(n0.e >= 0)
        ex.cnts["fresh"] = defaultdict(int)
        ex.cnts = NS() if False else ex.cnts
        # new_symbol_id reads and bumps a counter kept in ex.cnts
        fn = hs.Exec.__dict__["new_symbol_id"]
        src = ast.unparse(loader.func_node(fn)[1])
        m = re.search(r"self\.cnts\[(.+?)\](?:\[(.+?)\])?", src)
        keys = [eval(k) for k in m.groups() if k]
        d = ex.cnts
        for k in keys[:-1]:
            d = d[k]
        d[keys[-1]] = n0
        a = interp.call(fn, [ex], {})
        b = interp.call(fn, [ex], {})
        from pyvc.sym import iexpr

        ctx.oblige("symbol ids strictly increase along a path (every label differs from all earlier ones)", z3.And(iexpr(a) > n0.e, iexpr(b) > iexpr(a)))

    out.append(Case(f"{PROP}/sevm.Exec.new_symbol_id", "two calls from an arbitrary count", harness_counter, sources=("halmos.sevm:Exec.new_symbol_id",)))
    return out


def call_prank_cases():
    """SEVM.call consults (and thereby consumes) the prank exactly once for EVERY target: a contract with code, an
    account without code (EOA / not yet deployed), and the value it sends is debited from the pranked sender"""
    from contracts import c09

    out = []
    for target in ("account with code", "account without code"):
        for scheme in ("CALL", "STATICCALL"):

            def harness(interp, target=target, scheme=scheme):
                ctx = interp.ctx
                sevm, ex, V, marker, callee_code = c09.setup_call(scheme, False, None)
                to_alias = c09.CALLEE
                if target == "account without code":
                    del ex.code[c09.CALLEE]
                    to_alias = None
                S, O = z3.BitVec("pranked_sender", 160), z3.BitVec("pranked_origin", 160)
                asked = []
                interp.contracts["halmos.sevm:Exec.resolve_prank"] = lambda i, a, k: (asked.append(a[1]), (S, O))[1]
                moved = []
                real_transfer = hs.SEVM.__dict__["transfer_value"]

                def transfer(i, a, k):
                    moved.append((a[2], a[3]))
                    return i.call(real_transfer, a, k, bypass_contract=True) if False else None

                interp.contracts["halmos.sevm:SEVM.transfer_value"] = transfer
                funds_checked = []
                interp.contracts["halmos.sevm:SEVM.handle_insufficient_fund_case"] = lambda i, a, k: funds_checked.append(a[1])
                wl = hs.Worklist()
                try:
                    interp.call(hs.SEVM.__dict__["call"], [sevm, ex, c09.SCHEMES[scheme], to_alias, wl], {})
                except PathEnd:
                    raise
                except BaseException as e:  # noqa
                    from pyvc.interp import _ENGINE

                    if isinstance(e, _ENGINE):
                        raise
                    ctx.oblige(f"no-exception[{type(e).__name__}]", z3.BoolVal(False), info={"msg": str(e)[:200]})
                    return
                ok = len(asked) == 1
                ctx.oblige("the prank record is consulted exactly once by this call, whatever the target is (a one-shot prank is consumed by the next call)", z3.BoolVal(ok), info={"consulted": len(asked)})
                t = asked[0] if asked else None
                tz = t.as_z3() if hasattr(t, "as_z3") else t
                ctx.oblige("it is consulted for this call's target address", z3.simplify(tz) == z3.simplify(c09.CALLEE) if ok and z3.is_bv(tz) and tz.size() == 160 else z3.BoolVal(False))
                if scheme == "CALL":
                    fc = [(x.as_z3() if hasattr(x, "as_z3") else x) for x in funds_checked]
                    ctx.oblige("the balance that decides `insufficient funds` is the balance of the account that pays: the pranked sender (the same account the transfer debits)", z3.BoolVal(len(fc) == 1) if len(fc) != 1 else (fc[0] == S if z3.is_bv(fc[0]) and fc[0].size() == 160 else z3.BoolVal(False)), info={"checked": str(fc)[:100]})
                if scheme == "CALL" and moved:
                    frm = moved[0][0]
                    fz = frm.as_z3() if hasattr(frm, "as_z3") else frm
                    ctx.oblige("the value sent by a pranked CALL is debited from the pranked sender", fz == S if z3.is_bv(fz) and fz.size() == 160 else z3.BoolVal(False), info={"from": str(fz)[:80]})

            out.append(Case(f"{PROP}/sevm.SEVM.call#prank-resolution", f"{scheme} to an {target}", harness, replay=replay_prank_eoa, sources=("halmos.sevm:SEVM.call",)))
    return out


def replay_prank_eoa(r):
    """real SEVM.call: vm.prank(A) then a CALL to an account without code, then a second call"""
    from contracts import c09

    sevm, ex, V, marker, callee_code = c09.setup_call("CALL", False, z3.BitVecVal(0, 256))
    del ex.code[c09.CALLEE]
    A = z3.BitVecVal(0xA11CE, 160)
    ex.context.prank.prank(A)
    wl = hs.Worklist()
    try:
        list(sevm.call(ex, c09.SCHEMES["CALL"], None, wl) or [])
    except Exception as e:  # noqa
        return {"reproduced": None, "detail": f"call raised {type(e).__name__}: {e}"}
    still = bool(ex.context.prank)
    # the continuation may be a different Exec pushed on the worklist
    nxt = wl.pop()
    if nxt is not None:
        still = bool(nxt.context.prank)
    if still:
        return {"reproduced": True, "detail": "vm.prank(A); CALL to an account without code: the one-shot prank is still active after the call, so it will change msg.sender of a later, unrelated call", "inputs": "prank(A); CALL(eoa)"}
    return {"reproduced": False, "detail": "a one-shot prank is consumed by a call to an account without code"}


def replay_etch_transient(r):
    """native, real handler: tstore on an account, then vm.etch on it: the transient value must still be there"""
    from contracts.common import mk_ex, mk_sevm

    sevm = mk_sevm()
    ex = mk_ex(sevm, b"\x00")
    who = z3.BitVecVal(0x1234, 160)
    ex.set_code(who, ByteVec(b"\x00"))
    ex.storage[who] = sevm.mk_storagedata()
    ex.transient_storage[who] = sevm.mk_storagedata()
    sevm.sstore(ex, who, hb.HalmosBitVec(2), hb.HalmosBitVec(0x66))
    sevm.sstore(ex, who, hb.HalmosBitVec(1), hb.HalmosBitVec(5), transient=True)
    code = b"\x60\x00"
    data = hc.hevm_cheat_code.etch_sig.to_bytes(4, "big") + (0x1234).to_bytes(32, "big") + (64).to_bytes(32, "big") + len(code).to_bytes(32, "big") + code.ljust(32, b"\x00")
    hc.hevm_cheat_code.handle(sevm, ex, ByteVec(data), None)
    t = sevm.sload(ex, who, hb.HalmosBitVec(1), transient=True)
    p = sevm.sload(ex, who, hb.HalmosBitVec(2))
    tv, pv = (x.as_z3() if hasattr(x, "as_z3") else x for x in (t, p))
    tv, pv = z3.simplify(tv), z3.simplify(pv)
    bad = not (z3.is_bv_value(tv) and tv.as_long() == 5 and z3.is_bv_value(pv) and pv.as_long() == 0x66)
    return {"reproduced": bad, "detail": f"tstore(1, 5); sstore(2, 0x66) on account 0x1234, then vm.etch(0x1234, code): tload(1) = {tv}, sload(2) = {pv} (an etch is not a store: 5 and 0x66 expected)", "inputs": "tstore; etch; tload"}


def etch_cases():
    """vm.etch(who, code): the code of `who` becomes `code`; storage and transient storage of an existing account are left as they are
    (etch is not a store), a new account gets empty ones; no other account is touched"""
    out = []
    for existing in (True, False):

        def harness(interp, existing=existing):
            ctx = interp.ctx
            fn, arm = _handle_arm("etch_sig")
            WHO, OTHER = 0x1234, 0x9999
            code = ByteVec(b"\x60\x00\x00")

            class Arg:
                def get_word(self, off):
                    return hb.HalmosBitVec({4: WHO, 36: 64, 68: 3}[off])

                def __getitem__(self, key):
                    assert isinstance(key, slice) and (key.start, key.stop) == (4 + 64 + 32, 4 + 64 + 32 + 3), key
                    return code

            who_t, other_t = z3.BitVecVal(WHO, 160), z3.BitVecVal(OTHER, 160)
            S, T, S2, T2 = NS(tag="storage of who"), NS(tag="transient of who"), NS(tag="storage of other"), NS(tag="transient of other")
            storage = {other_t: S2}
            transient = {other_t: T2}
            if existing:
                storage[who_t] = S
                transient[who_t] = T
            set_calls = []
            ex = NS(storage=storage, transient_storage=transient, set_code=lambda w, c: set_calls.append((w, c)))
            fresh = []
            sevm = NS(mk_storagedata=lambda: (fresh.append(NS(tag="empty")), fresh[-1])[1])
            ret = ByteVec()
            env = Env({"ex": ex, "arg": Arg(), "ret": ret, "funsig": hc.hevm_cheat_code.etch_sig, "sevm": sevm, "stack": NS()}, None, fn.__globals__)
            k, payload, _ = interp.exec_fragment(arm.body, env, qual="halmos.cheatcodes:hevm_cheat_code.handle#etch", is_gen=False)
            ctx.oblige("etch returns empty data", z3.BoolVal(k == "return" and payload is ret), info={"kind": k, "payload": str(payload)[:100]})
            ctx.oblige("etch sets the code of the targeted account, once, to the supplied bytes", z3.BoolVal(len(set_calls) == 1 and z3.eq(set_calls[0][0], who_t) and set_calls[0][1] is code))
            if existing:
                ctx.oblige("etch on an existing account leaves its storage AND its transient storage as they are (etch is not a store)", z3.BoolVal(storage.get(who_t) is S and transient.get(who_t) is T))
            else:
                ctx.oblige("etch on a new account gives it empty storage and empty transient storage", z3.BoolVal(storage.get(who_t) in fresh and transient.get(who_t) in fresh and storage.get(who_t) is not transient.get(who_t)))
            ctx.oblige("etch touches the targeted account only", z3.BoolVal(storage.get(other_t) is S2 and transient.get(other_t) is T2 and set(storage) == set(transient) == {who_t, other_t}))

        out.append(Case(f"{PROP}/cheatcodes.hevm_cheat_code.handle#etch", "existing account" if existing else "new account", harness, replay=replay_etch_transient, sources=("halmos.cheatcodes:hevm_cheat_code.handle",)))
    return out


def replay_default_block(r):
    """native: the block of one test contract's deployment is written by vm.warp; the next contract's deployment must read the default"""
    import halmos.__main__ as hm
    from halmos.utils import con

    a = hm.mk_block()
    a.timestamp = con(4242)
    a.chainid = con(5)
    b = hm.mk_block()
    if b is a or b.timestamp is a.timestamp or b.chainid is a.chainid:
        return {"reproduced": True, "detail": f"mk_block() for a second test contract returns {'the same Block object' if b is a else 'a Block sharing fields'}: after vm.warp(4242) / vm.chainId(5) in the first contract's constructor the second contract, which calls no cheatcode, reads block.timestamp = {b.timestamp}, block.chainid = {b.chainid} (defaults: 1, 31337)", "inputs": "contract A: vm.warp(4242), vm.chainId(5); contract B: none"}
    return {"reproduced": False, "detail": "every deployment gets a Block of its own holding the defaults"}


def default_block_cases():
    """the block a test contract is deployed with is a fresh object holding Foundry's defaults: warp/roll/fee/chainId/coinbase/
    difficulty assign its fields in place, so a shared one would carry one contract's cheatcodes into the next"""
    import halmos.__main__ as hm

    def harness(interp):
        ctx = interp.ctx
        a = interp.call(hm.mk_block, [], {})
        b = interp.call(hm.mk_block, [], {})
        ctx.oblige("mk_block: every call returns a Block of its own (in-place writes of the block cheatcodes stay within one deployment)", z3.BoolVal(a is not b and isinstance(a, hs.Block) and isinstance(b, hs.Block)))

        def val(t):
            t = t.as_z3() if hasattr(t, "as_z3") else t
            return z3.simplify(t).as_long() if z3.is_bv(t) else t

        want = {"basefee": 0, "chainid": 31337, "coinbase": 0, "difficulty": 0, "gaslimit": 2**63 - 1, "number": 1, "timestamp": 1}
        for blk, nm in ((a, "first"), (b, "second")):
            got = {k: val(getattr(blk, k)) for k in want}
            ctx.oblige(f"mk_block: the {nm} block holds Foundry's defaults", z3.BoolVal(got == want), info={"got": str(got)})

    return [Case(f"{PROP}/__main__.mk_block", "two deployments in one process", harness, replay=replay_default_block, sources=("halmos.__main__:mk_block",))]


def build_cases(tier="quick"):
    # block-setting cheatcodes assign fields of ex.block in place: sibling paths must own their Block (C02/C20)
    from contracts import c02, c20

    ref = [Case(f"{PROP}/sevm.SEVM.create_branch#block-ownership", c.case, c.harness, replay=c.replay, sources=c.sources) for c in c02.path_cases() if "create_branch" in c.unit]
    ref += [Case(f"{PROP}/" + c.unit.split("/", 1)[1] + "#block-ownership", c.case, c.harness, replay=c.replay, sources=c.sources) for c in c20.fork_cases() if c.unit.endswith(("create_branch", "run_message"))]
    # vm.etch of a fresh address: a symbolic address that was resolved to `no account` before must see the new code (C02's unit)
    from contracts.common import rewrap

    ref += rewrap(PROP, c02.alias_cases(), "etch-visible-through-aliases", lambda c: "set_code" in c.case or "allow_branching" in c.case)
    # vm.store / vm.load: a store changes the targeted slot only, also on an account with arbitrary storage (C02/C08's unit)
    ref += rewrap(PROP, c02.select_cases(), "store-touches-its-slot-only")
    return etch_cases() + default_block_cases() + prank_cases() + resolve_prank_cases() + prank_arm_cases() + setter_cases() + create_cases() + call_prank_cases() + ref


def grounds():
    from contracts.common import ground_script

    return [Ground(f"{PROP}/cheatcodes.name_of#independent-symbols", ground_script("label_with_nul.py", "two svm.createUint256 calls whose labels agree up to a NUL byte", "every svm.create* call returns a value independent of all previously created ones, whatever bytes its label holds"), sources=("halmos.cheatcodes:name_of",)), Ground(f"{PROP}/fresh-prank-per-frame", ground_fresh_prank, sources=("halmos.sevm:SEVM.call", "halmos.sevm:SEVM.create"))]


ASSUMPTIONS = [
    "pyvc (VC generator, Python-subset semantics) is trusted; path covers guard vacuity",
    "a call is a cheatcode call only when its target is literally the cheatcode address (SEVM.call tests `to in CHEATCODE_ADDRESSES` structurally); a symbolic target therefore counts as an ordinary call for prank purposes, as in SEVM.call",
    "that a nested frame or a later transaction starts from a fresh Prank is established at every CallContext(...) construction site syntactically (no prank= argument, default_factory is Prank); that the caller's record is carried across a call by deepcopy(ex.context) relies on copy.deepcopy",
    "store/load/etch arms are not under contract here (they go through sstore/sload/set_code: C08); independence of created symbols rests on the uniqueness of labels: the per-path counter is proved strictly increasing, the random uid() part of the label is not relied on",
    "ByteVec construction/unwrap used by the encoders runs through the interpreter on concrete layouts (its general contract is C07, not proved)",
]
TRUSTED = ["pyvc (this repository's verifier)", "z3 4.12.6 (QF_BV, arrays)"]
TECHNIQUE = "state-machine and encoder contracts: VCs generated from the real source AST (pyvc) over symbolic addresses/words, fragments of hevm_cheat_code.handle composed with the reading arms of SEVM.run; syntactic site check for CallContext construction; z3"
