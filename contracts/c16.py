"""C16 — the unsat-core cache never changes a verdict.

Soundness argument, as contracts over ghost state `meaning : id -> condition` (the condition whose
z3 id was `id` when a query was serialised):

  (1) sevm.Path.to_smt2 (caching)   assertion i is tracked under str(get_id(cond_i))          [C11 pack]
                                    and every condition whose id is exported is *pinned* (kept
                                    alive by a registry that nothing in the module ever shrinks);
                                    with the external contract "AstRef.get_id is unique among live
                                    terms" this gives id stability: meaning never changes
  (2) solve.dump                    every id gets one named assertion <id>                       [C11 pack]
  (3) solve.SolverOutput.from_result   the core of an `unsat` answer is parsed iff caching
      solve.parse_unsat_core        ids between <..> of the core line; unparsable => None        (string family)
  (4) __main__ callback             a core is recorded only for an `unsat` answer and only if it
                                    is non-empty (an empty core would match every query)
      solve.FunctionContext.append_unsat_core   appended to the list solve_end_to_end consults
  (5) solve.check_unsat_cores       True  <=>  some recorded core is a subset of the query's ids
                                    (symbolic membership, every combination)
  (6) solve.solve_end_to_end        answers unsat without a solver only if (5) holds, otherwise
                                    the solver's answer is returned

(1)-(6) + solver soundness: a cached `unsat` is given only to a query whose conditions include a set
of conditions that a solver proved unsatisfiable.

Bounded stand-in (never counted): native id-collision search — record a core, drop the path, create
fresh conditions and look for a false cache hit.
"""
from __future__ import annotations

import ast
import gc
import types

import z3

from pyvc import loader
from pyvc.interp import _ENGINE, PathEnd
from pyvc.pack import Bounded, Case
from pyvc.sym import SymBool

loader.import_repo()
import halmos.__main__ as hm  # noqa: E402
import halmos.sevm as hs  # noqa: E402
import halmos.solve as hsolve  # noqa: E402
import halmos.utils as hu  # noqa: E402
from contracts.common import config  # noqa: E402

PROP = "C16"


class NS:
    def __init__(self, **kw):
        self.__dict__.update(kw)


# ---------------------------------------------------------------------------------------
def registry_candidates():
    """module-level containers of halmos.sevm (the only place a pin can outlive a Path)"""
    return {k: v for k, v in vars(hs).items() if isinstance(v, (dict, list, set)) and not k.startswith("__")}


def pinned_in(obj):
    out = []
    for name, c in registry_candidates().items():
        vals = c.values() if isinstance(c, dict) else c
        try:
            if any(v is obj for v in vals):
                out.append(name)
        except Exception:  # noqa
            pass
    return out


def shrinking_statements(name):
    """statements anywhere in the halmos package that could remove entries from the module-level container of halmos.sevm (the
    container can be imported or reached as `sevm.<name>` from any module)"""
    import glob
    import os

    bad = []
    for path in sorted(glob.glob(os.path.join(loader.PKG_DIR, "**", "*.py"), recursive=True)):
        mod = os.path.relpath(path, loader.PKG_DIR)
        try:
            tree = ast.parse(open(path).read())
        except SyntaxError:
            continue
        for n in ast.walk(tree):
            src = None
            if isinstance(n, ast.Delete) and any(name in ast.unparse(t) for t in n.targets):
                src = ast.unparse(n)
            elif isinstance(n, ast.Call) and isinstance(n.func, ast.Attribute) and ast.unparse(n.func.value).split(".")[-1] == name and n.func.attr in ("pop", "popitem", "clear", "remove", "discard"):
                src = ast.unparse(n)
            elif isinstance(n, (ast.Assign, ast.AugAssign)):
                tg = n.targets if isinstance(n, ast.Assign) else [n.target]
                if any(ast.unparse(t).split(".")[-1] == name and isinstance(t, (ast.Name, ast.Attribute)) for t in tg) and getattr(n, "col_offset", 0) > 0:
                    src = ast.unparse(n)
            if src:
                bad.append(f"{mod}: {src}")
    return bad


def pin_cases():
    out = []
    for cache in (True, False):

        def harness(interp, cache=cache):
            ctx = interp.ctx
            x = z3.BitVec("c16_x", 256)
            p = hs.Path(hu.create_solver())
            conds_in = [z3.ULT(x, 5), z3.UGT(x, 7), x != 6]
            for c in conds_in:
                hs.Path.append(p, c)
            conds = list(p.conditions)
            args = config(cache_solver=True) if cache else config()
            q = interp.call(hs.Path.to_smt2, [p, args], {})
            ctx.oblige("ids exported are the ids of the conditions", z3.BoolVal(list(q.assertions) == [str(c.get_id()) for c in conds]))
            if cache:
                pins = [pinned_in(c) for c in conds]
                ctx.oblige("id stability: every condition whose id is exported as an assertion name is pinned in a module-level registry (so z3 cannot hand its id to another term)", z3.BoolVal(all(pins)), info={"pins": str(pins)})
                names = set(n for ps in pins for n in ps)
                for n in sorted(names):
                    bad = shrinking_statements(n)
                    ctx.oblige(f"the registry `{n}` is never shrunk or rebound by the module", z3.BoolVal(not bad), info={"statements": str(bad)[:200]})

        out.append(Case(f"{PROP}/sevm.Path.to_smt2#id-stability", f"cache={cache}", harness, replay=replay_collision, sources=("halmos.sevm:Path.to_smt2",)))
    return out


def collision_search(n_terms=400, rounds=3):
    """native: record a core through the real code, drop the path, create fresh conditions; a false
    cache hit = a satisfiable query that check_unsat_cores says is already proven unsat"""
    args = config(cache_solver=True)
    x = z3.BitVec("c16_x", 256)
    ys = [z3.BitVec(f"c16_y{k}", 256) for k in range(n_terms)]
    for rnd in range(rounds):
        def record():
            pA = hs.Path(hu.create_solver())
            pA.append(z3.And(z3.ULT(x, 5 + rnd), z3.UGT(x, 7 + rnd)))
            qA = pA.to_smt2(args)
            return list(qA.assertions)

        core = record()
        cores = [core]
        gc.collect()
        keep = []
        for k in range(n_terms):
            c = z3.simplify(x == ys[k])
            keep.append(c)
            if str(c.get_id()) in core:
                pB = hs.Path(hu.create_solver())
                pB.append(c)
                qB = pB.to_smt2(args)
                hit = hsolve.check_unsat_cores(qB, cores)
                s = z3.Solver()
                s.add(*list(pB.conditions))
                if hit and s.check() == z3.sat:
                    return {"witness": f"core {core} recorded for And(x < {5 + rnd}, x > {7 + rnd}); after the path was dropped the new condition `{c}` received id {c.get_id()}", "detail": f"check_unsat_cores answers True (already proven unsat) for the satisfiable query [{c}]"}
        del keep
    return None


def replay_collision(r):
    w = collision_search()
    if w is None:
        return {"reproduced": False, "detail": "no id collision found by the native search"}
    return {"reproduced": True, "detail": w["detail"] + " — " + w["witness"], "inputs": w["witness"]}


def _bounded_collision(tier, seed):
    w = collision_search(400 if tier == "quick" else 3000, 3 if tier == "quick" else 10)
    return {"tool": "native history search through the real Path.to_smt2 / check_unsat_cores", "bound": "3 (quick) / 10 (thorough) recorded cores x 400 / 3000 fresh single-node conditions after garbage collection", "cases": 1200 if tier == "quick" else 30000, "failures": [w] if w else []}


# ---------------------------------------------------------------------------------------
class GhostAssertions:
    """query.assertions: membership of each id is an unknown Boolean"""

    def __init__(self):
        self.asked = []


def _ghost_assertions_contains(interp, container, item):
    container.asked.append(item)
    return interp.truth(SymBool(z3.Bool(f"in_query[{item}]")))


def check_unsat_cores_cases():
    out = []
    shapes = {"no cores": [], "one core of 1": [["a"]], "one core of 3": [["a", "b", "c"]], "two cores": [["a", "b"], ["c", "d"]], "overlapping cores": [["a", "b"], ["b", "c"]], "three cores": [["a"], ["b", "c"], ["d"]]}
    for name, cores in shapes.items():

        def harness(interp, cores=cores):
            ctx = interp.ctx
            q = NS(assertions=GhostAssertions(), smtlib="Q")
            interp.externals[("contains", GhostAssertions)] = _ghost_assertions_contains
            r = interp.call(hsolve.check_unsat_cores, [q, cores], {})
            want = z3.Or(*[z3.And(*[z3.Bool(f"in_query[{i}]") for i in core]) for core in cores]) if cores else z3.BoolVal(False)
            ctx.oblige("True iff some recorded core is contained in the query's assertion ids", z3.BoolVal(bool(r) if isinstance(r, bool) else False) == want, info={"r": str(r)})
            ctx.oblige("result is a bool", z3.BoolVal(isinstance(r, bool)))

        out.append(Case(f"{PROP}/solve.check_unsat_cores", name, harness, sources=("halmos.solve:check_unsat_cores",)))
    return out


CORE_OUTPUTS = [
    ("unsat\n(<41702> <37030> <36248> <47880>)\n", ["41702", "37030", "36248", "47880"]),
    ('unsat\n(error "the context is unsatisfiable")\n(<1> <22>)\n', ["1", "22"]),
    ("unsat\n(<7>)\n", ["7"]),
    ("unsat\n( <7>  <8> )\n", ["7", "8"]),
    ("unsat\n()\n", []),
    ("unsat\n(<1> <2> <3>\n <4> <5>\n <6>)\n", ["1", "2", "3", "4", "5", "6"]),
    ("unsat\n(<10>\n<11>\n)\n", ["10", "11"]),
    ("unsat\n", None),
    ("unsat\n(error \"line 3 column 10: unsat core is not available\")\n", None),
    ("unsat\n(a!1 a!2)\n", None),
    ("sat\n(<1>)\n", None),
    ("", None),
]


def parse_core_cases():
    out = []
    for k, (text, want) in enumerate(CORE_OUTPUTS):

        def harness(interp, text=text, want=want):
            ctx = interp.ctx
            r = interp.call(hsolve.parse_unsat_core, [text], {})
            ctx.oblige("ids of the core line, in order; None when there is no core", z3.BoolVal(r == want), info={"text": repr(text)[:60], "got": str(r)})

        out.append(Case(f"{PROP}/solve.parse_unsat_core", f"#{k} {text[:18]!r}", harness, sources=("halmos.solve:parse_unsat_core",)))
    return out


def from_result_cases():
    out = []
    fr = hsolve.SolverOutput.__dict__["from_result"]
    fr = fr.__func__ if isinstance(fr, staticmethod) else fr
    for cache in (True, False):
        for first in ("unsat", "sat", "unknown"):

            def harness(interp, cache=cache, first=first):
                ctx = interp.ctx
                parsed = []

                def parse(i, a, k):
                    parsed.append(a[0])
                    return ["5", "9"]

                interp.contracts["halmos.solve:parse_unsat_core"] = parse
                interp.contracts["halmos.solve:parse_model_str"] = lambda i, a, k: {}
                pc = types.SimpleNamespace(args=config(cache_solver=True) if cache else config(), path_id=5, dump_file="/nonexistent/q.smt2", is_refined=False)
                stdout = first + "\n(<5> <9>)\n"
                r = interp.call(fr, [stdout, "", 0, pc], {})
                if first == "unsat" and cache:
                    ctx.oblige("unsat with caching: the core is the one parsed from this very output", z3.BoolVal(r.unsat_core == ["5", "9"] and parsed == [stdout]))
                else:
                    ctx.oblige("no core is attached unless the answer is unsat and caching is on", z3.BoolVal(r.unsat_core is None and parsed == []))

            out.append(Case(f"{PROP}/solve.SolverOutput.from_result", f"{first},cache={cache}", harness, sources=("halmos.solve:SolverOutput.from_result",)))
    return out


def recording_cases():
    from contracts import c05

    out = []
    for c in c05.callback_cases():
        if "_solve_end_to_end_callback" in c.unit:
            out.append(Case(f"{PROP}/__main__.CounterexampleHandler._solve_end_to_end_callback", c.case, c.harness, sources=c.sources))

    def harness(interp):
        ctx = interp.ctx
        store = []
        fc = object.__new__(hsolve.FunctionContext)
        object.__setattr__(fc, "solving_ctx", NS(unsat_cores=store))
        interp.call(hsolve.FunctionContext.__dict__["append_unsat_core"], [fc, ["5", "9"]], {})
        ctx.oblige("the core is appended to the list that solve_end_to_end consults (solving_ctx.unsat_cores)", z3.BoolVal(store == [["5", "9"]]))

    out.append(Case(f"{PROP}/solve.FunctionContext.append_unsat_core", "append", harness, sources=("halmos.solve:FunctionContext.append_unsat_core",)))
    return out


def end_to_end_cases():
    out = []
    for hit in (True, False):
        for solver in ("unsat", "sat-valid", "sat-invalid-refinable", "sat-invalid-same", "unknown", "err"):

            def harness(interp, hit=hit, solver=solver):
                ctx = interp.ctx
                cores = [["1"]]
                consulted = []

                def check(i, a, k):
                    consulted.append((a[0], a[1]))
                    return hit

                interp.contracts["halmos.solve:check_unsat_cores"] = check
                solved = []

                def low(i, a, k):
                    solved.append(a[0])
                    first = len(solved) == 1
                    if solver == "unsat" or (not first):
                        return NS(result=z3.unsat, model=None, tag="second" if not first else "first")
                    if solver.startswith("sat"):
                        return NS(result=z3.sat, model=NS(is_valid=solver == "sat-valid"), tag="first")
                    return NS(result=z3.unknown if solver == "unknown" else "err", model=None, tag="first")

                interp.contracts["halmos.solve:solve_low_level"] = low
                query = hs.SMTQuery("Q", ["1", "2"])
                refined_q = hs.SMTQuery("Q" if solver == "sat-invalid-same" else "Q-refined", ["1", "2"])
                pc = NS(path_id=3, query=query, args=NS(verbose=0), solving_ctx=NS(unsat_cores=cores), dump_file="/nonexistent/q.smt2", is_refined=False)
                pc.refine = lambda: NS(query=refined_q, tag="refined-ctx")
                try:
                    r = interp.call(hsolve.solve_end_to_end, [pc], {})
                except BaseException as e:
                    if isinstance(e, _ENGINE):
                        raise
                    ctx.oblige(f"no-exception[{type(e).__name__}]", z3.BoolVal(False), info={"msg": str(e)[:200]})
                    return
                ctx.oblige("the cache is consulted with this query and this test's recorded cores", z3.BoolVal(consulted[:1] == [(query, cores)]))
                if hit:
                    ctx.oblige("cache hit: unsat is returned for this path without running a solver", z3.BoolVal(r.result == z3.unsat and r.path_id == 3 and solved == []))
                else:
                    ctx.oblige("cache miss: the solver is run on this query", z3.BoolVal(len(solved) >= 1 and solved[0] is pc))
                    if solver == "sat-invalid-refinable":
                        ctx.oblige("invalid model: the refined query's answer is returned", z3.BoolVal(len(solved) == 2 and getattr(solved[1], "tag", "") == "refined-ctx" and r.tag == "second"))
                    else:
                        ctx.oblige("otherwise the solver's own answer is returned, exactly one run", z3.BoolVal(len(solved) == 1 and r.tag == "first"))
                    ctx.oblige("unsat without a cache hit only if a solver said unsat", z3.BoolVal((r.result != z3.unsat) or solver in ("unsat", "sat-invalid-refinable")))

            out.append(Case(f"{PROP}/solve.solve_end_to_end", f"cache-hit={hit},solver={solver}", harness, sources=("halmos.solve:solve_end_to_end",)))
    return out


def build_cases(tier="quick"):
    # a tracked implication only binds through its named assertion: also for refined queries (C11 contract of dump)
    from contracts import c11

    ref = [Case(f"{PROP}/solve.dump#named-assertions", c.case, c.harness, replay=c.replay, sources=c.sources) for c in c11.dump_cases()]
    # with caching on the query ends with (get-unsat-core), which fails after `sat` (z3 exits 1): the answer is still `sat` (C05's unit)
    from contracts import c05
    from contracts.common import rewrap

    ref += rewrap(PROP, c05.from_result_cases(), "same-classification-with-and-without-cache")
    return pin_cases() + check_unsat_cores_cases() + parse_core_cases() + from_result_cases() + recording_cases() + end_to_end_cases() + ref


def bounded():
    return [Bounded("id-collision history search", _bounded_collision)]


ASSUMPTIONS = [
    "pyvc (VC generator, Python-subset semantics) is trusted",
    "external contract of z3: AstRef.get_id() is unique among live terms and a term referenced from a live Python object stays live (measured: the id of a reclaimed term is handed to one of the next new terms)",
    "solver soundness: an `unsat` answer with a core means the conjunction of the named assertions in the core is unsatisfiable, and the core lists only names that were asserted",
    "that the text written by dump names each tracked condition <id> and that assertion i is tracked under the id of condition i is proved in the C11 pack (Path.to_smt2, dump)",
    "parse_unsat_core is checked on a listed family of solver outputs (strings are outside the symbolic reach of the verifier)",
    "thread interleavings of the callback (list.append atomicity under the GIL) are assumed",
]
TRUSTED = ["pyvc (this repository's verifier)", "z3 4.12.6", "the ghost-state soundness argument of the module docstring"]
TECHNIQUE = "contracts with ghost id->condition meaning: VCs from the real source AST (pyvc) for the cache lookup, recording and serialisation functions; registry frame condition checked on the module AST; z3"
