"""C05 — verdict aggregation is fail-safe and independent of solver timing.

Units under contract:
  __main__.run_test, verdict fragment (the if/elif chain on `counter`, taken from the AST):
        for ALL non-negative counts (#sat, #err, #unknown, #stuck, #normal) the exit code equals the
        verdict table:  PASS iff sat=0, err=0, unknown=0, stuck=0, normal>0; otherwise FAIL (sat>0),
        else ERROR (err>0), else TIMEOUT (unknown>0), else ERROR/STUCK, else ERROR/REVERT_ALL.
        The counts are read only through collections.Counter over ctx.solver_outputs (checked
        syntactically on the statement feeding the chain), which is permutation invariant: the
        verdict is a function of the multiset of per-path outcomes (order independence lemma).
  Exitcode enum: PASS is 0 and every other verdict is non-zero (ground).
  solve.SolverOutput.from_result: result is unsat only if the first output line is exactly "unsat",
        sat only for "sat", unknown only for "unknown", anything else (empty, garbage, error text,
        different case, prefix/suffix) is "err" — over a listed family of solver outputs (ground
        family, strings are outside the verifier's symbolic reach).
  solve.solve_low_level, timeout branch: a TimeoutExpired from the future yields `unknown`
        (never unsat) with the timed-out return code.
"""
from __future__ import annotations

import ast
import subprocess
import types

import z3

from pyvc import loader
from pyvc.interp import Env, _ENGINE
from pyvc.pack import Case, Ground
from pyvc.sym import SymInt, iexpr

loader.import_repo()
import halmos.__main__ as hm  # noqa: E402
import halmos.solve as hsolve  # noqa: E402
from halmos.config import default_config  # noqa: E402
Exitcode = hm.Exitcode

PROP = "C05"


class GhostCounter:
    def __init__(self, counts):
        self.counts = counts


class GhostList:
    def __init__(self, n):
        self.n = n

    def __iter__(self):
        raise loader.BindingError("the verdict fragment iterates over `stuck`")


def _counter_getitem(interp, obj, key):
    if key not in obj.counts:
        raise loader.BindingError(f"verdict reads counter[{key!r}], which the contract does not know")
    return obj.counts[key]


def _ghost_len(interp, obj):
    return obj.n


def verdict_fragment():
    sf, node = loader.func_node(hm.run_test)
    chain = loader.find_dispatch_arm(node, "counter")
    # the statement feeding the chain must be `counter = Counter(<generator over ctx.solver_outputs>)`
    feeding = None
    for n in ast.walk(node):
        if isinstance(n, ast.Assign) and any(isinstance(t, ast.Name) and t.id == "counter" for t in n.targets):
            feeding = n
    ok = (
        feeding is not None
        and isinstance(feeding.value, ast.Call)
        and getattr(feeding.value.func, "id", None) == "Counter"
        and len(feeding.value.args) == 1
        and isinstance(feeding.value.args[0], ast.GeneratorExp)
        and ast.unparse(feeding.value.args[0].generators[0].iter) == "ctx.solver_outputs"
        and ast.unparse(feeding.value.args[0].elt) == "str(m.result)"
        and feeding.end_lineno < chain.lineno
    )
    return chain, ok, (ast.unparse(feeding) if feeding is not None else None)


def spec_verdict(sat, err, unk, stuck, normal):
    E = Exitcode
    return z3.If(sat > 0, E.COUNTEREXAMPLE.value, z3.If(err > 0, E.EXCEPTION.value, z3.If(unk > 0, E.TIMEOUT.value, z3.If(stuck > 0, E.STUCK.value, z3.If(normal == 0, E.REVERT_ALL.value, E.PASS.value)))))


def verdict_cases():
    def harness(interp):
        ctx = interp.ctx
        chain, feeding_ok, feeding_src = verdict_fragment()
        ctx.oblige("counts-come-from-Counter-over-solver_outputs (permutation invariant)", z3.BoolVal(feeding_ok), info={"stmt": str(feeding_src)[:200]})
        names = {k: SymInt(z3.Int(f"n_{k}")) for k in ("sat", "err", "unknown", "unsat")}
        n_stuck, normal = SymInt(z3.Int("n_stuck")), SymInt(z3.Int("n_normal"))
        for v in list(names.values()) + [n_stuck, normal]:
            ctx.assume(v.e >= 0)
        interp.externals[("getitem", GhostCounter)] = _counter_getitem
        interp.externals[("len", GhostList)] = _ghost_len
        env = Env({"counter": GhostCounter(names), "stuck": GhostList(n_stuck), "normal": normal, "funsig": "check_x()"}, None, hm.run_test.__globals__)
        kind, payload, _ = interp.exec_fragment([chain], env, qual="halmos.__main__:run_test#verdict", is_gen=False)
        ctx.oblige("fragment-falls-through", z3.BoolVal(kind == "fallthrough"), info={"kind": kind, "payload": str(payload)[:200]})
        if kind != "fallthrough":
            return
        code = env.lookup("exitcode")
        ctx.oblige("exitcode-is-concrete-on-each-path", z3.BoolVal(isinstance(code, int)))
        want = spec_verdict(names["sat"].e, names["err"].e, names["unknown"].e, n_stuck.e, normal.e)
        ctx.oblige("exitcode-equals-verdict-table", z3.IntVal(int(code)) == want, info={"exitcode": code})
        is_pass = z3.And(names["sat"].e == 0, names["err"].e == 0, names["unknown"].e == 0, n_stuck.e == 0, normal.e > 0)
        ctx.oblige("PASS-iff-nothing-failed-and-some-path-succeeded", z3.BoolVal(code == Exitcode.PASS.value) == is_pass)

    return [Case(f"{PROP}/__main__.run_test#verdict", "all counts", harness, sources=("halmos.__main__:run_test",), replay=replay_verdict)]


def replay_verdict(r):
    return {"reproduced": None, "detail": f"verdict chain disagrees with the table for counts {r.get('model')}; the fragment is embedded in run_test and is not callable on its own"}


def ground_exitcodes():
    out = [("Exitcode.PASS-is-zero", Exitcode.PASS.value == 0, "")]
    for e in Exitcode:
        if e is not Exitcode.PASS:
            out.append((f"Exitcode.{e.name}-is-nonzero", e.value != 0, str(e.value)))
    out.append(("module-constant-PASS-is-Exitcode.PASS (used by _main to count passed tests)", hm.PASS == Exitcode.PASS.value, ""))
    return out


# ---------------------------------------------------------------------------------------
OUTPUTS = [
    ("unsat\n", "unsat"),
    ("unsat", "unsat"),
    ("unsat\n(error \"x\")\n(<1> <2>)\n", "unsat"),
    ("sat\n(\n  (define-fun halmos_x_uint256_00 () (_ BitVec 256) #x01)\n)\n", "sat"),
    ("sat", "sat"),
    ("unknown\n", "unknown"),
    ("unknown", "unknown"),
    ("", "err"),
    ("\n", "err"),
    ("\nunsat\n", "err"),
    (" unsat\n", "err"),
    ("unsat \n", "err"),
    ("UNSAT\n", "err"),
    ("unsatisfiable\n", "err"),
    ("unsat_core\n", "err"),
    ("sat?\n", "err"),
    ("satisfiable\n", "err"),
    ("timeout\n", "err"),
    ("(error \"line 1: unknown sort\")\nunsat\n", "err"),
    ("Segmentation fault\n", "err"),
    ("unknown (incomplete)\n", "err"),
    ("un\nsat\n", "err"),
]


def from_result_cases():
    out = []
    fr = hsolve.SolverOutput.__dict__["from_result"]
    fr = fr.__func__ if isinstance(fr, staticmethod) else fr
    for k, (stdout, want) in enumerate(OUTPUTS):
        for cache in (False, True):

            def harness(interp, stdout=stdout, want=want, cache=cache):
                ctx = interp.ctx
                from contracts.common import config

                pc = types.SimpleNamespace(args=config(cache_solver=True) if cache else config(), path_id=5, dump_file="/nonexistent/q.smt2")
                interp.contracts["halmos.solve:parse_model_str"] = lambda i, a, k: {}
                interp.contracts["halmos.solve:parse_unsat_core"] = lambda i, a, k: ["1"]
                try:
                    r = interp.call(fr, [stdout, "stderr text", 3, pc], {})
                except BaseException as e:
                    if isinstance(e, _ENGINE):
                        raise
                    ctx.oblige(f"no-exception[{type(e).__name__}]", z3.BoolVal(False), info={"msg": str(e)[:200]})
                    return
                got = str(r.result)
                ctx.oblige("classification", z3.BoolVal(got == want), info={"stdout": repr(stdout)[:60], "got": got, "want": want})
                ctx.oblige("never-unsat-unless-first-line-is-exactly-unsat", z3.BoolVal((r.result == z3.unsat) == (want == "unsat")))
                ctx.oblige("path-id-and-returncode-kept", z3.BoolVal(r.path_id == 5 and r.returncode == 3))

            def replay(r, stdout=stdout, want=want, cache=cache):
                from contracts.common import config

                pc = types.SimpleNamespace(args=config(cache_solver=True) if cache else config(), path_id=5, dump_file="/nonexistent/q.smt2")
                try:
                    got = str(hsolve.SolverOutput.from_result(stdout, "stderr text", 3, pc).result)
                except Exception as e:  # noqa
                    return {"reproduced": True, "detail": f"SolverOutput.from_result({stdout!r}) raised {type(e).__name__}: {e}", "inputs": stdout}
                if got != want:
                    return {"reproduced": True, "detail": f"SolverOutput.from_result on solver output {stdout!r} gives result {got!r}; only an exact first line sat/unsat/unknown may be trusted, expected {want!r}", "inputs": stdout}
                return {"reproduced": False, "detail": f"real from_result classifies {stdout!r} as {got!r}"}

            out.append(Case(f"{PROP}/solve.SolverOutput.from_result", f"#{k} {stdout[:14]!r} cache={cache}", harness, sources=("halmos.solve:SolverOutput.from_result",), replay=replay))
    return out


class TimeoutFuture:
    def __init__(self, cmd, timeout=None):
        self.cmd, self.timeout = cmd, timeout

    def result(self):
        raise subprocess.TimeoutExpired(self.cmd, self.timeout)


class RecExecutor:
    def __init__(self):
        self.submitted = []

    def submit(self, f):
        self.submitted.append(f)


def timeout_cases():
    def harness(interp):
        ctx = interp.ctx
        ex = RecExecutor()
        args = types.SimpleNamespace(verbose=0, resolved_solver_command=["solver"], solver_timeout_assertion=1.5)
        pc = types.SimpleNamespace(args=args, path_id=9, dump_file="/nonexistent/q.smt2", solving_ctx=types.SimpleNamespace(executor=ex))
        dumped = []
        interp.contracts["halmos.solve:dump"] = lambda i, a, k: dumped.append(a[0])
        made = []

        def mk_future(i, *a, **k):
            f = TimeoutFuture(*a, **k)
            made.append(f)
            return f

        interp.externals[hsolve.PopenFuture] = mk_future
        try:
            r = interp.call(hsolve.solve_low_level, [pc], {})
        except BaseException as e:
            if isinstance(e, _ENGINE):
                raise
            ctx.oblige(f"no-exception[{type(e).__name__}]", z3.BoolVal(False), info={"msg": str(e)[:200]})
            return
        ctx.oblige("timeout-is-reported-as-unknown-never-unsat", z3.BoolVal(r.result == z3.unknown and r.result != z3.unsat))
        ctx.oblige("timed-out-return-code", z3.BoolVal(r.returncode == hsolve.EXIT_TIMEDOUT and r.path_id == 9))
        ctx.oblige("query-written-and-job-submitted-once-with-the-time-limit", z3.BoolVal(dumped == [pc] and len(made) == 1 and ex.submitted == made and made[0].timeout == 1.5 and made[0].cmd == ["solver", "/nonexistent/q.smt2"]))

    return [Case(f"{PROP}/solve.solve_low_level", "future raises TimeoutExpired", harness, sources=("halmos.solve:solve_low_level",))]


def build_cases(tier="quick"):
    return verdict_cases() + from_result_cases() + timeout_cases()


def grounds():
    return [Ground(f"{PROP}/utils.Exitcode", ground_exitcodes)]


ASSUMPTIONS = [
    "pyvc (VC generator, Python-subset semantics) is trusted; path covers guard vacuity",
    "collections.Counter is permutation invariant and counter[k] is the number of outputs whose str(result) is k; `stuck` and `normal` are computed in the main thread before the chain",
    "that each submitted solver job contributes exactly one element of ctx.solver_outputs whatever the completion order (ThreadPoolExecutor.shutdown(wait=True) runs callbacks first, list.append is atomic under the GIL) is assumed, not proved; _solve_end_to_end_callback, early-exit and the process exit code of _main are not under contract in this round",
    "SolverOutput.from_result is checked on a listed family of solver outputs (strings are outside the symbolic reach of the verifier), not for all strings",
    "concurrent.futures.Future.result re-raises the stored exception (CPython); the real PopenFuture is replaced by a future whose result() raises TimeoutExpired",
]
TRUSTED = ["pyvc (this repository's verifier)", "z3 4.12.6 (LIA)", "the verdict table of DESIGN 3.6, transcribed in spec_verdict"]
