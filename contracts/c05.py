"""C05 — verdict aggregation is fail-safe and independent of solver timing.

Units under contract:
  __main__.run_test, verdict fragment (the if/elif chain on `counter`, taken from the AST):
        for ALL non-negative counts (#sat, #err, #unknown, #stuck, #normal) the exit code equals the
        verdict table:  PASS iff sat=0, err=0, unknown=0, stuck=0, normal>0; otherwise FAIL (sat>0),
        else ERROR (err>0), else TIMEOUT (unknown>0), else ERROR/STUCK, else ERROR/REVERT_ALL.
        The counts are read only through collections.Counter over ctx.solver_outputs (checked
        syntactically on the statement feeding the chain), which is permutation invariant: the
        verdict is a function of the multiset of per-path outcomes (order independence lemma).
  Exitcode enum: PASS is 0 and every other verdict is non-zero (ground).
  solve.SolverOutput.from_result: result is unsat only if the first output line is exactly "unsat",
        sat only for "sat", unknown only for "unknown", anything else (empty, garbage, error text,
        different case, prefix/suffix) is "err" — over a listed family of solver outputs (ground
        family, strings are outside the verifier's symbolic reach).
  solve.solve_low_level, timeout branch: a TimeoutExpired from the future yields `unknown`
        (never unsat) with the timed-out return code.
"""
from __future__ import annotations

import ast
import subprocess
import types

import z3

from pyvc import loader
from pyvc.interp import Env, _ENGINE
from contracts.common import replay_script  # noqa: E402
from pyvc.pack import Case, Ground
from pyvc.sym import SymInt, iexpr

loader.import_repo()
import halmos.__main__ as hm  # noqa: E402
import halmos.solve as hsolve  # noqa: E402
from halmos.config import default_config  # noqa: E402
Exitcode = hm.Exitcode

PROP = "C05"


class GhostCounter:
    def __init__(self, counts):
        self.counts = counts


class GhostList:
    def __init__(self, n):
        self.n = n

    def __iter__(self):
        raise loader.BindingError("the verdict fragment iterates over `stuck`")


def _counter_getitem(interp, obj, key):
    if key not in obj.counts:
        raise loader.BindingError(f"verdict reads counter[{key!r}], which the contract does not know")
    return obj.counts[key]


def _ghost_len(interp, obj):
    return obj.n


def verdict_fragment():
    sf, node = loader.func_node(hm.run_test)
    chain = loader.find_dispatch_arm(node, "counter")
    # the statement feeding the chain must be `counter = Counter(<generator over ctx.solver_outputs>)`
    feeding = None
    for n in ast.walk(node):
        if isinstance(n, ast.Assign) and any(isinstance(t, ast.Name) and t.id == "counter" for t in n.targets):
            feeding = n
    ok = (
        feeding is not None
        and isinstance(feeding.value, ast.Call)
        and getattr(feeding.value.func, "id", None) == "Counter"
        and len(feeding.value.args) == 1
        and isinstance(feeding.value.args[0], ast.GeneratorExp)
        and ast.unparse(feeding.value.args[0].generators[0].iter) == "ctx.solver_outputs"
        and ast.unparse(feeding.value.args[0].elt) == "str(m.result)"
        and feeding.end_lineno < chain.lineno
    )
    return chain, ok, (ast.unparse(feeding) if feeding is not None else None)


def spec_verdict(sat, err, unk, stuck, normal):
    """the property's table: FAIL, then ERROR (a failed solver call, a stuck path), then TIMEOUT, `in that precedence`; then no successful
    path (an error of its own), else PASS"""
    E = Exitcode
    return z3.If(sat > 0, E.COUNTEREXAMPLE.value, z3.If(err > 0, E.EXCEPTION.value, z3.If(stuck > 0, E.STUCK.value, z3.If(unk > 0, E.TIMEOUT.value, z3.If(normal == 0, E.REVERT_ALL.value, E.PASS.value)))))


def verdict_cases():
    def harness(interp):
        ctx = interp.ctx
        chain, feeding_ok, feeding_src = verdict_fragment()
        ctx.oblige("counts-come-from-Counter-over-solver_outputs (permutation invariant)", z3.BoolVal(feeding_ok), info={"stmt": str(feeding_src)[:200]})
        names = {k: SymInt(z3.Int(f"n_{k}")) for k in ("sat", "err", "unknown", "unsat")}
        n_stuck, normal = SymInt(z3.Int("n_stuck")), SymInt(z3.Int("n_normal"))
        for v in list(names.values()) + [n_stuck, normal]:
            ctx.assume(v.e >= 0)
        interp.externals[("getitem", GhostCounter)] = _counter_getitem
        interp.externals[("len", GhostList)] = _ghost_len
        env = Env({"counter": GhostCounter(names), "stuck": GhostList(n_stuck), "normal": normal, "funsig": "check_x()"}, None, hm.run_test.__globals__)
        kind, payload, _ = interp.exec_fragment([chain], env, qual="halmos.__main__:run_test#verdict", is_gen=False)
        ctx.oblige("fragment-falls-through", z3.BoolVal(kind == "fallthrough"), info={"kind": kind, "payload": str(payload)[:200]})
        if kind != "fallthrough":
            return
        code = env.lookup("exitcode")
        ctx.oblige("exitcode-is-concrete-on-each-path", z3.BoolVal(isinstance(code, int)))
        want = spec_verdict(names["sat"].e, names["err"].e, names["unknown"].e, n_stuck.e, normal.e)
        ctx.oblige("exitcode-equals-verdict-table", z3.IntVal(int(code)) == want, info={"exitcode": code})
        is_pass = z3.And(names["sat"].e == 0, names["err"].e == 0, names["unknown"].e == 0, n_stuck.e == 0, normal.e > 0)
        ctx.oblige("PASS-iff-nothing-failed-and-some-path-succeeded", z3.BoolVal(code == Exitcode.PASS.value) == is_pass)

    return [Case(f"{PROP}/__main__.run_test#verdict", "all counts", harness, sources=("halmos.__main__:run_test",), replay=replay_verdict)]


def replay_verdict(r):
    """the chain is embedded in run_test: replayed by executing its very source text (taken from the real function) natively on the model's counts"""
    import textwrap
    from collections import Counter

    m = r.get("model") or {}
    cnt = {k: int(m.get(f"n_{k}", 0) or 0) for k in ("sat", "err", "unknown", "unsat")}
    n_stuck, normal = int(m.get("n_stuck", 0) or 0), int(m.get("n_normal", 0) or 0)
    chain, _, _ = verdict_fragment()
    src = textwrap.dedent(ast.unparse(chain))
    env = dict(hm.run_test.__globals__)
    env.update(counter=Counter(cnt), stuck=[None] * n_stuck, normal=normal, funsig="check_x()")
    try:
        exec(src, env)
    except Exception as e:  # noqa
        return {"reproduced": None, "detail": f"could not run the chain natively: {type(e).__name__}: {e}"}
    got = env.get("exitcode")
    order = {Exitcode.COUNTEREXAMPLE.value: "FAIL", Exitcode.EXCEPTION.value: "ERROR", Exitcode.STUCK.value: "ERROR (stuck)", Exitcode.TIMEOUT.value: "TIMEOUT", Exitcode.REVERT_ALL.value: "ERROR (all reverted)", Exitcode.PASS.value: "PASS"}
    want = Exitcode.COUNTEREXAMPLE.value if cnt["sat"] else Exitcode.EXCEPTION.value if cnt["err"] else Exitcode.STUCK.value if n_stuck else Exitcode.TIMEOUT.value if cnt["unknown"] else Exitcode.REVERT_ALL.value if normal == 0 else Exitcode.PASS.value
    return {"reproduced": got != want, "detail": f"outcomes sat={cnt['sat']} err={cnt['err']} unknown={cnt['unknown']} stuck paths={n_stuck} successful paths={normal}: run_test's verdict chain gives {order.get(got, got)}, the precedence FAIL > ERROR > TIMEOUT gives {order.get(want, want)}", "inputs": {**cnt, "stuck": n_stuck, "normal": normal}}


def ground_exitcodes():
    out = [("Exitcode.PASS-is-zero", Exitcode.PASS.value == 0, "")]
    for e in Exitcode:
        if e is not Exitcode.PASS:
            out.append((f"Exitcode.{e.name}-is-nonzero", e.value != 0, str(e.value)))
    out.append(("module-constant-PASS-is-Exitcode.PASS (used by _main to count passed tests)", hm.PASS == Exitcode.PASS.value, ""))
    return out


# ---------------------------------------------------------------------------------------
OUTPUTS = [
    ("unsat\n", "unsat"),
    ("unsat", "unsat"),
    ("unsat\n(error \"x\")\n(<1> <2>)\n", "unsat"),
    ("sat\n(\n  (define-fun halmos_x_uint256_00 () (_ BitVec 256) #x01)\n)\n", "sat"),
    ("sat", "sat"),
    ("unknown\n", "unknown"),
    ("unknown", "unknown"),
    ("", "err"),
    ("\n", "err"),
    ("\nunsat\n", "err"),
    (" unsat\n", "err"),
    ("unsat \n", "err"),
    ("UNSAT\n", "err"),
    ("unsatisfiable\n", "err"),
    ("unsat_core\n", "err"),
    ("sat?\n", "err"),
    ("satisfiable\n", "err"),
    ("timeout\n", "err"),
    ("(error \"line 1: unknown sort\")\nunsat\n", "err"),
    ("Segmentation fault\n", "err"),
    ("unknown (incomplete)\n", "err"),
    ("un\nsat\n", "err"),
]


def from_result_cases():
    out = []
    fr = hsolve.SolverOutput.__dict__["from_result"]
    fr = fr.__func__ if isinstance(fr, staticmethod) else fr
    for k, (stdout, want) in enumerate(OUTPUTS):
        for cache in (False, True):

            def harness(interp, stdout=stdout, want=want, cache=cache):
                ctx = interp.ctx
                from contracts.common import config

                pc = types.SimpleNamespace(args=config(cache_solver=True) if cache else config(), path_id=5, dump_file="/nonexistent/q.smt2")
                interp.contracts["halmos.solve:parse_model_str"] = lambda i, a, k: {}
                interp.contracts["halmos.solve:parse_unsat_core"] = lambda i, a, k: ["1"]
                try:
                    r = interp.call(fr, [stdout, "stderr text", 3, pc], {})
                except BaseException as e:
                    if isinstance(e, _ENGINE):
                        raise
                    ctx.oblige(f"no-exception[{type(e).__name__}]", z3.BoolVal(False), info={"msg": str(e)[:200]})
                    return
                got = str(r.result)
                ctx.oblige("classification", z3.BoolVal(got == want), info={"stdout": repr(stdout)[:60], "got": got, "want": want})
                ctx.oblige("never-unsat-unless-first-line-is-exactly-unsat", z3.BoolVal((r.result == z3.unsat) == (want == "unsat")))
                ctx.oblige("path-id-and-returncode-kept", z3.BoolVal(r.path_id == 5 and r.returncode == 3))

            def replay(r, stdout=stdout, want=want, cache=cache):
                from contracts.common import config

                pc = types.SimpleNamespace(args=config(cache_solver=True) if cache else config(), path_id=5, dump_file="/nonexistent/q.smt2")
                try:
                    got = str(hsolve.SolverOutput.from_result(stdout, "stderr text", 3, pc).result)
                except Exception as e:  # noqa
                    return {"reproduced": True, "detail": f"SolverOutput.from_result({stdout!r}) raised {type(e).__name__}: {e}", "inputs": stdout}
                if got != want:
                    return {"reproduced": True, "detail": f"SolverOutput.from_result on solver output {stdout!r} gives result {got!r}; only an exact first line sat/unsat/unknown may be trusted, expected {want!r}", "inputs": stdout}
                return {"reproduced": False, "detail": f"real from_result classifies {stdout!r} as {got!r}"}

            out.append(Case(f"{PROP}/solve.SolverOutput.from_result", f"#{k} {stdout[:14]!r} cache={cache}", harness, sources=("halmos.solve:SolverOutput.from_result",), replay=replay))
    return out


class TimeoutFuture:
    def __init__(self, cmd, timeout=None):
        self.cmd, self.timeout = cmd, timeout

    def result(self):
        raise subprocess.TimeoutExpired(self.cmd, self.timeout)


class RecExecutor:
    def __init__(self):
        self.submitted = []

    def submit(self, f):
        self.submitted.append(f)


class StubFile:
    """a pathlib-like query file that may already exist (a dump directory kept from an earlier run or shared by tests)"""

    def __init__(self, name, exists):
        self.name, self._exists = name, exists

    def exists(self):
        return self._exists

    def is_file(self):
        return self._exists

    def __str__(self):
        return self.name

    def __fspath__(self):
        return self.name


def timeout_cases():
    return [_timeout_case(False), _timeout_case(True)]


def _timeout_case(file_exists):
    def harness(interp):
        ctx = interp.ctx
        ex = RecExecutor()
        args = types.SimpleNamespace(verbose=0, resolved_solver_command=["solver"], solver_timeout_assertion=1.5)
        pc = types.SimpleNamespace(args=args, path_id=9, dump_file=StubFile("/nonexistent/q.smt2", file_exists), solving_ctx=types.SimpleNamespace(executor=ex))
        dumped = []
        interp.contracts["halmos.solve:dump"] = lambda i, a, k: dumped.append(a[0])
        made = []

        def mk_future(i, *a, **k):
            f = TimeoutFuture(*a, **k)
            made.append(f)
            return f

        interp.externals[hsolve.PopenFuture] = mk_future
        try:
            r = interp.call(hsolve.solve_low_level, [pc], {})
        except BaseException as e:
            if isinstance(e, _ENGINE):
                raise
            ctx.oblige(f"no-exception[{type(e).__name__}]", z3.BoolVal(False), info={"msg": str(e)[:200]})
            return
        ctx.oblige("timeout-is-reported-as-unknown-never-unsat", z3.BoolVal(r.result == z3.unknown and r.result != z3.unsat))
        ctx.oblige("timed-out-return-code", z3.BoolVal(r.returncode == hsolve.EXIT_TIMEDOUT and r.path_id == 9))
        ctx.oblige("the query of THIS path is written before the solver is started, whether or not a file of that name already exists, and the job is submitted once with the time limit", z3.BoolVal(dumped == [pc] and len(made) == 1 and ex.submitted == made and made[0].timeout == 1.5 and made[0].cmd == ["solver", "/nonexistent/q.smt2"]), info={"dumped": len(dumped)})

    return Case(f"{PROP}/solve.solve_low_level", "future raises TimeoutExpired" + ("; query file already exists" if file_exists else ""), harness, replay=replay_script("stale_query_file.py", "two tests with the same name under one --dump-smt-directory"), sources=("halmos.solve:solve_low_level",))


# ---------------------------------------------------------------------------------------
# run_test: body of the loop over the yielded paths (classification of one path)


def run_test_loop():
    sf, node = loader.func_node(hm.run_test)
    hits = [n for n in ast.walk(node) if isinstance(n, ast.For) and ast.unparse(n.iter) == "enumerate(exs)"]
    if len(hits) != 1:
        raise loader.BindingError(f"expected exactly one `for ... in enumerate(exs)` in run_test, found {len(hits)}")
    return hits[0]


class NS:
    def __init__(self, **kw):
        self.__dict__.update(kw)


class StuckReason(Exception):
    pass


def mk_path_stub(kind):
    """a yielded Exec of one of the four kinds the property distinguishes"""
    # "substuck": stopped by an unsupported feature inside a sub-call: this frame has neither an error nor output data
    out = NS(error=None if kind in ("success", "substuck") else ("revert" if kind in ("revert", "panic", "fail") else StuckReason("unsupported")), data=None if kind in ("stuck", "substuck") else b"")
    cx = NS(output=out)
    cx.is_stuck = lambda: kind in ("stuck", "substuck")
    cx.get_stuck_reason = lambda: out.error or StuckReason("unsupported feature in a sub-call")
    ex = NS(context=cx, call_sequence=[])
    ex.path = NS(to_smt2=lambda args: "QUERY")
    ex.is_panic_of = lambda codes: kind == "panic"
    return ex


def classification_cases():
    out = []
    # stuck:raises-*: the real solve_low_level RAISES when the executor was shut down by an early exit in another thread's callback
    # (ShutdownError from submit, or OSError 9 from the pipes of the killed solver): the verdict must still be the one of the outcomes
    kinds = ["success", "revert", "panic", "fail", "stuck:unsat", "stuck:sat", "stuck:unknown", "stuck:err", "stuck:raises-shutdown", "stuck:raises-badfd", "stuck:raises-cancelled", "stuck:raises-other", "substuck:unsat", "substuck:sat", "substuck:unknown", "shutdown"]
    for kind in kinds:

        def harness(interp, kind=kind):
            ctx = interp.ctx
            loop = run_test_loop()
            k0 = kind.split(":")[0]
            ex = mk_path_stub(k0 if k0 != "shutdown" else "success")
            handled = []
            handler = NS(handle_assertion_violation=lambda **kw: handled.append(kw))
            shut = kind == "shutdown"
            fctx = NS(solving_ctx=NS(executor=NS(is_shutdown=lambda: shut)), exec_cache={}, traces={})
            width = SymInt(z3.Int("width"))
            path_id = SymInt(z3.Int("path_id"))
            normal0, potential0 = SymInt(z3.Int("normal0")), SymInt(z3.Int("potential0"))
            for v in (width, path_id, normal0, potential0):
                ctx.assume(v.e >= 0)
            args = NS(debug=False, print_failed_states=False, verbose=0, print_blocked_states=False, print_success_states=False, print_states=False, width=width, panic_error_codes={1})
            interp.contracts["halmos.__main__:is_global_fail_set"] = lambda i, a, k: k0 == "fail"
            solved = []

            def solve_low_level(i, a, k):
                solved.append(a[0])
                r = kind.split(":")[1]
                if r == "raises-shutdown":
                    from halmos.processes import ShutdownError

                    raise ShutdownError()
                if r == "raises-badfd":
                    raise OSError(9, "Bad file descriptor")
                if r == "raises-cancelled":
                    from concurrent.futures import CancelledError

                    raise CancelledError()  # shutdown after submit(), before the solver process exists
                if r == "raises-other":
                    raise RuntimeError("solver wrapper bug")
                return NS(result={"unsat": z3.unsat, "sat": z3.sat, "unknown": z3.unknown, "err": "err"}[r])

            interp.contracts["halmos.solve:solve_low_level"] = solve_low_level
            interp.contracts["halmos.solve:PathContext"] = lambda i, a, k: NS(**k)
            stuck = []
            env = Env({"ctx": fctx, "args": args, "ex": ex, "path_id": path_id, "handler": handler, "normal": normal0, "potential": potential0, "stuck": stuck, "flamegraph_enabled": False, "is_invariant": False, "funsig": "check_x()"}, None, hm.run_test.__globals__)
            n_log = len(ctx.ghost_log)
            kindr, payload, _ = interp.exec_fragment(loop.body, env, qual="halmos.__main__:run_test#path-loop", is_gen=False)
            if kind == "stuck:raises-other":
                ctx.oblige("an unexpected failure of the feasibility query is not swallowed (the test ends as an error)", z3.BoolVal(kindr == "raise" and isinstance(payload, RuntimeError)))
                return
            if kindr == "raise":
                ctx.oblige("a shutdown by an early exit while a stuck path is being checked leaves the verdict to the recorded outcomes (the path counts as stuck), it does not abort the test" if "raises" in kind else f"no-exception[{type(payload).__name__}]", z3.BoolVal(False), info={"msg": str(payload)[:200], "exc": type(payload).__name__})
                return
            normal, potential = env.lookup("normal"), env.lookup("potential")
            dn = iexpr(normal) - normal0.e
            dp = iexpr(potential) - potential0.e
            if shut:
                ctx.oblige("shutdown: exploration stops before the path is counted", z3.BoolVal(kindr == "break" and not handled and not stuck and not solved))
                ctx.oblige("shutdown: counters unchanged", z3.And(dn == 0, dp == 0))
                return
            if k0 in ("panic", "fail"):
                ok = len(handled) == 1 and handled[0].get("ex") is ex and handled[0].get("panic_found") == (k0 == "panic") and not stuck and not solved
                ctx.oblige("assertion-violating path is handed to the solver exactly once", z3.BoolVal(ok), info={"handled": len(handled)})
                ctx.oblige("counters: potential+1, normal unchanged", z3.And(dp == 1, dn == 0))
            elif k0 in ("stuck", "substuck"):
                r = kind.split(":")[1]
                ctx.oblige("stuck path: feasibility is asked of the solver once, on this path's query", z3.BoolVal(len(solved) == 1 and getattr(solved[0], "query", None) == "QUERY" and not handled))
                kept = len(stuck) == 1 and stuck[0][1] is ex
                if r == "unsat":
                    ctx.oblige("stuck path proved infeasible (unsat) is dropped", z3.BoolVal(stuck == []))
                else:
                    ctx.oblige("stuck path is kept unless the solver says unsat (sat, unknown/timeout, error all keep it)", z3.BoolVal(kept), info={"solver": r})
                ctx.oblige("counters unchanged", z3.And(dp == 0, dn == 0))
            elif k0 == "success":
                ctx.oblige("successful path is counted as normal", z3.And(dn == 1, dp == 0))
                ctx.oblige("successful path: nothing sent to the solver, nothing stuck", z3.BoolVal(not handled and not stuck and not solved))
            else:
                ctx.oblige("reverted path counts as neither normal nor potential", z3.And(dn == 0, dp == 0))
                ctx.oblige("reverted path: nothing sent to the solver, nothing stuck", z3.BoolVal(not handled and not stuck and not solved))
            # --width: the loop is left exactly when the limit is set and reached, with a warning naming it
            warned = any(e[0] == "warn" and "--width" in str(e[1][0]) for e in ctx.ghost_log[n_log:])
            cut = z3.And(width.e > 0, path_id.e >= width.e)
            ctx.oblige("width: loop left iff the limit is set and reached", z3.BoolVal(kindr == "break") == cut, info={"kind": kindr})
            ctx.oblige("width: leaving early is reported by a warning naming --width", z3.BoolVal((kindr != "break") or warned))

        out.append(Case(f"{PROP}/__main__.run_test#path-loop", kind, harness, replay=replay_script("early_exit_stuck_path.py", "a counterexample and a stuck path under --early-exit") if "raises-" in kind else None, sources=("halmos.__main__:run_test",)))
    return out


# ---------------------------------------------------------------------------------------
# CounterexampleHandler._solve_end_to_end_callback / _get_solver_output


class RecList(list):
    pass


def callback_cases():
    out = []
    kinds = ["unsat,core", "unsat,empty-core", "unsat,no-core", "err", "unknown", "sat,valid", "sat,valid,early-exit", "sat,invalid", "sat,no-model"]
    for kind in kinds:
        for probe in (False, True):

            def harness(interp, kind=kind, probe=probe):
                ctx = interp.ctx
                parts = kind.split(",")
                res = {"unsat": z3.unsat, "err": "err", "unknown": z3.unknown, "sat": z3.sat}[parts[0]]
                model = None
                if parts[0] == "sat" and "no-model" not in parts:
                    model = NS(is_valid="valid" in parts)
                core = {"core": ["7", "9"], "empty-core": [], "no-core": None}.get(parts[1]) if parts[0] == "unsat" else None
                so = NS(result=res, model=model, path_id=4, unsat_core=core, error="boom", returncode=1, query_file="/nonexistent/q.smt2")
                cores = []
                shutdowns = []
                fctx = NS(
                    args=NS(verbose=0, early_exit="early-exit" in parts),
                    solver_outputs=[],
                    valid_counterexamples=[],
                    invalid_counterexamples=[],
                    call_sequences={4: ""},
                    traces={},
                    contract_ctx=NS(probes_reported=set()),
                    info=NS(name="check_x"),
                    solving_ctx=NS(executor=NS(shutdown=lambda wait=True: shutdowns.append(wait))),
                )
                fctx.append_unsat_core = lambda c: cores.append(c)
                handler = object.__new__(hm.CounterexampleHandler)
                object.__setattr__(handler, "ctx", fctx)
                object.__setattr__(handler, "is_probe", probe)
                object.__setattr__(handler, "is_invariant", False)
                object.__setattr__(handler, "flamegraph_enabled", False)
                object.__setattr__(handler, "potential_flamegraphs", {})
                saved = []
                interp.contracts["halmos.__main__:CounterexampleHandler._get_solver_output"] = lambda i, a, k: so
                interp.contracts["halmos.__main__:CounterexampleHandler._save_failed_query"] = lambda i, a, k: saved.append(a[1:])
                ex = NS(context=NS(message=NS(fun_info="probe-fun")))
                n_log = len(ctx.ghost_log)
                fn = hm.CounterexampleHandler.__dict__["_solve_end_to_end_callback"]
                try:
                    interp.call(fn, [handler, "future"], {"ex": ex, "path_ctx": NS(), "description": None})
                except BaseException as e:
                    if isinstance(e, _ENGINE):
                        raise
                    ctx.oblige(f"no-exception[{type(e).__name__}]", z3.BoolVal(False), info={"msg": str(e)[:200]})
                    return
                ctx.oblige("exactly-one-outcome-recorded-per-solver-job", z3.BoolVal(len(fctx.solver_outputs) == 1 and fctx.solver_outputs[0] is so), info={"n": len(fctx.solver_outputs)})
                v, iv = fctx.valid_counterexamples, fctx.invalid_counterexamples
                if parts[0] == "sat" and model is not None and model.is_valid:
                    ctx.oblige("valid model goes to valid_counterexamples only", z3.BoolVal(v == [model] and iv == []))
                elif parts[0] == "sat" and model is not None:
                    warned = any(e[0] == "warn_code" and e[1][0] is hm.COUNTEREXAMPLE_INVALID for e in ctx.ghost_log[n_log:])
                    ctx.oblige("model depending on an abstraction goes to invalid_counterexamples only, with the warning", z3.BoolVal(v == [] and iv == [model] and warned))
                else:
                    ctx.oblige("no counterexample recorded without a sat model", z3.BoolVal(v == [] and iv == []))
                if parts[0] == "unsat":
                    ctx.oblige("unsat: a non-empty core is recorded; an empty or missing core is never recorded (it would match every query)", z3.BoolVal(cores == ([core] if core else [])), info={"recorded": str(cores)})
                else:
                    ctx.oblige("no unsat core recorded unless the answer is unsat", z3.BoolVal(cores == []))
                ctx.oblige("early exit (executor shutdown without waiting) only after a valid counterexample with --early-exit", z3.BoolVal(shutdowns == ([False] if kind == "sat,valid,early-exit" else [])), info={"shutdowns": str(shutdowns)})
                ctx.oblige("failed queries saved for err/unknown only", z3.BoolVal(len(saved) == (1 if parts[0] in ("err", "unknown") else 0)))

            out.append(Case(f"{PROP}/__main__.CounterexampleHandler._solve_end_to_end_callback", f"{kind},probe={probe}", harness, sources=("halmos.__main__:CounterexampleHandler._solve_end_to_end_callback",)))

    for kind in ("shutdown", "future-exception", "future-exception-benign", "result-raises", "result"):

        def harness(interp, kind=kind):
            ctx = interp.ctx
            from halmos.processes import ShutdownError

            good = NS(result=z3.unsat)
            exc = ShutdownError() if kind == "future-exception-benign" else RuntimeError("solver crashed")

            class Fut:
                def exception(self):
                    return exc if kind.startswith("future-exception") else None

                def result(self):
                    if kind == "result-raises":
                        raise exc
                    return good

            fctx = NS(solving_ctx=NS(executor=NS(is_shutdown=lambda: kind == "shutdown")))
            handler = object.__new__(hm.CounterexampleHandler)
            object.__setattr__(handler, "ctx", fctx)
            made = []

            def from_error(i, a, k):
                o = NS(result="err", error=a[0], **k)
                made.append(o)
                return o

            interp.contracts["halmos.solve:SolverOutput.from_error"] = from_error
            fn = hm.CounterexampleHandler.__dict__["_get_solver_output"]
            try:
                r = interp.call(fn, [handler, Fut(), NS(path_id=4, dump_file="/nonexistent/q.smt2")], {})
            except BaseException as e:
                if isinstance(e, _ENGINE):
                    raise
                ctx.oblige(f"no-exception-escapes[{type(e).__name__}]", z3.BoolVal(False), info={"msg": str(e)[:200]})
                return
            if kind == "result":
                ctx.oblige("a completed job's own output is returned", z3.BoolVal(r is good and not made))
            else:
                ctx.oblige("shutdown / exception / failing result() all yield an `err` output, never unsat", z3.BoolVal(len(made) == 1 and r is made[0] and r.result == "err" and r.path_id == 4), info={"kind": kind})

        out.append(Case(f"{PROP}/__main__.CounterexampleHandler._get_solver_output", kind, harness, sources=("halmos.__main__:CounterexampleHandler._get_solver_output",)))
    return out


# ---------------------------------------------------------------------------------------
# _main: per-contract accounting and process exit code


def main_fragments():
    sf, node = loader.func_node(hm._main)
    names = {"num_passed", "num_failed", "total_found", "total_passed", "total_failed"}
    acc = []
    loop = [n for n in ast.walk(node) if isinstance(n, ast.For) and "build_output_iterator" in ast.unparse(n.iter)]
    if len(loop) != 1:
        raise loader.BindingError("per-contract loop of _main not found")
    for st in loop[0].body:
        tgt = None
        if isinstance(st, ast.Assign) and len(st.targets) == 1 and isinstance(st.targets[0], ast.Name):
            tgt = st.targets[0].id
        elif isinstance(st, ast.AugAssign) and isinstance(st.target, ast.Name):
            tgt = st.target.id
        if tgt in names:
            acc.append(st)
    if [ast.unparse(s).split(" ")[0] for s in acc] != ["num_passed", "num_failed", "total_found", "total_passed", "total_failed"]:
        raise loader.BindingError(f"unexpected accounting statements in _main: {[ast.unparse(s) for s in acc]}")
    tail = None
    body = node.body
    for k, st in enumerate(body):
        if isinstance(st, ast.If) and ast.unparse(st.test) == "total_found == 0":
            tail = body[k:]
    if tail is None:
        raise loader.BindingError("exit-code tail of _main not found")
    return acc, tail


def exit_code_cases():
    out = []
    for k in (0, 1, 2, 3):

        def harness(interp, k=k):
            ctx = interp.ctx
            acc, tail = main_fragments()
            codes = [SymInt(z3.Int(f"exitcode{j}")) for j in range(k)]
            results = [NS(exitcode=c) for c in codes]
            num_found = SymInt(z3.Int("num_found"))
            ctx.assume(num_found.e >= k)  # run_contract returns at most one result per selected test ([] if setUp failed)
            tf0, tp0, tfail0 = SymInt(z3.Int("total_found0")), SymInt(z3.Int("total_passed0")), SymInt(z3.Int("total_failed0"))
            for v in (tf0, tp0, tfail0):
                ctx.assume(v.e >= 0)
            # invariant of the per-contract loop: failed = found - passed
            ctx.assume(tfail0.e == tf0.e - tp0.e)
            env = Env({"test_results": results, "num_found": num_found, "total_found": tf0, "total_passed": tp0, "total_failed": tfail0}, None, hm._main.__globals__)
            kind, payload, _ = interp.exec_fragment(acc, env, qual="halmos.__main__:_main#accounting", is_gen=False)
            if kind != "fallthrough":
                ctx.oblige("accounting-falls-through", z3.BoolVal(False), info={"kind": kind, "payload": str(payload)[:200]})
                return
            passed_here = z3.Sum([z3.If(c.e == hm.Exitcode.PASS.value, 1, 0) for c in codes]) if codes else z3.IntVal(0)
            tf, tp, tfail = iexpr(env.lookup("total_found")), iexpr(env.lookup("total_passed")), iexpr(env.lookup("total_failed"))
            ctx.oblige("accounting: found += selected tests of the contract", tf == tf0.e + num_found.e)
            ctx.oblige("accounting: passed += tests whose exit code is PASS", tp == tp0.e + passed_here)
            ctx.oblige("accounting: failed = found - passed is preserved (a test without a result counts as failed)", tfail == tf - tp)

        out.append(Case(f"{PROP}/__main__._main#accounting", f"{k} result(s)", harness, replay=replay_script("setup_failure_exit_code.py", "real _main on projects whose constructor or setUp() fails"), sources=("halmos.__main__:_main",)))

    def harness_tail(interp):
        ctx = interp.ctx
        acc, tail = main_fragments()
        tf, tfail = SymInt(z3.Int("total_found")), SymInt(z3.Int("total_failed"))
        ctx.assume(tf.e >= 0)
        ctx.assume(tfail.e >= 0)
        ctx.assume(tfail.e <= tf.e)
        exits = []

        def on_exit(code):
            exits.append(code)
            return NS(exitcode=code)

        interp.contracts["halmos.__main__:MainResult"] = lambda i, a, k: NS(exitcode=a[0])
        interp.contracts["halmos.__main__:contract_regex"] = lambda i, a, k: "c"
        interp.contracts["halmos.__main__:test_regex"] = lambda i, a, k: "t"
        tp = SymInt(z3.Int("total_passed"))
        ctx.assume(tp.e == tf.e - tfail.e)
        env = Env({"total_found": tf, "total_failed": tfail, "total_passed": tp, "on_exit": on_exit, "args": NS()}, None, hm._main.__globals__)
        kind, payload, _ = interp.exec_fragment(tail, env, qual="halmos.__main__:_main#exit-code", is_gen=False)
        ctx.oblige("tail-returns-a-result", z3.BoolVal(kind == "return" and hasattr(payload, "exitcode")), info={"kind": kind, "payload": str(payload)[:100]})
        if kind != "return" or not hasattr(payload, "exitcode"):
            return
        code = payload.exitcode
        ctx.oblige("exit code is 0 iff some test ran and none failed", z3.BoolVal(code == 0) == z3.And(tf.e > 0, tfail.e == 0), info={"code": code})
        ctx.oblige("exit code is 0 or 1", z3.BoolVal(code in (0, 1)))

    out.append(Case(f"{PROP}/__main__._main#exit-code", "all totals", harness_tail, sources=("halmos.__main__:_main",)))
    return out


def join_cases():
    """run_test between exploration and verdict: the verdict is computed only after every submitted solver job and
    its callback have finished (thread_pool.shutdown(wait=True)), whatever the status display option is"""
    out = []
    for no_status in (True, False):
        for pending_polls in (0, 2):

            def harness(interp, no_status=no_status, pending_polls=pending_polls):
                import time as _time

                ctx = interp.ctx
                sf, node = loader.func_node(hm.run_test)
                body = node.body
                i0 = next((i for i, st in enumerate(body) if isinstance(st, ast.Assign) and ast.unparse(st.targets[0]) == "num_execs"), None)
                i1 = next((i for i, st in enumerate(body) if isinstance(st, ast.Assign) and ast.unparse(st.targets[0]) == "counter"), None)
                if i0 is None or i1 is None or not i0 < i1:
                    raise loader.BindingError("run_test: `num_execs = ...` / `counter = Counter(...)` not found in this order")
                frag = body[i0:i1]
                events = []

                class Fut:
                    def __init__(self):
                        self.polls = 0

                    def done(self):
                        self.polls += 1
                        return self.polls > pending_polls

                futs = [Fut(), Fut()]

                class Pool:
                    def shutdown(self, wait=False):
                        events.append(("shutdown", wait))

                class Timer:
                    def create_subtimer(self, n):
                        events.append(("subtimer", n))

                    def elapsed(self):
                        return 0.0

                    def stop(self):
                        events.append(("timer-stop",))

                    def report(self, include_subtimers=False):
                        return "t"

                env = Env({"time": NS(sleep=lambda s_: events.append(("sleep",))), "ui": NS(update_status=lambda *a, **k: events.append(("status",))), "path_id": 4, "potential": 2, "submitted_futures": futs, "funsig": "check_x()", "args": NS(no_status=no_status, verbose=0, statistics=False, solver_threads=1), "ctx": NS(thread_pool=Pool(), solver_outputs=[]), "timer": Timer()}, None, hm.__dict__)
                kind, payload, yields = interp.exec_fragment(frag, env, qual="halmos.__main__:run_test#join", is_gen=False)
                ctx.oblige("the section between exploration and verdict runs to its end", z3.BoolVal(kind == "fallthrough"), info={"kind": kind, "payload": str(payload)[:100]})
                joins = [e for e in events if e[0] == "shutdown"]
                ctx.oblige("every submitted solver job is joined before the verdict is computed: thread_pool.shutdown(wait=True), exactly once, with or without the status display", z3.BoolVal(joins == [("shutdown", True)]), info={"events": str(events)[:200]})
                if not no_status and pending_polls:
                    ctx.oblige("with the status display the loop polls until every job is done", z3.BoolVal(all(f.polls > pending_polls for f in futs)))

            out.append(Case(f"{PROP}/__main__.run_test#join", f"no_status={no_status}, jobs pending for {pending_polls} poll(s)", harness, replay=replay_script("no_status_join.py", "real _main with a fake forge and a slow fake solver, with and without --no-status"), sources=("halmos.__main__:run_test",)))
    return out


def context_cases():
    """every solving context (one per test / setUp / probe) owns its executor and its list of unsat cores: a shutdown
    (early exit, end of a test) or a core recorded in one context never reaches another"""
    import dataclasses

    def harness(interp):
        ctx = interp.ctx
        a = hsolve.SolvingContext(dump_dir="<dir a>")
        b = hsolve.SolvingContext(dump_dir="<dir b>")
        ctx.oblige("two solving contexts never share their executor (a shutdown of one leaves the other usable)", z3.BoolVal(a.executor is not b.executor and not b.executor.is_shutdown()))
        ctx.oblige("two solving contexts never share their list of unsat cores", z3.BoolVal(a.unsat_cores is not b.unsat_cores and a.unsat_cores == []))
        a.executor.shutdown(wait=False)
        ctx.oblige("after the first context's executor was shut down a fresh context still accepts jobs", z3.BoolVal(not hsolve.SolvingContext(dump_dir="<dir c>").executor.is_shutdown() and not b.executor.is_shutdown()))
        flds = {f.name: f for f in dataclasses.fields(hsolve.SolvingContext)}
        ctx.oblige("the mutable members of SolvingContext are created per instance (default_factory), not once at import", z3.BoolVal(all(flds[n].default is dataclasses.MISSING and flds[n].default_factory is not dataclasses.MISSING for n in ("executor", "unsat_cores"))))

    return [Case(f"{PROP}/solve.SolvingContext#per-context-state", "two contexts, one shut down", harness, replay=replay_script("shared_executor_between_tests.py", "check_A() fails under --early-exit, then check_B() of the same contract"), sources=("halmos.solve:SolvingContext",))]


def query_file_cases():
    """the answer recorded for a path is the answer to ITS query: dump() writes the file also when one of that name exists (C11's unit)"""
    from contracts import c11
    from contracts.common import rewrap

    return rewrap(PROP, c11.dump_cases(), "answer-is-for-this-path")


def core_ref():
    """`every potential-violation query was answered unsat`: with --cache-solver an answer may come from a recorded core, which must be the
    solver's whole core, however the solver lays it out over lines (C16's unit)"""
    from contracts import c16
    from contracts.common import rewrap

    return rewrap(PROP, c16.parse_core_cases(), "whole-core")


def setup_selection_ref():
    """the choice of the post-setUp state does not depend on solver timing: a timed-out query keeps its path (C10's unit)"""
    from contracts import c10
    from contracts.common import rewrap

    return rewrap(PROP, c10.setup_selection_cases(), "timeout-keeps-the-path")


def build_cases(tier="quick"):
    return core_ref() + setup_selection_ref() + query_file_cases() + verdict_cases() + from_result_cases() + timeout_cases() + classification_cases() + callback_cases() + exit_code_cases() + join_cases() + context_cases()


def grounds():
    return [Ground(f"{PROP}/utils.Exitcode", ground_exitcodes)]


ASSUMPTIONS = [
    "pyvc (VC generator, Python-subset semantics) is trusted; path covers guard vacuity",
    "collections.Counter is permutation invariant and counter[k] is the number of outputs whose str(result) is k; `stuck` and `normal` are computed in the main thread before the chain",
    "that each submitted solver job contributes exactly one element of ctx.solver_outputs whatever the completion order (ThreadPoolExecutor.shutdown(wait=True) runs callbacks first, list.append is atomic under the GIL) is assumed, not proved; _solve_end_to_end_callback, early-exit and the process exit code of _main are not under contract in this round",
    "SolverOutput.from_result is checked on a listed family of solver outputs (strings are outside the symbolic reach of the verifier), not for all strings",
    "concurrent.futures.Future.result re-raises the stored exception (CPython); the real PopenFuture is replaced by a future whose result() raises TimeoutExpired",
]
TRUSTED = ["pyvc (this repository's verifier)", "z3 4.12.6 (LIA)", "the verdict table of DESIGN 3.6, transcribed in spec_verdict"]
