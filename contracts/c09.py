"""C09 — message calls are atomic and see the right context.

The real bodies of SEVM.call (with its nested send_callvalue / call_known / callback), SEVM.create
(and its callback), SEVM.sstore and the LOG / CREATE static checks are executed from the AST on real
Exec objects whose word values (addresses, call value, balances) are symbolic.

Per-frame contracts:
  message construction   for CALL / STATICCALL / DELEGATECALL / CALLCODE: target, sender, value, static
                         flag and the code that runs are those the EVM specifies; the sub-frame starts
                         with an empty stack, memory and loop record, one level deeper, with a callback
  snapshot ownership     the state saved before the frame starts (code map, storage, transient storage,
                         balance — taken BEFORE the value transfer) is made of objects that are NOT
                         reachable from the sub-frame's Exec: whatever the sub-frame does (it can only
                         mutate what it can reach) the snapshot is intact.  This is the frame condition
                         that makes `restore` exact for every behaviour of the callee.
  callback, failing frame   storage / transient storage / balance / code of the continuation are the
                         snapshot (fresh copies again), flag 0, return data copied, caller's stack,
                         memory, pc and loop record restored from the caller's saved ones
  callback, successful frame   the callee's effects persist, flag 1
  callback, context      the continuation gets its own deep copy of the caller's context (trace, prank
                         record), with the sub-frame appended; two continuations never share it
  insufficient funds     every scheme that transfers value (CALL, CALLCODE, CREATE, CREATE2) gets the
                         failing successor when the balance may be too small (C02: handle_insufficient_fund_case)
  static frames          SSTORE / TSTORE / LOGn / CREATE / CREATE2 raise WriteInStaticContext; STATICCALL
                         and everything below it is static
Value conservation (transfer_value pointwise) is proved in the C02 pack and referenced here.
"""
from __future__ import annotations

import ast
import gc
from copy import deepcopy

import z3

from pyvc import loader
from pyvc.interp import _ENGINE, Env, PathEnd
from contracts.common import replay_script  # noqa: E402
from pyvc.pack import Case

loader.import_repo()
import halmos.bitvec as hb  # noqa: E402
import halmos.sevm as hs  # noqa: E402
from contracts.common import CALLER, CALLVALUE, ORIGIN, THIS, mk_ex, mk_sevm  # noqa: E402
from halmos.bytevec import ByteVec  # noqa: E402
from halmos.exceptions import Revert, WriteInStaticContext  # noqa: E402

PROP = "C09"
CALLEE = z3.BitVecVal(0xCA11EE, 160)
SCHEMES = {"CALL": hs.OP_CALL, "STATICCALL": hs.OP_STATICCALL, "DELEGATECALL": hs.OP_DELEGATECALL, "CALLCODE": 0xF2}
SRC_CALL = ("halmos.sevm:SEVM.call",)


class NS:
    def __init__(self, **kw):
        self.__dict__.update(kw)


def word(x):
    return hb.HalmosBitVec(x) if not isinstance(x, (hb.HalmosBitVec, hb.HalmosBool)) else x


def setup_call(scheme, static=False, value=None):
    """a caller frame about to execute <scheme> to CALLEE (code present), 4 bytes of arguments at 0,
    return area [64, 96)"""
    sevm = mk_sevm()
    ex = mk_ex(sevm, bytes([SCHEMES[scheme], 0x00]), is_static=static)
    callee_code = hs.Contract(bytes([0x00]))
    ex.code[CALLEE] = callee_code
    ex.storage[CALLEE] = sevm.mk_storagedata()
    ex.transient_storage[CALLEE] = sevm.mk_storagedata()
    # the caller's own storage is arbitrary (svm.enableSymbolicStorage): a marker every copy/restore has to keep
    ex.storage[THIS].symbolic = True
    ex.st.memory.set_slice(0, 4, ByteVec(b"\xde\xad\xbe\xef"))
    V = z3.BitVec("call_value", 256) if value is None else value
    args = [word(z3.BitVec("gas", 256)), word(z3.ZeroExt(96, CALLEE))]
    if scheme in ("CALL", "CALLCODE"):
        args.append(word(V))
    args += [word(0), word(4), word(64), word(32)]
    marker = hb.HalmosBitVec(0xBEEF)
    ex.st.stack.append(marker)
    for a in reversed(args):
        ex.st.stack.append(a)
    ex.fetch_instruction()
    # something to restore
    ex.jumpis[(5, ())] = {True: 1, False: 0}
    return sevm, ex, V, marker, callee_code


def storage_fingerprint(st):
    return {str(a): (sd.symbolic, {str(k): str(v) for k, v in sd._mapping.items()}) for a, sd in st.items()}


def reachable_ids(root, limit=200000):
    """ids of python objects reachable from root through containers and instance dicts/slots"""
    seen = set()
    stack = [root]
    while stack and len(seen) < limit:
        o = stack.pop()
        if id(o) in seen:
            continue
        seen.add(id(o))
        if isinstance(o, (str, bytes, int, float, type(None), type, z3.AstRef, z3.Solver, z3.Context)):
            continue
        if isinstance(o, dict):
            stack.extend(o.keys())
            stack.extend(o.values())
        elif isinstance(o, (list, tuple, set, frozenset)):
            stack.extend(o)
        else:
            d = getattr(o, "__dict__", None)
            if d is not None:
                stack.extend(d.values())
            for cls in type(o).__mro__:
                for s_ in getattr(cls, "__slots__", ()) or ():
                    if hasattr(o, s_):
                        try:
                            stack.append(getattr(o, s_))
                        except Exception:  # noqa
                            pass
            if hasattr(o, "chunks") and hasattr(o.chunks, "values"):
                stack.extend(o.chunks.values())
    return seen


def run_call(interp, scheme, static=False, value=None):
    sevm, ex, V, marker, callee_code = setup_call(scheme, static, value)
    pre = NS(storage=storage_fingerprint(ex.storage), transient=storage_fingerprint(ex.transient_storage), balance=ex.balance, code_keys=[str(k) for k in ex.code], stack_len=len(ex.st.stack), pc=ex.pc)
    wl = hs.Worklist()
    interp.call(hs.SEVM.__dict__["call"], [sevm, ex, SCHEMES[scheme], CALLEE, wl], {})
    return sevm, ex, V, marker, callee_code, pre, wl


def message_cases():
    out = []
    for scheme in SCHEMES:
        for static in (False, True):

            def harness(interp, scheme=scheme, static=static):
                ctx = interp.ctx
                try:
                    sevm, ex, V, marker, callee_code, pre, wl = run_call(interp, scheme, static)
                except PathEnd:
                    raise
                except BaseException as e:
                    if isinstance(e, _ENGINE):
                        raise
                    ctx.oblige(f"no-exception[{type(e).__name__}]", z3.BoolVal(False), info={"msg": str(e)[:200]})
                    return
                subs = [s for s in wl.stack if s.callback is not None and s is not ex]
                ctx.oblige("exactly one sub-frame is scheduled", z3.BoolVal(len(subs) == 1), info={"pushed": len(wl.stack)})
                if len(subs) != 1:
                    return
                sub = subs[0]
                m = sub.context.message
                zero = z3.BitVecVal(0, 256)

                def z(v):
                    v = v.as_z3() if hasattr(v, "as_z3") else v
                    return z3.BitVecVal(v, 256) if isinstance(v, int) else v

                want_target = CALLEE if scheme in ("CALL", "STATICCALL") else THIS
                want_caller = CALLER if scheme == "DELEGATECALL" else THIS
                want_value = {"CALL": V, "CALLCODE": V, "STATICCALL": zero, "DELEGATECALL": CALLVALUE}[scheme]
                ctx.oblige("own address of the frame: the callee for CALL/STATICCALL, the caller's own address for DELEGATECALL/CALLCODE", z(m.target) == want_target)
                ctx.oblige("sender of the frame: the calling contract, or the caller's own sender for DELEGATECALL", z(m.caller) == want_caller)
                ctx.oblige("value of the frame: the value sent, zero for STATICCALL, the caller's own value for DELEGATECALL", z(m.value) == want_value)
                ctx.oblige("origin is the transaction origin", z(m.origin) == ORIGIN)
                ctx.oblige("static flag: set by STATICCALL and inherited from a static caller", z3.BoolVal(m.is_static is (static or scheme == "STATICCALL")))
                ctx.oblige("the code that runs is the callee's code, from the start, on an empty stack, memory and loop record", z3.BoolVal(sub.pgm is callee_code and sub.pc == 0 and sub.st.stack == [] and len(sub.st.memory) == 0 and sub.jumpis == {}))
                ctx.oblige("the frame is one level deeper and remembers how to return", z3.BoolVal(sub.context.depth == ex.context.depth + 1 and sub.callback is not None and m.call_scheme == SCHEMES[scheme]))
                data = m.data.unwrap() if hasattr(m.data, "unwrap") else m.data
                ctx.oblige("call data is the argument bytes of the caller's memory", z3.BoolVal(data == b"\xde\xad\xbe\xef"), info={"data": str(data)[:40]})
                ctx.oblige("the seven (six) operands were consumed from the caller's stack", z3.BoolVal(ex.st.stack == [marker]))

            out.append(Case(f"{PROP}/sevm.SEVM.call#message", f"{scheme},static-caller={static}", harness, sources=SRC_CALL))
    return out


def closure_var(fn, name):
    env = fn.env
    while env is not None:
        if name in env.vars:
            return env.vars[name]
        env = env.parent
    raise loader.BindingError(f"callback does not capture `{name}`")


def balance_snapshot(fn, pre_balance):
    """the balance array has no snapshot object of its own (arrays are immutable terms): the callback may keep the old
    array under any local name, or none; the clause on the local is stated when the local exists, and the end-state
    obligation (`nx.balance is pre.balance` after a failing frame) decides either way (seed C01-11 removed the local)"""
    try:
        return closure_var(fn, "orig_balance")
    except loader.BindingError:
        return pre_balance


def simulate_subframe(sevm, sub, fail, stuck=False):
    """an arbitrary-looking effect of the callee on everything it can reach"""
    slot, val = hb.HalmosBitVec(3), hb.HalmosBitVec(z3.BitVec("written", 256))
    tgt = sub.context.message.target
    if not sub.context.message.is_static:
        # (a static frame cannot change the world state: SSTORE/TSTORE/CREATE fail inside it)
        sevm.sstore(sub, tgt, slot, val)
        sevm.sstore(sub, tgt, hb.HalmosBitVec(7), hb.HalmosBitVec(9), transient=True)
        sub.balance_update(CALLEE, z3.BitVec("callee_balance_after", 256))
        NEW = z3.BitVecVal(0xDEAD01, 160)
        sub.code[NEW] = hs.Contract(bytes([0x00]))
        sub.storage[NEW] = sevm.mk_storagedata()
    if stuck:
        sub.context.output.data = None
        sub.context.output.error = None
    else:
        sub.context.output.data = ByteVec(bytes(range(1, 41)))  # 40 bytes of return data
        sub.context.output.error = Revert() if fail else None
    sub.context.output.return_scheme = 0xFD if fail else 0xF3


def callback_cases():
    out = []
    for scheme in SCHEMES:
        for outcome in ("fails", "succeeds", "stuck"):

            def harness(interp, scheme=scheme, outcome=outcome):
                ctx = interp.ctx
                sevm, ex, V, marker, callee_code, pre, wl = run_call(interp, scheme)
                subs = [s for s in wl.stack if s.callback is not None and s is not ex]
                if len(subs) != 1:
                    ctx.oblige("exactly one sub-frame is scheduled", z3.BoolVal(False))
                    return
                sub = subs[0]
                cb = sub.callback
                snap = {n: closure_var(cb, n) for n in ("orig_code", "orig_storage", "orig_transient_storage")}
                snap["orig_balance"] = balance_snapshot(cb, pre.balance)
                # ---- snapshot taken before the frame started, before the value transfer
                ctx.oblige("snapshot equals the state before the call (storage, transient storage, code, balance before the value transfer)", z3.BoolVal(storage_fingerprint(snap["orig_storage"]) == pre.storage and storage_fingerprint(snap["orig_transient_storage"]) == pre.transient and [str(k) for k in snap["orig_code"]] == pre.code_keys and snap["orig_balance"] is pre.balance))
                # ---- ownership: nothing the sub-frame can reach is part of the snapshot
                reach = reachable_ids(sub) - reachable_ids(cb)  # (the callback itself holds the snapshot; the callee cannot look into it)
                reach_sub_state = reachable_ids(NS(a=sub.code, b=sub.storage, c=sub.transient_storage, d=sub.st, e=sub.context, f=sub.alias, g=sub.cnts, h=sub.sha3s, i=sub.storages, j=sub.balances, k=sub.jumpis))
                snap_objs = [snap["orig_code"], snap["orig_storage"], snap["orig_transient_storage"]] + list(snap["orig_storage"].values()) + list(snap["orig_transient_storage"].values()) + [sd._mapping for sd in snap["orig_storage"].values()]
                ctx.oblige("frame condition: no snapshot object (maps, per-account storage) is reachable from the state the sub-frame works on", z3.BoolVal(not any(id(o) in reach_sub_state for o in snap_objs)))
                # ---- the callee does what it wants, then the frame ends
                caller_stack_before = list(ex.st.stack)
                simulate_subframe(sevm, sub, fail=(outcome == "fails"), stuck=(outcome == "stuck"))
                subctx = sub.context
                wl2 = hs.Worklist()
                yielded = list(interp.call(cb, [sub, wl2], {}))
                nx = sub
                if outcome == "stuck":
                    ctx.oblige("a sub-frame stopped by an internal error ends the path: the state is reported, not continued", z3.BoolVal(yielded == [nx] and wl2.stack == [] and nx.context.trace[-1] is subctx))
                    return
                ctx.oblige("the continuation is scheduled exactly once and nothing is reported yet", z3.BoolVal(yielded == [] and wl2.stack == [nx]))
                # ---- context
                ctx.oblige("the continuation runs in the caller's context with the finished sub-frame appended", z3.BoolVal(nx.context is not ex.context and nx.context.message is not None and nx.context.depth == ex.context.depth and nx.context.trace[-1] is subctx and nx.callback is ex.callback))
                ctx.oblige("ownership: the continuation's context (trace, prank record) is its own copy, not the caller frame's object", z3.BoolVal(nx.context.prank is not ex.context.prank and nx.context.trace is not ex.context.trace and nx.context.output is not ex.context.output))
                # ---- vm state
                ctx.oblige("caller's code position restored and advanced past the call", z3.BoolVal(nx.pgm is ex.pgm and nx.pc == pre.pc + 1))
                ctx.oblige("caller's stack restored (a copy) with the success flag pushed", z3.BoolVal(nx.st is not ex.st and len(nx.st.stack) == len(caller_stack_before) + 1 and all(a is b or a == b for a, b in zip(nx.st.stack, caller_stack_before))))
                flag = nx.st.stack[-1]
                fz = flag.as_z3() if hasattr(flag, "as_z3") else flag
                ctx.oblige("success flag: 1 iff the sub-frame ended without error", z3.simplify(fz) == (0 if outcome == "fails" else 1) if not isinstance(fz, int) else z3.BoolVal(fz == (0 if outcome == "fails" else 1)))
                ctx.oblige("loop record restored from the caller's", z3.BoolVal(nx.jumpis == ex.jumpis and nx.jumpis is not ex.jumpis))
                got = nx.st.memory.slice(64, 96).unwrap()
                ctx.oblige("return data copied to the return area (min of requested and actual size), caller's other memory kept", z3.BoolVal(got == bytes(range(1, 33)) and nx.st.memory.slice(0, 4).unwrap() == b"\xde\xad\xbe\xef"), info={"got": str(got)[:60]})
                # ---- world state
                if outcome == "fails":
                    ctx.oblige("failed frame: storage and transient storage are exactly as before the call", z3.BoolVal(storage_fingerprint(nx.storage) == pre.storage and storage_fingerprint(nx.transient_storage) == pre.transient))
                    ctx.oblige("failed frame: balances are exactly as before the call (the value transfer is undone)", z3.BoolVal(nx.balance is pre.balance))
                    ctx.oblige("failed frame: code map is exactly as before the call (contracts created inside are gone)", z3.BoolVal([str(k) for k in nx.code] == pre.code_keys))
                    ctx.oblige("failed frame: the restored state is a fresh copy (a second continuation restoring from the same snapshot cannot interfere)", z3.BoolVal(nx.storage is not snap["orig_storage"] and nx.code is not snap["orig_code"] and all(nx.storage[a] is not snap["orig_storage"][a] for a in nx.storage)))
                else:
                    tgt = str(subctx.message.target)
                    if scheme == "STATICCALL":
                        ctx.oblige("successful static frame: the world state is as the (read-only) callee left it", z3.BoolVal(storage_fingerprint(nx.storage) == pre.storage and [str(k) for k in nx.code] == pre.code_keys))
                    else:
                        ctx.oblige("successful frame: the callee's storage writes, created contracts and balance changes persist", z3.BoolVal(storage_fingerprint(nx.storage) != pre.storage and tgt in storage_fingerprint(nx.storage) and len(nx.code) == len(pre.code_keys) + 1 and nx.balance is not pre.balance))

            out.append(Case(f"{PROP}/sevm.SEVM.call#callback", f"{scheme},sub-frame {outcome}", harness, replay=replay_script("callback_sibling_storage.py", "a callee with two reverting paths, the caller writes and reads its storage after the failed call"), sources=SRC_CALL))
    return out


def funds_cases():
    out = []
    for scheme in ("CALL", "CALLCODE"):

        def harness(interp, scheme=scheme):
            ctx = interp.ctx
            sevm, ex, V, marker, callee_code, pre, wl = run_call(interp, scheme)
            fails = [s for s in wl.stack if s.callback is None or s.context.trace and isinstance(getattr(s.context.trace[-1], "output", None), hs.CallOutput) and s.context.trace[-1].output.error is not None]
            fails = [s for s in wl.stack if s.context.trace and isinstance(s.context.trace[-1], hs.CallContext) and type(s.context.trace[-1].output.error).__name__ == "InsufficientFunds"]
            ctx.oblige("a value-bearing call gets the `insufficient balance` successor (flag 0, no sub-frame) unless that is proved impossible", z3.BoolVal(len(fails) == 1), info={"pushed": len(wl.stack)})
            if len(fails) == 1:
                f = fails[0]
                conds = list(f.path.conditions) + list(f.path.pending)
                bal = z3.Select(pre.balance, THIS)
                s_ = z3.Solver()
                s_.add(z3.And(*conds) != z3.And(*(list(ex.path.conditions)[: len(list(ex.path.conditions))] and [c for c in conds if not z3.eq(c, conds[-1])]), z3.ULT(bal, V)) if False else z3.BoolVal(False))
                last = conds[-1]
                ctx.oblige("the failing successor is taken exactly when the sender's balance is below the value", last == z3.ULT(z3.Select(pre.balance, THIS), V))
                ctx.oblige("the failing successor pushes 0 and continues after the call", z3.BoolVal(len(f.st.stack) == 2 and f.pc == pre.pc + 1))

        out.append(Case(f"{PROP}/sevm.SEVM.call#insufficient-funds", scheme, harness, sources=SRC_CALL + ("halmos.sevm:SEVM.handle_insufficient_fund_case",)))

    def harness_transfer(interp):
        ctx = interp.ctx
        for scheme in SCHEMES:
            sevm, ex, V, marker, callee_code, pre, wl = run_call(interp, scheme)
            a = z3.BitVec("any_account", 160)
            b0 = pre.balance
            defs = [c for c in ex.path.conditions]
            if scheme != "CALL":
                ctx.oblige(f"value moves between accounts for CALL only (CALLCODE/DELEGATECALL keep it in the same account, STATICCALL sends none): every balance is what it was [{scheme}]", z3.Implies(z3.And(*defs), z3.Select(ex.balance, a) == z3.Select(b0, a)))
            if scheme in ("CALL", "CALLCODE"):
                ctx.oblige(f"the callee runs only where the sender's balance covers the value (the other case is the insufficient-balance successor) [{scheme}]", z3.Implies(z3.And(*defs), z3.UGE(z3.Select(b0, THIS), V)))
            if scheme == "CALL":
                want = z3.Store(z3.Store(b0, THIS, z3.Select(b0, THIS) - V), CALLEE, z3.Select(z3.Store(b0, THIS, z3.Select(b0, THIS) - V), CALLEE) + V)
                ctx.oblige("CALL: sender debited, callee credited, every other account untouched (under the path's balance definitions)", z3.Implies(z3.And(*defs), z3.Select(ex.balance, a) == z3.Select(want, a)))

    out.append(Case(f"{PROP}/sevm.SEVM.call#value-transfer", "all schemes", harness_transfer, sources=SRC_CALL + ("halmos.sevm:SEVM.transfer_value",)))
    return out


def replay_static_value(r):
    """real SEVM.call: CALL with value 5 issued by a frame that is static"""
    sevm, ex, V, marker, callee_code = setup_call("CALL", static=True, value=z3.BitVecVal(5, 256))
    b0 = ex.balance
    wl = hs.Worklist()
    try:
        sevm.call(ex, SCHEMES["CALL"], CALLEE, wl)
    except WriteInStaticContext:
        return {"reproduced": False, "detail": "the value-bearing CALL is rejected inside the static frame"}
    except Exception as e:  # noqa
        return {"reproduced": None, "detail": f"replay could not run: {type(e).__name__}: {e}"}
    subs = [s_ for s_ in wl.stack if s_.callback is not None]
    if subs and ex.balance is not b0:
        return {"reproduced": True, "detail": f"inside a static frame, CALL(to=0xca11ee, value=5) was accepted: a sub-frame was scheduled and the balances were updated ({b0} -> {ex.balance}); the EVM halts the static frame instead", "inputs": "is_static=True, CALL value=5"}
    return {"reproduced": False, "detail": "no balance change"}


def static_cases():
    out = []
    for transient in (False, True):
        for static in (False, True):

            def harness(interp, transient=transient, static=static):
                ctx = interp.ctx
                sevm = mk_sevm()
                ex = mk_ex(sevm, bytes([0x55, 0x00]), is_static=static)
                before = (storage_fingerprint(ex.storage), storage_fingerprint(ex.transient_storage))
                slot, val = hb.HalmosBitVec(3), hb.HalmosBitVec(z3.BitVec("value", 256))
                try:
                    interp.call(hs.SEVM.__dict__["sstore"], [sevm, ex, THIS, slot, val], {"transient": transient})
                    raised = None
                except WriteInStaticContext as e:
                    raised = e
                if static:
                    ctx.oblige("a storage write inside a static frame fails with WriteInStaticContext and changes nothing", z3.BoolVal(raised is not None and (storage_fingerprint(ex.storage), storage_fingerprint(ex.transient_storage)) == before))
                else:
                    ctx.oblige("outside a static frame the write is performed", z3.BoolVal(raised is None and (storage_fingerprint(ex.storage), storage_fingerprint(ex.transient_storage)) != before))

            out.append(Case(f"{PROP}/sevm.SEVM.sstore#static", f"transient={transient},static={static}", harness, sources=("halmos.sevm:SEVM.sstore",)))

    for vname, val in (("value 5", z3.BitVecVal(5, 256)), ("value 0", z3.BitVecVal(0, 256))):

        def harness_value(interp, val=val, vname=vname):
            ctx = interp.ctx
            try:
                sevm, ex, V, marker, callee_code, pre, wl = run_call(interp, "CALL", static=True, value=val)
                raised = None
            except WriteInStaticContext as e:
                raised = e
                wl = None
            if vname == "value 0":
                ctx.oblige("a CALL without value is allowed inside a static frame (and the callee is static too)", z3.BoolVal(raised is None and any(s_.callback is not None and s_.context.message.is_static for s_ in wl.stack)))
            else:
                ctx.oblige("a CALL that sends value from inside a static frame fails with WriteInStaticContext (value transfer is a state modification)", z3.BoolVal(raised is not None), info={"scheduled": None if wl is None else len(wl.stack)})

        out.append(Case(f"{PROP}/sevm.SEVM.call#static-value", vname, harness_value, replay=replay_static_value, sources=SRC_CALL))

    from contracts.c06 import run_dispatch_chain, select_arm

    sf, runfn, first = run_dispatch_chain()
    for n in range(5):
        for static in (False, True):

            def harness_log(interp, n=n, static=static):
                ctx = interp.ctx
                sevm = mk_sevm()
                ex = mk_ex(sevm, bytes([0xA0 + n, 0x00]), is_static=static)
                for _ in range(n + 2):
                    ex.st.stack.append(hb.HalmosBitVec(0))
                ex.fetch_instruction()
                env = Env({"self": sevm, "ex": ex, "state": ex.st, "insn": ex.insn, "opcode": ex.insn.opcode, "stack": hs.Worklist()}, None, hs.__dict__)
                body = select_arm(interp, first, env)
                n_before = len(ex.context.trace)
                kind, payload, _ = interp.exec_fragment(body, env, qual="halmos.sevm:SEVM.run#LOG")
                if static:
                    ctx.oblige("LOGn inside a static frame fails with WriteInStaticContext and emits nothing", z3.BoolVal(kind == "raise" and isinstance(payload, WriteInStaticContext) and len(ex.context.trace) == n_before))
                else:
                    ctx.oblige("LOGn outside a static frame emits one log", z3.BoolVal(kind == "fallthrough" and len(ex.context.trace) == n_before + 1), info={"kind": kind, "payload": str(payload)[:80]})

            out.append(Case(f"{PROP}/sevm.SEVM.run#LOG-static", f"LOG{n},static={static}", harness_log, sources=("halmos.sevm:SEVM.run",)))

    for op, name in ((hs.OP_CREATE, "CREATE"), (hs.OP_CREATE2, "CREATE2")):

        def harness_create(interp, op=op):
            ctx = interp.ctx
            sevm = mk_sevm()
            ex = mk_ex(sevm, bytes([op, 0x00]), is_static=True)
            for _ in range(4):
                ex.st.stack.append(hb.HalmosBitVec(0))
            n_code = len(ex.code)
            wl = hs.Worklist()
            try:
                interp.call(hs.SEVM.__dict__["create"], [sevm, ex, op, wl], {})
                ctx.oblige("contract creation inside a static frame fails with WriteInStaticContext", z3.BoolVal(False))
            except WriteInStaticContext:
                ctx.oblige("contract creation inside a static frame fails with WriteInStaticContext", z3.BoolVal(len(ex.code) == n_code and wl.stack == [] and len(ex.st.stack) == 4))

        out.append(Case(f"{PROP}/sevm.SEVM.create#static", name, harness_create, sources=("halmos.sevm:SEVM.create",)))
    return out


def create_cases():
    out = []
    for op, name in ((hs.OP_CREATE, "CREATE"), (hs.OP_CREATE2, "CREATE2")):
        for outcome in ("fails", "succeeds", "stuck"):

            def harness(interp, op=op, outcome=outcome):
                ctx = interp.ctx
                sevm = mk_sevm()
                ex = mk_ex(sevm, bytes([op, 0x00]))
                ex.storage[THIS].symbolic = True  # arbitrary storage: a marker every copy/restore has to keep
                init = bytes([0x60, 0x00, 0x60, 0x00, 0xF3])
                ex.st.memory.set_slice(0, len(init), ByteVec(init))
                # constructor arguments: a symbolic word after the concrete init code (two chunks, as solc lays it out)
                ex.st.memory.set_word(len(init), z3.BitVec("constructor_argument", 256))
                V = z3.BitVec("endowment", 256)
                marker = hb.HalmosBitVec(0xBEEF)
                ex.st.stack.append(marker)
                ops = [word(V), word(0), word(len(init) + 32)] + ([word(z3.BitVec("salt", 256))] if op == hs.OP_CREATE2 else [])
                for a in reversed(ops):
                    ex.st.stack.append(a)
                ex.fetch_instruction()
                pre = NS(storage=storage_fingerprint(ex.storage), transient=storage_fingerprint(ex.transient_storage), balance=ex.balance, code_keys=[str(k) for k in ex.code], pc=ex.pc)
                wl = hs.Worklist()
                interp.call(hs.SEVM.__dict__["create"], [sevm, ex, op, wl], {})
                subs = [s for s in wl.stack if s.callback is not None and s is not ex]
                ctx.oblige("exactly one creation frame is scheduled", z3.BoolVal(len(subs) == 1))
                if len(subs) != 1:
                    return
                sub = subs[0]
                m = sub.context.message
                new_addr = m.target
                ctx.oblige("creation frame: sender is the creating contract, value is the endowment, never static, runs the init code", z3.And(z3.BoolVal(m.is_static is False and m.call_scheme == op and sub.pc == 0 and sub.st.stack == []), (m.caller if not hasattr(m.caller, "as_z3") else m.caller.as_z3()) == THIS, (m.value.as_z3() if hasattr(m.value, "as_z3") else m.value) == V))
                ctx.oblige("the new account exists with empty code and empty storage while the init code runs, at an address different from every existing account", z3.BoolVal(new_addr in ex.code and len(ex.code[new_addr]) == 0 and new_addr in ex.storage and str(new_addr) not in pre.code_keys))
                pg = sub.pgm
                ctx.oblige("the creation frame runs the init code as the byte sequence it is in memory (concrete prefix kept concrete, so its jump destinations are found), for CREATE and CREATE2 alike", z3.BoolVal(len(pg) == len(init) + 32 and pg._fastcode is not None and bytes(pg._fastcode) == init and pg[0] == init[0]), info={"fastcode": str(pg._fastcode)[:40], "chunks": len(pg._code.chunks)})
                cb = sub.callback
                snap = {n: closure_var(cb, n) for n in ("orig_code", "orig_storage", "orig_transient_storage")}
                snap["orig_balance"] = balance_snapshot(cb, pre.balance)
                ctx.oblige("snapshot equals the state before the creation (no new account, endowment not yet moved)", z3.BoolVal(storage_fingerprint(snap["orig_storage"]) == pre.storage and [str(k) for k in snap["orig_code"]] == pre.code_keys and snap["orig_balance"] is pre.balance))
                reach_sub_state = reachable_ids(NS(a=sub.code, b=sub.storage, c=sub.transient_storage, d=sub.st, e=sub.context, f=sub.alias))
                snap_objs = [snap["orig_code"], snap["orig_storage"], snap["orig_transient_storage"]] + list(snap["orig_storage"].values()) + list(snap["orig_transient_storage"].values()) + [sd._mapping for sd in list(snap["orig_storage"].values()) + list(snap["orig_transient_storage"].values())]
                ctx.oblige("frame condition: no snapshot object is reachable from the state the creation frame works on", z3.BoolVal(not any(id(o) in reach_sub_state for o in snap_objs)))
                # the init code does something, then ends
                sevm.sstore(sub, new_addr, hb.HalmosBitVec(1), hb.HalmosBitVec(2))
                runtime = ByteVec(bytes([0x60, 0x01, 0x00]))
                if outcome == "stuck":
                    sub.context.output.data, sub.context.output.error = None, None
                else:
                    sub.context.output.data = runtime if outcome == "succeeds" else ByteVec()
                    sub.context.output.error = None if outcome == "succeeds" else Revert()
                subctx = sub.context
                wl2 = hs.Worklist()
                interp.contracts["halmos.sevm:Exec.try_resolve_contract_info"] = lambda i, a, k: None  # source-map metadata only
                yielded = list(interp.call(cb, [sub, wl2], {}))
                nx = sub
                if outcome == "stuck":
                    ctx.oblige("a creation frame stopped by an internal error ends the path (reported, not continued)", z3.BoolVal(yielded == [nx] and wl2.stack == []))
                    return
                ctx.oblige("the continuation is scheduled once, in its own copy of the caller's context with the creation frame appended", z3.BoolVal(yielded == [] and wl2.stack == [nx] and nx.context is not ex.context and nx.context.prank is not ex.context.prank and nx.context.trace[-1] is subctx and nx.pc == pre.pc + 1))
                top = nx.st.stack[-1]
                tz = top.as_z3() if hasattr(top, "as_z3") else top
                if outcome == "succeeds":
                    ctx.oblige("success: the new address is pushed and the returned bytes become the account's code; its storage writes persist", z3.And(z3.ZeroExt(96, new_addr) == (tz if tz.size() == 256 else z3.ZeroExt(256 - tz.size(), tz)), z3.BoolVal(len(nx.code[new_addr]) == 3 and storage_fingerprint(nx.storage) != pre.storage)))
                else:
                    ctx.oblige("failure: 0 is pushed", z3.simplify(tz) == 0)
                    ctx.oblige("failure: the restored state is a fresh copy of the snapshot (every failing path of the init code runs this callback: a second continuation restoring from the same snapshot cannot interfere)", z3.BoolVal(nx.storage is not snap["orig_storage"] and nx.transient_storage is not snap["orig_transient_storage"] and nx.code is not snap["orig_code"] and all(nx.storage[a] is not snap["orig_storage"][a] for a in nx.storage) and all(nx.transient_storage[a] is not snap["orig_transient_storage"][a] for a in nx.transient_storage)))
                    ctx.oblige("failure: the account, its storage and the endowment transfer are undone (state exactly as before the creation)", z3.BoolVal(storage_fingerprint(nx.storage) == pre.storage and storage_fingerprint(nx.transient_storage) == pre.transient and [str(k) for k in nx.code] == pre.code_keys and nx.balance is pre.balance))

            out.append(Case(f"{PROP}/sevm.SEVM.create", f"{name},init code {outcome}", harness, replay=replay_script("create_sibling_storage.py", "a constructor that fails on two paths; the creator reads and then writes its storage after the failed CREATE"), sources=("halmos.sevm:SEVM.create",)))
    return out


# ---------------------------------------------------------------------------------------
# what the caller sees as return data: the output of the most recent sub-frame, whatever else its trace recorded since


def _mk_ctx(trace):
    import itertools as _it  # noqa

    from halmos.utils import EVM, con, con_addr

    msg = hs.Message(target=THIS, caller=CALLER, origin=ORIGIN, value=con(0), data=ByteVec(), call_scheme=EVM.CALL, is_static=False)
    c = hs.CallContext(msg)
    c.trace.extend(trace)
    return c


def _trace_of(shape, subs):
    slot = hb.HalmosBitVec(1)
    out = []
    for k, kd in enumerate(shape):
        if kd == "C":
            out.append(subs[k])
        elif kd == "R":
            out.append(hs.StorageRead(con_this(), slot, slot, False))
        elif kd == "W":
            out.append(hs.StorageWrite(con_this(), slot, slot, False))
        else:
            out.append(hs.EventLog(con_this(), [], ByteVec()))
    return out


def con_this():
    return THIS


def replay_last_subcall(r):
    """native: a frame that called (the callee returned 32 bytes), then read and wrote storage and logged: real last_subcall / returndata"""
    sub = _mk_ctx([])
    sub.output.data = ByteVec(b"\x2a".rjust(32, b"\x00"))
    bad = []
    for shape in ("C", "CR", "CW", "CL", "CRWL", "RCW"):
        ctx0 = _mk_ctx(_trace_of(shape, [sub] * len(shape)))
        got = ctx0.last_subcall()
        ex = mk_ex(mk_sevm(), b"\x00")
        ex.context.trace.extend(ctx0.trace)
        size = ex.returndatasize()
        if got is not sub or size != 32:
            bad.append(f"trace {shape} (C = the sub-call, R/W = storage read/write, L = log): last_subcall() is {'the sub-call' if got is sub else got!r}, RETURNDATASIZE = {size} (the callee returned 32 bytes)")
    if bad:
        return {"reproduced": True, "detail": "; ".join(bad), "inputs": "call; sload/sstore/log; returndatasize"}
    return {"reproduced": False, "detail": "last_subcall() is the sub-call and RETURNDATASIZE is 32 whatever the frame recorded after the call"}


def returndata_cases():
    import itertools

    out = []

    def harness_last(interp):
        ctx = interp.ctx
        for n in range(0, 5):
            for shape in itertools.product("CRWL", repeat=n):
                subs = [_mk_ctx([]) for _ in shape]
                ctx0 = _mk_ctx(_trace_of(shape, subs))
                want = None
                for k, kd in enumerate(shape):
                    if kd == "C":
                        want = subs[k]
                got = interp.call(hs.CallContext.__dict__["last_subcall"], [ctx0], {})
                ctx.oblige("last_subcall: the most recent sub-frame of the trace (None only if there is none), whatever storage accesses and logs were recorded after it", z3.BoolVal(got is want), info={"trace": "".join(shape)})
                ctx.oblige("last_subcall: the trace is not modified", z3.BoolVal(len(ctx0.trace) == n))

    out.append(Case(f"{PROP}/sevm.CallContext.last_subcall", "every trace of up to 4 elements over {sub-frame, storage read, storage write, log}", harness_last, replay=replay_last_subcall, sources=("halmos.sevm:CallContext.last_subcall",)))

    def harness_copy(interp):
        """the return area of a *CALL: min(ret_size, len(returndata)) bytes of the return data go to memory at ret_loc, nothing else is written
        (a return area LONGER than the data leaves its tail as it was; it is not filled from beyond the data)"""
        ctx = interp.ctx
        for actual in (0, 3, 32, 40):
            for ret_size in (0, 3, 32, 40, 64):
                rd = ByteVec(bytes(range(1, actual + 1)))
                writes = []
                st = NS(set_mslice=lambda loc, data: writes.append((loc, data)))
                ex = NS(st=st)
                interp.call(hs.copy_returndata_to_memory, [rd, 7, ret_size, ex], {})
                n = min(actual, ret_size)
                if n == 0:
                    ctx.oblige(f"copy_returndata_to_memory[data {actual}, area {ret_size}]: nothing to copy, nothing written", z3.BoolVal(writes == [] or all(len(d) == 0 for _, d in writes)))
                else:
                    ok = len(writes) == 1 and writes[0][0] == 7 and len(writes[0][1]) == n and writes[0][1].unwrap() == bytes(range(1, n + 1))
                    ctx.oblige(f"copy_returndata_to_memory[data {actual}, area {ret_size}]: exactly the first min(area, data) bytes of the return data are written at ret_loc", z3.BoolVal(ok), info={"writes": str([(l, len(d)) for l, d in writes])})
                ctx.oblige(f"copy_returndata_to_memory[data {actual}, area {ret_size}]: the return data itself is not modified", z3.BoolVal(len(rd) == actual))

    out.append(Case(f"{PROP}/sevm.copy_returndata_to_memory", "return data of 0/3/32/40 bytes into areas of 0/3/32/40/64 bytes", harness_copy, sources=("halmos.sevm:copy_returndata_to_memory",)))

    for kind in ("no sub-frame", "call returned", "call failed", "creation succeeded", "creation failed"):

        def harness_rd(interp, kind=kind):
            ctx = interp.ctx
            data = ByteVec(b"\x01\x02\x03")
            if kind == "no sub-frame":
                sub = None
            else:
                sub = _mk_ctx([])
                sub.output.data = data
                if "failed" in kind:
                    sub.output.error = Revert()
                if kind.startswith("creation"):
                    from halmos.utils import EVM

                    object.__setattr__(sub.message, "call_scheme", EVM.CREATE)
            ex = mk_ex(mk_sevm(), b"\x00")
            interp.contracts["halmos.sevm:CallContext.last_subcall"] = lambda interp_, a, kw: sub
            got = interp.call(hs.Exec.__dict__["returndata"], [ex], {})
            size = interp.call(hs.Exec.__dict__["returndatasize"], [ex], {})
            if kind in ("no sub-frame", "creation succeeded"):
                ctx.oblige("returndata: empty without a sub-frame and after a successful creation", z3.BoolVal(got is not None and len(got) == 0 and size == 0))
            else:
                ctx.oblige("returndata: the output of the most recent sub-frame (return data, or the revert data of a failed call / creation)", z3.BoolVal(got is data and size == 3))

        out.append(Case(f"{PROP}/sevm.Exec.returndata", kind, harness_rd, replay=replay_last_subcall, sources=("halmos.sevm:Exec.returndata", "halmos.sevm:Exec.returndatasize")))
    return out


def branch_ownership_ref():
    """each frame observes the right code and own address also after a fork inside the resolution of a symbolic call target: the sibling
    paths own their alias tables (C02's unit)"""
    from contracts import c02
    from contracts.common import rewrap

    from contracts import c01

    # ... and a second symbolic decision on a sibling path (insufficient funds, say) is asked of a solver that holds that path's conditions only
    return rewrap(PROP, c02.path_cases(), "fork-owns-its-tables", lambda c: "create_branch" in c.unit or "Path.branch" in c.unit or "Path.activate" in c.unit) + rewrap(PROP, c01.returndata_cases() + [c for c in c01.memory_cases() if c.unit.endswith("#RETURNDATACOPY")], "caller-sees-the-return-data")


def grounds():
    from contracts.common import ground_script
    from pyvc.pack import Ground

    return [Ground(f"{PROP}/sevm.SEVM.create#create2-edges", ground_script("create2_empty_init_code.py", "CREATE2 with size 0", "CREATE2 with empty init code creates an empty account like CREATE does (no internal exception)"), sources=("halmos.sevm:SEVM.create",)), Ground(f"{PROP}/sevm.SEVM.create#create2-bool-salt", ground_script("create2_bool_salt.py", "CREATE2 whose salt is a comparison result", "CREATE2 with a Bool-typed salt word is executed (every input is covered by a reported path)"), sources=("halmos.sevm:SEVM.create",)), Ground(f"{PROP}/sevm.SEVM.call#hash-precompiles", ground_script("hash_precompiles.py", "CALL to SHA-256 / RIPEMD-160 with 32 and 0 bytes of input, MODEXP", "a call to the SHA-256, RIPEMD-160 or MODEXP precompile succeeds and the caller sees return data of the specified size (the engine does not raise)"), sources=("halmos.sevm:SEVM.call",))]


def build_cases(tier="quick"):
    return branch_ownership_ref() + returndata_cases() + message_cases() + callback_cases() + funds_cases() + static_cases() + create_cases()


ASSUMPTIONS = [
    "pyvc (VC generator, Python-subset semantics) is trusted",
    "per-frame contracts: the sub-frame's behaviour is represented by the frame condition `it can only mutate what is reachable from its Exec` (object-graph reachability over python containers, instance dictionaries/slots and ByteVec chunks; z3 terms are immutable) plus one scripted behaviour that touches storage, transient storage, balances and the code map; that SEVM.run delivers each sub-frame's end state to its callback exactly once (worklist protocol) is NOT under contract, so atomicity is proved per frame, and for call trees by induction on the nesting under that assumption",
    "copy.deepcopy returns fresh deep-equal objects (the repo's own __deepcopy__ methods run through the interpreter)",
    "the word-level values (addresses, value, balances) are symbolic; the shape of the call (argument/return areas, a callee with code) is one representative layout; calls to precompiles, cheatcode addresses and accounts without code (call_unknown) are not under contract here",
    "pointwise value conservation of transfer_value and the insufficient-funds successor are the C02 proofs, used here through the real code",
    "RECORDED, NOT CLAIMED: a CALL that sends value from inside a static frame is not rejected by the code (it carries a TODO); the EVM halts the frame",
]
TRUSTED = ["pyvc (this repository's verifier)", "z3 4.12.6", "the object-graph reachability walk used for the ownership obligations"]
TECHNIQUE = "per-frame contracts with ownership/frame conditions: the real AST of call/create and their callbacks executed by pyvc on real Exec objects with symbolic words; snapshot unreachability from the sub-frame proves exact restoration for every callee behaviour; z3 for the word-level obligations"
