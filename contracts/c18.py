"""C18 — configuration resolves by precedence and round-trips.

Units under contract (bodies from the AST of the current /repo source on every run):
  Config.value_with_source    loop invariant over a parent chain of arbitrary length (ghost layers:
                              layer k has source SRC(k) and, for the looked-up field, NONNULL(k));
                              post: the returned source is the maximum source among layers that set
                              the field, the returned value is the one of the *most recent* (smallest
                              index) layer with that source; (None, void) iff no layer sets it
  Config.__getattribute__     a config field reads the first component of value_with_source;
                              internal names bypass the lookup
  Config.resolved_solver_command   --solver-command wins iff it is set and its source >= the
                              source of --solver (all 6x6 source pairs, symbolically)
  __main__.with_devdoc / with_natspec   add exactly one layer tagged function_annotation /
                              contract_annotation on the object they are given, and return the
                              input itself when there is no annotation
  __main__.load_config        layer order: default < each config file (in order) < command line

Bounded stand-ins (never counted as proved; strings/floats are outside the verifier's reach):
  Parse{Timeout,CSVInt,CSVTraceEvent,ErrorCodes,ArrayLengths}: parse(unparse(v)) == v for v in the
  image of parse over a grammar enumeration, malformed values raise.
"""
from __future__ import annotations

import ast
import itertools
import random

import z3

from pyvc import loader
from pyvc.interp import BreakSig, ContinueSig, PathEnd, _ENGINE
from pyvc.pack import Bounded, Case, Ground
from pyvc.sym import SymBool, SymInt, iexpr

loader.import_repo()
import halmos.__main__ as hm  # noqa: E402
import halmos.config as hcfg  # noqa: E402
from halmos.config import ConfigSource  # noqa: E402

PROP = "C18"
SRC = z3.Function("layer_source", z3.IntSort(), z3.IntSort())
NONNULL = z3.Function("layer_sets_field", z3.IntSort(), z3.BoolSort())
NLAYERS = z3.Int("n_layers")
J = z3.Int("j")  # arbitrary layer, for the pointwise clauses
MAXSRC = max(int(s) for s in ConfigSource)


class GhostLayer:
    """layer k of the parent chain (0 = self = most recent)"""

    def __init__(self, k, ctx):
        self.k = k
        ctx.assume(z3.And(SRC(k) >= 1, SRC(k) <= MAXSRC))
        self._source = SymInt(SRC(k))
        self._parent = GhostNext(k + 1)


class GhostNext:
    """the _parent of a ghost layer: layer k+1, or None when k+1 == n (decided by the loop rule)"""

    def __init__(self, k):
        self.k = k


class GhostVal:
    """the (non-None) value layer k holds for the field"""

    def __init__(self, k):
        self.k = k


def _object_getattribute(interp, obj, name):
    if type(obj) is GhostLayer:
        if interp.truth(SymBool(NONNULL(obj.k))):
            return GhostVal(obj.k)
        return None
    return object.__getattribute__(obj, name)


VWS = hcfg.Config.value_with_source
QUAL = "halmos.config:Config.value_with_source"


def spec_clauses(k, bv, bs, B):
    """(best_value, best_source) is the answer for layers [0,k); B = witness index (ghost)"""
    upper = z3.Implies(z3.And(J >= 0, J < k, NONNULL(J)), SRC(J) <= bs)
    if bv is None:
        return z3.And(bs == 0, z3.Implies(z3.And(J >= 0, J < k), z3.Not(NONNULL(J))))
    if type(bv) is not GhostVal:
        return z3.BoolVal(False)
    return z3.And(upper, bv.k == B, B >= 0, B < k, NONNULL(B), SRC(B) == bs, z3.Implies(z3.And(J >= 0, J < B, NONNULL(J)), SRC(J) < bs))


def while_spec(interp, s, env):
    ctx = interp.ctx
    cur0 = env.lookup("current")
    if type(cur0) is not GhostLayer or not z3.is_int_value(z3.simplify(cur0.k)):
        raise loader.BindingError("loop entered with an unexpected `current`")
    ctx.oblige("loop-invariant/entry", spec_clauses(z3.IntVal(0), env.lookup("best_value"), iexpr(env.lookup("best_source")), z3.IntVal(0)))
    which = ctx.choose(2, "loop")
    # havoc best_value / best_source / current under the invariant
    k = z3.Int(ctx.fresh("k"))
    B = z3.Int(ctx.fresh("witness"))
    bs = SymInt(z3.Int(ctx.fresh("best_source")))
    ctx.assume(z3.And(k >= 0, k <= NLAYERS, bs.e >= 0, bs.e <= MAXSRC))
    none_yet = interp.truth(SymBool(bs.e == 0))
    bv = None if none_yet else GhostVal(B)
    ctx.assume(spec_clauses(k, bv, bs.e, B))
    env.store("best_value", bv)
    env.store("best_source", bs)
    if which == 0:
        ctx.assume(k < NLAYERS)
        env.store("current", GhostLayer(k, ctx))
        if not interp.truth(interp.eval(s.test, env)):
            ctx.oblige("loop-test/true-inside-chain", z3.BoolVal(False))
            raise PathEnd("")
        try:
            interp.exec_block(s.body, env)
        except (BreakSig, ContinueSig):
            ctx.oblige("loop-body/no-break", z3.BoolVal(False))
            raise PathEnd("")
        nxt = env.lookup("current")
        ctx.oblige("loop-step/advances-to-parent", z3.BoolVal(type(nxt) is GhostNext) if type(nxt) is not GhostNext else nxt.k == k + 1)
        nbv, nbs = env.lookup("best_value"), iexpr(env.lookup("best_source"))
        # the witness after the step is either the old one or the layer just visited
        ctx.oblige("loop-invariant/preserved", z3.Or(spec_clauses(k + 1, nbv, nbs, B), spec_clauses(k + 1, nbv, nbs, k)))
        ctx.cover("cover/loop-body")
        raise PathEnd("")
    ctx.assume(k == NLAYERS)
    env.store("current", None)
    if interp.truth(interp.eval(s.test, env)):
        ctx.oblige("loop-test/false-at-root", z3.BoolVal(False))
        raise PathEnd("")
    env.store("_ghost_witness", B)
    ctx.ghost_log.append(("witness", B))
    return


def _line_of_while():
    sf, node = loader.func_node(VWS)
    ws = [n for n in ast.walk(node) if isinstance(n, ast.While)]
    if len(ws) != 1:
        raise loader.BindingError(f"expected one while loop in Config.value_with_source, found {len(ws)}")
    return ws[0].lineno


def value_with_source_cases():
    line = _line_of_while()

    def harness(interp):
        ctx = interp.ctx
        ctx.assume(NLAYERS >= 1)
        me = GhostLayer(z3.IntVal(0), ctx)
        try:
            r = interp.call(VWS, [me, "loop"], {})
        except PathEnd:
            raise
        except BaseException as e:
            if isinstance(e, _ENGINE):
                raise
            ctx.oblige(f"no-exception[{type(e).__name__}]", z3.BoolVal(False), info={"msg": str(e)[:200]})
            return
        ctx.oblige("result-shape", z3.BoolVal(isinstance(r, tuple) and len(r) == 2))
        bv, bs = r
        wit = [w for tag, w in ctx.ghost_log if tag == "witness"]
        B = wit[-1] if wit else z3.IntVal(0)
        n = NLAYERS
        bsi = iexpr(bs)
        # highest-precedence source that sets the field wins
        ctx.oblige("no-layer-with-higher-source", z3.Implies(z3.And(J >= 0, J < n, NONNULL(J)), SRC(J) <= bsi))
        if bv is None:
            ctx.oblige("none-only-if-unset-everywhere", z3.And(bsi == int(ConfigSource.void), z3.Implies(z3.And(J >= 0, J < n), z3.Not(NONNULL(J)))))
        else:
            ctx.oblige("value-comes-from-a-layer-with-that-source", z3.And(bv.k >= 0, bv.k < n, NONNULL(bv.k), SRC(bv.k) == bsi) if type(bv) is GhostVal else z3.BoolVal(False))
            ctx.oblige("most-recent-layer-wins-among-equals", z3.Implies(z3.And(J >= 0, J < bv.k, NONNULL(J)), SRC(J) < bsi) if type(bv) is GhostVal else z3.BoolVal(False))

    return [
        Case(
            f"{PROP}/config.Config.value_with_source",
            "chain of arbitrary length",
            harness,
            externals={object.__getattribute__: _object_getattribute},
            loop_specs={(QUAL, line): while_spec},
            sources=("halmos.config:Config.value_with_source",),
            replay=replay_vws,
        )
    ]


def _ref_lookup(layers, name):
    """reference: layers newest first: (source, value)"""
    best = (None, ConfigSource.void)
    for src, val in layers:
        if val is not None and src > best[1]:
            best = (val, src)
    cands = [(src, i) for i, (src, val) in enumerate(layers) if val is not None]
    if not cands:
        return (None, ConfigSource.void)
    m = max(s for s, _ in cands)
    i = min(i for s, i in cands if s == m)
    return (layers[i][1], m)


def replay_vws(r):
    srcs = [s for s in ConfigSource if s != ConfigSource.void]
    for n in range(1, 4):
        for combo in itertools.product(srcs, repeat=n):
            for vals in itertools.product([None, 1, 2, 3], repeat=n):
                # build oldest first
                cfg = None
                layers = []
                for src, v in zip(combo, vals):
                    kw = {} if v is None else {"loop": v}
                    cfg = hcfg.Config(_parent=cfg, _source=src, **kw)
                    layers.insert(0, (src, v))
                got = cfg.value_with_source("loop")
                want = _ref_lookup(layers, "loop")
                if got != want:
                    return {"reproduced": True, "detail": f"layers (newest first) {[(s.name, v) for s, v in layers]}: value_with_source('loop') = {got}, precedence rule gives {want}", "inputs": str(layers)}
    return {"reproduced": False, "detail": "no stack of up to 3 layers disagrees with the precedence rule"}


# ---------------------------------------------------------------------------------------
GETATTR = hcfg.Config.__dict__["__getattribute__"]
GETATTR_FN = getattr(GETATTR, "__wrapped__", GETATTR)


def getattribute_cases():
    def harness(interp):
        ctx = interp.ctx
        cfg = hcfg.default_config()
        sentinel = object()
        calls = []

        def vws_contract(i, args, kwargs):
            calls.append(args[1])
            return (sentinel, SymInt(z3.Int("some_source")))

        interp.contracts["halmos.config:Config.value_with_source"] = vws_contract
        v = interp.call(GETATTR_FN, [cfg, "loop"], {})
        ctx.oblige("field-is-first-component-of-value_with_source", z3.BoolVal(v is sentinel and calls == ["loop"]))
        calls.clear()
        p = interp.call(GETATTR_FN, [cfg, "_parent"], {})
        ctx.oblige("internal-name-bypasses-lookup", z3.BoolVal(p is None and calls == []))

    return [Case(f"{PROP}/config.Config.__getattribute__", "field / internal", harness, sources=("halmos.config:Config.__getattribute__",))]


RSC = hcfg.Config.__dict__["resolved_solver_command"]
RSC_FN = getattr(RSC, "func", None)


class StubCfg:
    """receiver for resolved_solver_command: value_with_source is served by its contract"""


def solver_command_cases():
    out = []
    for has_cmd in (True, False):

        def harness(interp, has_cmd=has_cmd):
            ctx = interp.ctx
            # the sources are real ConfigSource members (the code also renders `source.name` in a warning): every pair
            real = [s for s in ConfigSource if s != ConfigSource.void]
            s_src = real[ctx.choose(len(real), "solver source")]
            c_src = real[ctx.choose(len(real), "solver-command source")] if has_cmd else ConfigSource.void
            resolved = ["resolved-from---solver"]

            def vws(i, args, kwargs):
                if args[1] == "solver":
                    return ("yices", s_src)
                if args[1] == "solver_command":
                    return ("my-solver --flag" if has_cmd else None, c_src)
                raise loader.BindingError(f"unexpected lookup {args[1]}")

            interp.contracts["halmos.config:Config.value_with_source"] = vws
            interp.contracts["halmos.solvers:get_solver_command"] = lambda i, a, k: resolved
            interp.externals[hcfg.get_solver_command] = lambda i, *a, **k: resolved
            obj = StubCfg()
            obj.value_with_source = lambda name: interp.call(VWS, [obj, name], {})
            r = interp.call(RSC_FN, [obj], {})
            uses_cmd = r == ["my-solver", "--flag"]
            uses_solver = r is resolved
            ctx.oblige("result-is-one-of-the-two", z3.BoolVal(uses_cmd or uses_solver))
            want_cmd = z3.BoolVal(bool(has_cmd and int(c_src) >= int(s_src)))
            ctx.oblige("solver-command-wins-iff-at-least-as-high", want_cmd if uses_cmd else z3.Not(want_cmd), info={"solver": s_src.name, "command": c_src.name})

        out.append(Case(f"{PROP}/config.Config.resolved_solver_command", "command set" if has_cmd else "command unset", harness, sources=("halmos.config:Config.resolved_solver_command",)))
    return out


# ---------------------------------------------------------------------------------------
class RecordingArgs:
    def __init__(self):
        self.calls = []

    def with_overrides(self, source, **kw):
        self.calls.append((source, kw))
        return ("layered", source)


def annotation_cases():
    out = []
    for fn, want, present in ((hm.with_devdoc, ConfigSource.function_annotation, True), (hm.with_devdoc, ConfigSource.function_annotation, False), (hm.with_natspec, ConfigSource.contract_annotation, True), (hm.with_natspec, ConfigSource.contract_annotation, False)):

        def harness(interp, fn=fn, want=want, present=present):
            ctx = interp.ctx
            args = RecordingArgs()
            interp.contracts["halmos.build:parse_devdoc"] = lambda i, a, k: ("--loop 3" if present else None)
            interp.contracts["halmos.build:parse_natspec"] = lambda i, a, k: ("--loop 3" if present else "")
            interp.externals[hm.parse_devdoc] = lambda i, *a, **k: ("--loop 3" if present else None)
            interp.externals[hm.parse_natspec] = lambda i, *a, **k: ("--loop 3" if present else "")
            if fn is hm.with_devdoc:
                r = interp.call(fn, [args, "check_x()", {}], {})
            else:
                r = interp.call(fn, [args, "C", "@custom:halmos --loop 3" if present else ""], {})
            if present:
                ok = len(args.calls) == 1 and args.calls[0][0] is want and args.calls[0][1].get("loop") == 3 and r == ("layered", want)
                ctx.oblige("one-layer-with-the-right-source-tag", z3.BoolVal(ok), info={"calls": str(args.calls)[:200]})
            else:
                ctx.oblige("no-annotation-returns-input-unchanged", z3.BoolVal(r is args and args.calls == []))

        out.append(Case(f"{PROP}/__main__.{fn.__name__}", "annotation present" if present else "no annotation", harness, sources=(f"halmos.__main__:{fn.__name__}",)))
    return out


def load_config_cases():
    out = []
    for nfiles in (0, 1, 2):

        def harness(interp, nfiles=nfiles):
            ctx = interp.ctx
            log = []

            class Layer:
                def __init__(self, tag):
                    self.tag = tag

                def with_overrides(self, source, **kw):
                    log.append((source, kw.get("_marker"), dict(kw)))
                    return Layer(self.tag + [(source, kw.get("_marker"))])

            base = Layer([])
            files = [f"f{i}.toml" for i in range(nfiles)]

            class CLI:
                pass

            cli = CLI()
            cli._marker = "cli"
            # parsed options of every kind: a value of unknown truthiness (0, "", empty set ... are legitimate
            # explicit values), explicit zero / empty values, and an option that was not given (None)
            opaque = OpaqueValue("cli_option")
            cli.some_option = opaque
            cli.loop = 0
            cli.solver_command = ""
            cli.panic_error_codes = set()
            cli.width = None

            class AP:
                def parse_args(self, a):
                    return cli

            class TP:
                def parse_file(self, f):
                    return {"_marker": f}

            ex = interp.externals
            ex[hm.default_config] = lambda i: base
            ex[hm.arg_parser] = lambda i: AP()
            ex[hm.resolve_config_files] = lambda i, a: files
            ex[hm.toml_parser] = lambda i: TP()
            import os

            ex[os.path.exists] = lambda i, p: True
            r = interp.call(hm.load_config, [["--x"]], {})
            want = [(ConfigSource.config_file, f) for f in files] + [(ConfigSource.command_line, "cli")]
            ctx.oblige("layers-bottom-to-top: default, config files in order, command line", z3.BoolVal(isinstance(r, Layer) and r.tag == want), info={"got": str(getattr(r, "tag", r))[:200]})
            top = [kw for (src, mk, kw) in log if src == ConfigSource.command_line]
            given = top[0] if len(top) == 1 else {}
            ok = len(top) == 1 and set(given) == set(vars(cli)) and all(given[k] is v or given[k] == v for k, v in vars(cli).items() if k in given)
            ctx.oblige("the command-line layer receives every parsed option unchanged, whatever its truth value (an explicit 0, '' or empty set is a value; only None means `not given`, and that is with_overrides' business)", z3.BoolVal(ok), info={"missing": str(sorted(set(vars(cli)) - set(given)))})

        out.append(Case(f"{PROP}/__main__.load_config", f"{nfiles} config file(s)", harness, replay=replay_load_config_falsy, sources=("halmos.__main__:load_config",)))
    return out


# ---------------------------------------------------------------------------------------
class OpaqueValue:
    """an override value about which nothing is known: its truthiness is a symbolic Boolean (both
    outcomes are explored), so the proof holds for 0, "", empty sets, False ... as well"""

    def __init__(self, name):
        self.name = name

    def __bool__(self):
        from pyvc.interp import Interp
        from pyvc.sym import SymBool

        return Interp.current.ctx.branch(SymBool(z3.Bool(f"truthy[{self.name}]")))

    def __len__(self):
        return 1 if bool(self) else 0


def replay_with_overrides(r):
    """real layers: an explicit falsy value given by a higher source must win"""
    from halmos.config import default_config

    base = default_config().with_overrides(ConfigSource.config_file, loop=7, solver_command="z3 -smt2", panic_error_codes={1, 17}, solver_timeout_assertion=5.0)
    for name, falsy in (("loop", 0), ("solver_command", ""), ("panic_error_codes", set()), ("solver_timeout_assertion", 0.0)):
        try:
            top = base.with_overrides(ConfigSource.command_line, **{name: falsy})
            got = top.value_with_source(name)
        except BaseException as e:  # noqa
            return {"reproduced": True, "detail": f"with_overrides(command_line, {name}={falsy!r}) raised {type(e).__name__}: {e}"}
        if got != (falsy, ConfigSource.command_line):
            return {"reproduced": True, "detail": f"config file sets {name}, command line sets {name}={falsy!r}: effective value is {got!r}, expected ({falsy!r}, command_line)", "inputs": [name, repr(falsy)]}
    return {"reproduced": False, "detail": "real Config layers honour falsy overrides"}


def replay_load_config_falsy(r):
    """real load_config with a real halmos.toml: explicit falsy command-line values must win over the file"""
    import os
    import tempfile

    with tempfile.TemporaryDirectory() as d:
        open(os.path.join(d, "halmos.toml"), "w").write("[global]\nloop = 7\nsolver-timeout-assertion = 5000\nwidth = 9\n")
        for argv, name, want in ((["--loop", "0"], "loop", 0), (["--solver-timeout-assertion", "0"], "solver_timeout_assertion", 0), (["--width", "0"], "width", 0)):
            try:
                cfg = hm.load_config(["--root", d] + argv)
                got = getattr(cfg, name)
            except BaseException as e:  # noqa
                return {"reproduced": None, "detail": f"load_config raised {type(e).__name__}: {e}"}
            if got != want:
                return {"reproduced": True, "detail": f"halmos.toml sets {name}; the command line says {' '.join(argv)}; the effective value is {got!r} (the file wins over an explicit command-line value)", "inputs": " ".join(argv)}
    return {"reproduced": False, "detail": "explicit falsy command-line values win over the config file"}


def replay_parse_dict(r):
    """real parser: a structured option given as a native TOML value must mean what the command line means"""
    from halmos.config import TomlParser, arg_parser

    cli = arg_parser().parse_args(["--solver-timeout-assertion", "500"]).solver_timeout_assertion
    for key, val, want in (("solver-timeout-assertion", 500, cli), ("solver-timeout-assertion", "500", cli)):
        try:
            got = TomlParser().parse_dict({"global": {key: val}})[key.replace("-", "_")]
        except BaseException as e:  # noqa
            return {"reproduced": True, "detail": f"parse_dict({key} = {val!r}) raised {type(e).__name__}: {e}"}
        if got != want:
            return {"reproduced": True, "detail": f"halmos.toml `{key} = {val!r}` gives {got!r}; `--{key} 500` on the command line gives {want!r}", "inputs": [key, repr(val)]}
    for key, val in (("trace-events", ["BOGUS"]), ("array-lengths", ["x=oops"]), ("early-exit", "false"), ("loop", "abc"), ("loop", 2.5), ("storage-layout", "weird")):
        try:
            got = TomlParser().parse_dict({"global": {key: val}})
            return {"reproduced": True, "detail": f"malformed `{key} = {val!r}` accepted as {got!r}"}
        except BaseException:  # noqa
            pass
    return {"reproduced": False, "detail": "real TomlParser parses native values like the command line and rejects malformed ones"}


def with_overrides_cases():
    import halmos.config as hcfg

    out = []

    def harness(interp):
        ctx = interp.ctx
        calls = []

        def config_ctor(i, args, kwargs):
            calls.append((args, dict(kwargs)))
            return ("new-layer", len(calls))

        interp.contracts["halmos.config:Config"] = config_ctor
        parent = object.__new__(hcfg.Config)
        vals = {"loop": OpaqueValue("a"), "solver_command": OpaqueValue("b"), "panic_error_codes": OpaqueValue("c")}
        fn = hcfg.Config.__dict__["with_overrides"]
        r = interp.call(fn, [parent, ConfigSource.function_annotation], dict(vals))
        ok = len(calls) == 1 and calls[0][0] == [] and r == ("new-layer", 1)
        ctx.oblige("exactly-one-new-layer-is-built-and-returned", z3.BoolVal(ok))
        if len(calls) == 1:
            kw = calls[0][1]
            ctx.oblige("new-layer-has-this-layer-as-parent", z3.BoolVal(kw.get("_parent") is parent))
            ctx.oblige("new-layer-carries-the-given-source", z3.BoolVal(kw.get("_source") is ConfigSource.function_annotation))
            rest = {k: v for k, v in kw.items() if k not in ("_parent", "_source")}
            ctx.oblige("every-override-is-stored-unchanged (whatever its truthiness)", z3.BoolVal(set(rest) == set(vals) and all(rest[k] is vals[k] for k in vals if k in rest)), info={"stored": sorted(rest)})

    out.append(Case(f"{PROP}/config.Config.with_overrides", "three opaque values", harness, replay=replay_with_overrides, sources=("halmos.config:Config.with_overrides",)))

    def harness_bad(interp):
        ctx = interp.ctx

        def config_ctor(i, args, kwargs):
            raise TypeError("Config.__init__() got an unexpected keyword argument 'no_such_option'")

        interp.contracts["halmos.config:Config"] = config_ctor
        parent = object.__new__(hcfg.Config)
        fn = hcfg.Config.__dict__["with_overrides"]
        try:
            r = interp.call(fn, [parent, ConfigSource.config_file], {"no_such_option": 1})
            ctx.oblige("unknown-option-is-rejected (exit 2), not defaulted", z3.BoolVal(False), info={"returned": str(r)[:80]})
        except SystemExit as e:
            ctx.oblige("unknown-option-is-rejected (exit 2), not defaulted", z3.BoolVal(e.code == 2))

    out.append(Case(f"{PROP}/config.Config.with_overrides", "unknown option", harness_bad, sources=("halmos.config:Config.with_overrides",)))
    return out


class _RecordingAction:
    def __init__(self, name, log):
        self.name = name
        self.log = log

    def parse(self, value):
        self.log.append((self.name, value))
        return ("parsed", self.name, value)


class _GhostField:
    def __init__(self, name, action=None, type_=str, choices=None):
        self.name = name
        self.type = type_
        self.metadata = {"action": action} if action is not None else {}
        if choices:
            self.metadata["choices"] = choices


def parse_dict_cases():
    import dataclasses

    import halmos.config as hcfg

    out = []
    # every kind of value a TOML file can hold (string, integer, float, bool, array, table)
    kinds = {"string": "1,2", "integer": 500, "float": 1.5, "bool": False, "array": [1, "x"], "table": {"k": 1}, "empty-string": "", "zero": 0, "empty-array": []}
    for kname, value in kinds.items():

        def harness(interp, value=value):
            ctx = interp.ctx
            log = []
            flds = [_GhostField("with_action", _RecordingAction("with_action", log)), _GhostField("plain_str", type_=str), _GhostField("plain_int", type_=int), _GhostField("plain_bool", type_=bool), _GhostField("plain_choice", type_=str, choices=["1,2", "b"]), _GhostField("other_action", _RecordingAction("other_action", log))]
            interp.externals[dataclasses.fields] = lambda i, c: flds
            interp.externals[hcfg.fields] = lambda i, c: flds
            fn = hcfg.TomlParser.__dict__["parse_dict"]
            r = interp.call(fn, [hcfg.TomlParser(), {"global": {"with-action": value}}], {})
            ctx.oblige("result-has-exactly-the-given-keys (dashes normalised)", z3.BoolVal(isinstance(r, dict) and sorted(r) == ["with_action"]), info={"got": str(r)[:120]})
            if isinstance(r, dict) and "with_action" in r:
                ctx.oblige("structured-option-value-goes-through-its-parser (validated, same meaning as on the command line)", z3.BoolVal(r["with_action"] == ("parsed", "with_action", value) and log == [("with_action", value)]), info={"got": str(r["with_action"])[:80]})
            # plain options: a value of the option's own type (and among its choices) is kept as it is, anything else is refused
            for fname, t, choices in (("plain_str", str, None), ("plain_int", int, None), ("plain_bool", bool, None), ("plain_choice", str, ["1,2", "b"])):
                fits = type(value) is t and (choices is None or value in choices)
                try:
                    r2 = interp.call(fn, [hcfg.TomlParser(), {"global": {fname.replace("_", "-"): value}}], {})
                    ctx.oblige(f"plain option of type {t.__name__}{' with choices' if choices else ''}: a fitting value is kept unchanged, a malformed one is rejected (not passed on)", z3.BoolVal(fits and isinstance(r2, dict) and list(r2) == [fname] and r2[fname] is value), info={"value": repr(value), "got": str(r2)[:80]})
                except (ValueError, TypeError):
                    ctx.oblige(f"plain option of type {t.__name__}{' with choices' if choices else ''}: a fitting value is kept unchanged, a malformed one is rejected (not passed on)", z3.BoolVal(not fits), info={"value": repr(value), "rejected": True})

        out.append(Case(f"{PROP}/config.TomlParser.parse_dict", f"value kind {kname}", harness, replay=replay_parse_dict, sources=("halmos.config:TomlParser.parse_dict",)))

    for label, parsed in (("no [global] section", {"other": {}}), ("two sections", {"global": {}, "other": {}}), ("empty file", {})):

        def harness(interp, parsed=parsed):
            ctx = interp.ctx
            interp.externals[hcfg.fields] = lambda i, c: []
            fn = hcfg.TomlParser.__dict__["parse_dict"]
            try:
                r = interp.call(fn, [hcfg.TomlParser(), parsed], {})
                ctx.oblige("malformed-file-is-rejected (exit 2)", z3.BoolVal(False), info={"returned": str(r)[:80]})
            except SystemExit as e:
                ctx.oblige("malformed-file-is-rejected (exit 2)", z3.BoolVal(e.code == 2))

        out.append(Case(f"{PROP}/config.TomlParser.parse_dict", label, harness, sources=("halmos.config:TomlParser.parse_dict",)))
    return out


def natspec_lookup_cases():
    """`annotation overrides apply only to their own contract`: the natspec handed to with_natspec for contract X is the documentation of
    the ContractDefinition named exactly X in the file's AST (every artifact carries the AST of the whole source file)"""
    import itertools

    import halmos.build as hbuild
    from contracts.common import replay_script

    out = []

    def harness(interp):
        ctx = interp.ctx
        names = ["Counter", "CounterTest", "CounterInvariantTest", "Count", "Other"]
        bad = []
        n = 0
        for order in itertools.permutations(range(len(names)), 3):
            nodes = [{"nodeType": "PragmaDirective", "name": "Counter"}]
            for k in order:
                nodes.append({"nodeType": "ContractDefinition", "name": names[k], "contractKind": "contract", "documentation": {"text": f"doc of {names[k]}"}, **({"abstract": True} if k == 4 else {})})
            present = [names[k] for k in order]
            for want in names:
                n += 1
                typ, doc = interp.call(hbuild.get_contract_type, [nodes, want], {})
                if want in present:
                    ok = doc == {"text": f"doc of {want}"} and typ == ("abstract contract" if want == "Other" else "contract")
                else:
                    ok = typ is None and doc is None
                if not ok and len(bad) < 3:
                    bad.append((present, want, typ, doc))
        ctx.oblige(f"get_contract_type returns kind and documentation of the definition with exactly the requested name, (None, None) if there is none ({n} lookups over files with prefix-related names in every order)", z3.BoolVal(not bad), info={"first": str(bad[:1])[:300]})

    out.append(Case(f"{PROP}/build.get_contract_type", "files defining contracts whose names are prefixes of each other", harness, replay=replay_script("natspec_of_prefix_named_contract.py", "one source file defining Counter, CounterTest and CounterInvariantTest, each with its own @custom:halmos annotation"), sources=("halmos.build:get_contract_type",)))
    return out


def build_cases(tier="quick"):
    # scope of a function annotation: each test's configuration is derived from the contract's, not from the
    # previous test's (the run_tests contract of the C20 pack)
    from contracts import c20
    from contracts.common import replay_script

    ref = [Case(f"{PROP}/__main__.run_tests#annotation-scope", c.case, c.harness, replay=replay_script("annotation_scope.py", "two tests of one contract, only the first carries a @custom:halmos annotation"), sources=c.sources) for c in c20.main_cases() if c.unit.endswith("__main__.run_tests")]
    # the consumers of the configuration read it and never write it: a layer's value is shared by every contract and test (C12's unit)
    from contracts import c12
    from contracts.common import rewrap

    ref += rewrap(PROP, c12.dyn_sizes_cases(), "configuration-is-read-only")
    return natspec_lookup_cases() + value_with_source_cases() + getattribute_cases() + solver_command_cases() + annotation_cases() + load_config_cases() + with_overrides_cases() + parse_dict_cases() + ref


# ---------------------------------------------------------------------------------------
# bounded stand-ins


def _bounded_roundtrip(tier, seed):
    rnd = random.Random(seed)
    failures = []
    cases = 0

    def fail(w, d):
        if len(failures) < 8:
            failures.append({"witness": w, "detail": d})

    # timeouts with units
    nums = ["0", "1", "2", "5", "10", "59", "60", "100", "570", "999", "1000", "1001", "1500", "2000", "3600", "86400", "0.5", "1.5", "2.25", "0.001", "12.75", "999.9"]
    if tier != "quick":
        nums += [str(rnd.randrange(0, 10**6)) for _ in range(300)] + [f"{rnd.uniform(0, 5000):.3f}" for _ in range(300)]
    for n in nums:
        for unit in ("", "ms", "s", "m", "h"):
            text = n + unit
            cases += 1
            try:
                v = hcfg.ParseTimeout.parse(text)
            except ValueError:
                fail(text, "well-formed timeout rejected")
                continue
            try:
                back = hcfg.ParseTimeout.parse(hcfg.ParseTimeout.unparse(v))
            except Exception as e:  # noqa
                fail(text, f"unparse/parse raised {type(e).__name__}: {e}")
                continue
            if back != v:
                fail(text, f"ParseTimeout: parse({text!r}) = {v!r}, unparse -> {hcfg.ParseTimeout.unparse(v)!r}, parse -> {back!r}")
    for bad in ("abc", "ms", "1x", "--", "1.2.3s", "s"):
        cases += 1
        try:
            v = hcfg.ParseTimeout.parse(bad)
            fail(bad, f"malformed timeout accepted as {v!r}")
        except ValueError:
            pass
    # CSV ints
    lists = [[0], [1], [1, 2, 3], [0, 0], [10**9], [7] * 5] + [[rnd.randrange(0, 2**32) for _ in range(rnd.randrange(1, 6))] for _ in range(50)]
    for v in lists:
        cases += 1
        if hcfg.ParseCSVInt.parse(hcfg.ParseCSVInt.unparse(v)) != v:
            fail(str(v), "ParseCSVInt round trip")
    for bad in ("", ",", "a", "1,b", "1.5"):
        cases += 1
        try:
            v = hcfg.ParseCSVInt.parse(bad)
            fail(bad, f"malformed csv accepted as {v!r}")
        except ValueError:
            pass
    # error codes
    sets = [set(), {0}, {1}, {1, 2}, {0x11, 0x32, 0x41}, {255, 256}] + [{rnd.randrange(0, 2**16) for _ in range(rnd.randrange(1, 6))} for _ in range(50)]
    for v in sets:
        cases += 1
        if hcfg.ParseErrorCodes.parse(hcfg.ParseErrorCodes.unparse(v)) != v:
            fail(str(v), "ParseErrorCodes round trip")
    for bad in ("", ",", "zz", "0x", "1,,x"):
        cases += 1
        try:
            v = hcfg.ParseErrorCodes.parse(bad)
            fail(bad, f"malformed error codes accepted as {v!r}")
        except ValueError:
            pass
    # array lengths
    names = ["x", "data", "a_b", "arr2"]
    maps = [{}, {"x": [1]}, {"x": [1, 2], "y": [3]}, {"data": [0, 32, 65]}]
    for _ in range(60):
        maps.append({rnd.choice(names) + str(i): [rnd.randrange(0, 300) for _ in range(rnd.randrange(1, 4))] for i in range(rnd.randrange(1, 4))})
    for v in maps:
        cases += 1
        if hcfg.ParseArrayLengths.parse(hcfg.ParseArrayLengths.unparse(v)) != v:
            fail(str(v), "ParseArrayLengths round trip")
    for bad in ("x", "x=", "x={}", "x={a}", "=1", "x=1;y=2", "x={1,2"):
        cases += 1
        try:
            v = hcfg.ParseArrayLengths.parse(bad)
            fail(bad, f"malformed array lengths accepted as {v!r}")
        except ValueError:
            pass
    # trace events
    from halmos.config import TraceEvent

    evs = list(TraceEvent)
    for k in range(len(evs) + 1):
        for combo in itertools.permutations(evs, k):
            cases += 1
            if hcfg.ParseCSVTraceEvent.parse(hcfg.ParseCSVTraceEvent.unparse(list(combo))) != list(combo):
                fail(str(combo), "ParseCSVTraceEvent round trip")
    cases += 1
    try:
        hcfg.ParseCSVTraceEvent.parse("LOG,NOPE")
        fail("LOG,NOPE", "unknown trace event accepted")
    except ValueError:
        pass
    # stacks of real Config layers against the reference rule (also serves as the CPython
    # cross-check of the engine's reading of value_with_source)
    srcs = [s for s in ConfigSource if s != ConfigSource.void]
    for _ in range(400 if tier == "quick" else 5000):
        n = rnd.randrange(1, 6)
        cfg, layers = None, []
        for _k in range(n):
            src, v = rnd.choice(srcs), rnd.choice([None, None, 1, 2, 3])
            cfg = hcfg.Config(_parent=cfg, _source=src, **({} if v is None else {"loop": v}))
            layers.insert(0, (src, v))
        cases += 1
        if cfg.value_with_source("loop") != _ref_lookup(layers, "loop"):
            fail(str(layers), "value_with_source disagrees with the precedence rule")
    return {"tool": "native grammar enumeration", "bound": "structured-option grammars up to the listed sizes; stacks of up to 5 layers", "cases": cases, "failures": failures}


def ground_solver_stacks():
    """cfg.resolved_solver_command on real layer stacks (every stack of up to 3 layers over 4 sources, each layer setting
    --solver, --solver-command, both or neither) against the precedence rule stated on value_with_source"""
    import itertools
    import shlex

    from halmos.config import default_config
    from halmos.solvers import get_solver_command

    srcs = [ConfigSource.config_file, ConfigSource.contract_annotation, ConfigSource.function_annotation, ConfigSource.command_line]
    settings = [{}, {"solver": "z3"}, {"solver_command": "mysolver --flag"}, {"solver": "z3", "solver_command": "other -x"}]
    bad, n = [], 0
    for k in range(0, 4):
        for layers in itertools.product(itertools.product(srcs, range(len(settings))), repeat=k):
            cfg = default_config()
            for src, si in layers:
                cfg = cfg.with_overrides(src, **settings[si])
            n += 1
            solver, s_src = cfg.value_with_source("solver")
            cmd, c_src = cfg.value_with_source("solver_command")
            want = shlex.split(cmd) if (cmd and c_src and c_src >= s_src) else get_solver_command(solver)
            try:
                got = cfg.resolved_solver_command
            except Exception as e:  # noqa
                got = f"{type(e).__name__}: {e}"
            if got != want and len(bad) < 3:
                bad.append(([(s_.name, settings[i]) for s_, i in layers], got, want))
    return [(f"resolved_solver_command follows the precedence of value_with_source on all {n} layer stacks (the top-most object answers, whatever the sources of the layers below)", not bad, f"first disagreement: {str(bad[:1])[:400]}")]


def ground_parser_defaults():
    """an option that is not written on the command line / in an annotation is `not given` (None) in the parsed layer,
    for every option: layering relies on it"""
    from halmos.config import arg_parser, default_config

    names = [f.name for f in __import__("dataclasses").fields(type(default_config())) if not f.name.startswith("_")]
    out = []
    for argv in ([], ["--loop", "3"], ["-v"], ["--solver", "z3"]):
        ns = vars(arg_parser().parse_args(argv))
        given = {"--loop": "loop", "-v": "verbose", "--solver": "solver"}
        mentioned = {given[a] for a in argv if a in given}
        wrong = sorted(k for k, v in ns.items() if k not in mentioned and k != "root" and v is not None)
        out.append((f"parse_args({argv}) leaves every option that was not written as None", not wrong, f"options with a value although not given: {wrong[:5]}"))
    return out


def ground_csv_family():
    """parse_csv and the CSV-based option values on exhaustive small families (evaluated, not symbolic): every string over
    {a, b, ',', ' '} up to 6 characters; every list over {0, 1, 7} up to 4 items (repetitions and order are part of the value);
    array-length maps whose size lists repeat items"""
    import itertools

    out = []
    bad = []
    n = 0
    for k in range(0, 7):
        for t in itertools.product("ab, ", repeat=k):
            s = "".join(t)
            n += 1
            want = [x.strip() for x in s.split(",") if x.strip()]
            try:
                got = list(hcfg.parse_csv(s))
            except Exception as e:  # noqa
                got = f"{type(e).__name__}: {e}"
            if got != want and len(bad) < 3:
                bad.append((s, got, want))
    out.append((f"parse_csv yields the non-empty stripped items in order, repetitions included, on all {n} strings of the family", not bad, f"first disagreement (input, got, expected): {str(bad[:1])[:300]}"))
    bad, n = [], 0
    for k in range(1, 5):
        for t in itertools.product((0, 1, 7), repeat=k):
            v = list(t)
            n += 1
            try:
                back = hcfg.ParseCSVInt.parse(hcfg.ParseCSVInt.unparse(v))
            except Exception as e:  # noqa
                back = f"{type(e).__name__}: {e}"
            if back != v and len(bad) < 3:
                bad.append((v, back))
    out.append((f"ParseCSVInt: parse(unparse(v)) == v on all {n} lists (a list value keeps order and repetitions)", not bad, f"first disagreement (value, after the round trip): {str(bad[:1])[:300]}"))
    bad, n = [], 0
    for t in itertools.product((0, 1, 7), repeat=3):
        for u in itertools.product((2, 2, 3), repeat=2):
            v = {"x": list(t), "data": list(u)}
            n += 1
            try:
                back = hcfg.ParseArrayLengths.parse(hcfg.ParseArrayLengths.unparse(v))
            except Exception as e:  # noqa
                back = f"{type(e).__name__}: {e}"
            if back != v and len(bad) < 3:
                bad.append((v, back))
    out.append((f"ParseArrayLengths: parse(unparse(v)) == v on all {n} maps whose size lists repeat items", not bad, f"first disagreement: {str(bad[:1])[:300]}"))
    return out


def ground_malformed_values():
    """malformed values are rejected, whichever source they come from (evaluated natively on exhaustive small families):
    numbers that are no time limit / error code / length; toml values whose type or choice does not fit a plain option"""
    import dataclasses

    out = []
    accepted = []
    for text in ("nan", "inf", "-inf", "-1", "-5s", "-0.5ms", "1e400", "nans", "infm", "-1h", "--1", "1ss", ""):
        try:
            accepted.append((text, hcfg.ParseTimeout.parse(text)))
        except ValueError:
            pass
    out.append(("ParseTimeout rejects durations that are negative, infinite or not a number", not accepted, f"accepted: {accepted[:4]}"))
    bad = []
    for text in ("0", "1", "100", "2.5s", "250ms", "1m", "1h", "0s", "0.001"):
        try:
            v = hcfg.ParseTimeout.parse(text)
            if not (0 <= v < float("inf")) or hcfg.ParseTimeout.parse(hcfg.ParseTimeout.unparse(v)) != v:
                bad.append((text, v))
        except ValueError as e:
            bad.append((text, str(e)))
    out.append(("ParseTimeout accepts the well-formed durations and they survive unparse/parse", not bad, f"{bad[:3]}"))
    accepted = []
    for text in ("-1", "0x11,-2", "-0x1", "1,-1"):
        try:
            accepted.append((text, hcfg.ParseErrorCodes.parse(text)))
        except ValueError:
            pass
    out.append(("ParseErrorCodes rejects negative codes (every accepted set survives unparse/parse)", not accepted, f"accepted: {accepted[:4]}"))
    accepted = []
    for text in ("-1", "0,-2", "1,2,-3"):
        try:
            accepted.append((text, hcfg.ParseCSVInt.parse(text)))
        except ValueError:
            pass
    out.append(("ParseCSVInt (default array / bytes lengths) rejects negative lengths, as ParseArrayLengths does", not accepted, f"accepted: {accepted[:4]}"))
    # toml values of the plain options (no custom action): bool / int / str, some with choices
    tp = hcfg.toml_parser()
    wrong = {bool: ["false", 0, 1, 1.0], int: ["3", 2.5, True, [1]], str: [3, True, 1.5, ["a"]]}
    right = {bool: [True, False], int: [0, 7], str: ["abc"]}
    bad, n = [], 0
    for f in dataclasses.fields(hcfg.Config):
        if f.name.startswith("_") or f.metadata.get("action") or f.type not in wrong:
            continue
        key = f.name.replace("_", "-")
        for v in wrong[f.type]:
            n += 1
            try:
                d = tp.parse_dict({"global": {key: v}})
                bad.append((key, v, "accepted as", d.get(f.name)))
            except (ValueError, TypeError):
                pass
            except SystemExit:
                pass
        choices = f.metadata.get("choices")
        for v in (list(choices) if choices else right[f.type]):
            n += 1
            try:
                d = tp.parse_dict({"global": {key: v}})
                if d != {f.name: v}:
                    bad.append((key, v, "read as", d))
            except BaseException as e:  # noqa
                bad.append((key, v, "rejected", f"{type(e).__name__}: {e}"))
        if choices:
            n += 1
            try:
                d = tp.parse_dict({"global": {key: "no-such-choice"}})
                bad.append((key, "no-such-choice", "accepted as", d.get(f.name)))
            except (ValueError, SystemExit):
                pass
    out.append((f"toml config file: a value whose type or choice does not fit a plain option is rejected, a fitting one is taken as it is ({n} option/value pairs)", not bad, f"first disagreements: {str(bad[:3])[:300]}"))
    return out


def ground_script(name, what, claim):
    """a ground obligation decided by a native scenario script on the real code (exit 1 = the scenario shows the violation)"""

    def run():
        from contracts.common import replay_script

        rep = replay_script(name, what)({})
        return [(claim, not rep.get("reproduced"), str(rep.get("detail"))[:400])]

    return run


def ground_solver_names():
    """the command run for `--solver NAME` is NAME's own (binary + NAME's arguments), whatever other names were resolved before it in the process:
    several names share a binary and differ only in their arguments (cvc5 / cvc5-int, bitwuzla / bitwuzla-abs, yices / yices-x.y.z).
    Evaluated on the real get_solver_command with the binary lookup replaced by a recorder (no download), every ordered pair of names"""
    import itertools

    import halmos.solvers as hsv

    names = list(hsv.SOLVERS)
    real = hsv.ensure_solver_available
    hsv.ensure_solver_available = lambda info: f"/fake/bin/{info.binary_name}"
    bad, n = [], 0
    try:
        for a, b in itertools.permutations(names, 2):
            n += 1
            for fn_name in ("cache_clear",):
                f = getattr(hsv.get_solver_command, fn_name, None)
                if f:
                    f()
            for attr in list(vars(hsv)):
                v = getattr(hsv, attr)
                if isinstance(v, dict) and attr.startswith("_") and attr not in ("__builtins__",) and not attr.startswith("__"):
                    v.clear()  # (a fresh process for every pair)
            hsv.get_solver_command(a)
            got = hsv.get_solver_command(b)
            want = [f"/fake/bin/{hsv.SOLVERS[b].binary_name}"] + list(hsv.SOLVERS[b].arguments)
            if got != want and len(bad) < 3:
                bad.append((a, b, got, want))
    finally:
        hsv.ensure_solver_available = real
    return [(f"get_solver_command(NAME) is NAME's binary with NAME's arguments after any other name was resolved ({n} ordered pairs of the {len(names)} supported names)", not bad, str(bad[:2])[:400])]


def grounds():
    return [Ground(f"{PROP}/solvers.get_solver_command#per-name", ground_solver_names, sources=("halmos.solvers:get_solver_command",)), Ground(f"{PROP}/config.generated-file#strings", ground_script("generated_toml_strings.py", "python -m halmos.config with string options holding backslashes and quotes", "the generated config file gives back every plain string option as it was given (backslashes, quotes, regular expressions, Windows paths)"), sources=("halmos.config:main",)), Ground(f"{PROP}/__main__.mk_solver#timeout", ground_script("branching_timeout_edges.py", "--solver-timeout-branching below 1ms and at / above 2**32 ms", "the branching timeout handed to z3 is `none` exactly for a configured 0, and a positive duration never turns into `none` or a wrapped-around value"), sources=("halmos.__main__:mk_solver",)), Ground(f"{PROP}/config.malformed-values", ground_malformed_values, sources=("halmos.config:ParseTimeout.parse", "halmos.config:ParseErrorCodes.parse", "halmos.config:ParseCSVInt.parse", "halmos.config:TomlParser.parse_dict")), Ground(f"{PROP}/config.parse_csv#family", ground_csv_family, sources=("halmos.config:parse_csv", "halmos.config:ParseCSVInt.parse", "halmos.config:ParseCSVInt.unparse", "halmos.config:ParseArrayLengths.parse", "halmos.config:ParseArrayLengths.unparse")), Ground(f"{PROP}/config.Config.resolved_solver_command#stacks", ground_solver_stacks, sources=("halmos.config:Config.resolved_solver_command", "halmos.config:Config.__getattribute__")), Ground(f"{PROP}/config.arg_parser#not-given-is-None", ground_parser_defaults, sources=("halmos.config:_create_arg_parser",))]


def bounded():
    return [Bounded("structured options round trip + malformed rejection + layer stacks", _bounded_roundtrip)]


ASSUMPTIONS = [
    "pyvc (VC generator, Python-subset semantics) is trusted; path covers guard vacuity",
    "the parent chain is modelled as ghost layers 0..n-1 with uninterpreted source and field-presence functions; every layer's source is a real ConfigSource (1..5), which is what Config's constructors pass",
    "value identity is by layer index (the returned object is the one held by the winning layer)",
    "IntEnum comparison is integer comparison; functools.lru_cache on __getattribute__ is transparent on immutable layers",
    "callees replaced by contracts in the caller proofs: value_with_source (proved here), get_solver_command, parse_devdoc, parse_natspec, arg_parser, toml parsing, resolve_config_files",
    "annotation scoping to a contract/function (run_tests building test_config per function) is not under contract in this round",
    "Parse*.parse/unparse and parse_time (strings, floats) are checked by the bounded stand-in only",
]
TRUSTED = ["pyvc (this repository's verifier)", "z3 4.12.6 (LIA + UF)", "the precedence statement of the property as transcribed in spec_clauses / harness clauses"]
