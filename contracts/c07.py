"""C07 — byte sequences behave as a flat zero-extended byte array.

Abstract view of a ByteVec `b`:  len(b)  and  view(b) : offset -> byte,  0 beyond the end.
The real bodies of the ByteVec / Chunk methods are executed from the AST on **symbolic layouts**:

  * the chunk container (`SortedDict`) is the ghost `SymSortedDict`: keys are symbolic integers, every
    order question between keys/offsets is a path split, so all relative positions of offsets and
    chunk boundaries are explored;
  * a layout has k chunks (k = 0..3), chunk i being a window [start_i, start_i + len_i) of arbitrary
    position and positive length into its own immutable ghost byte string (content = uninterpreted
    function), so lengths, offsets and contents are universally quantified;
  * obligations are pointwise in one arbitrary offset `o` (quantifier-free LIA + UF):

      get_byte(k)            = view(k)
      slice(s, e)            fresh, well-formed, len = max(0, e-s), view'(i) = view(s+i); original untouched
      set_byte(k, v)         len' = max(len, k+1), view'(o) = (o = k ? v : view(o)); zero backfill
      set_slice(s, e, x)     len' = max(len, e),   view'(o) = (s <= o < e ? xview(o-s) : view(o)), for x a
                             chunk or a ByteVec of two chunks; every stored element is an immutable Chunk
      append(x)              len' = len + |x|, view'(o) = (o < len ? view(o) : xview(o-len))
      set_word(k, w)         the 32 bytes at k are the big-endian bytes of w
      copy()                 fresh container, same view; writes to either side are invisible to the other
    every operation preserves well-formedness (keys = running sums of chunk lengths from 0, no empty
    chunk, total = length).

  Bounded in the number of chunks (<= 3 in the target, <= 2 in a ByteVec value), unbounded in sizes,
  offsets and contents.  Chunk immutability (no method assigns a field after __init__) is a syntactic
  frame obligation.  State.mslice / set_mslice: memory-size guard, then the ByteVec operation.

Bounded stand-in (never counted): unwrap / get_word / concretize and long random operation
sequences, natively against a bytearray model.
"""
from __future__ import annotations

import ast
import random

import z3

from pyvc import loader
from pyvc.ghost import SymSortedDict
from pyvc.interp import _ENGINE, ConstData, GhostData, PathEnd
from pyvc.pack import Bounded, Case
from pyvc.sym import SymInt, iexpr, is_sym

loader.import_repo()
import halmos.bytevec as hbv  # noqa: E402
import halmos.sevm as hs  # noqa: E402
from halmos.bytevec import ByteVec, Chunk, ConcreteChunk, SymbolicChunk  # noqa: E402
from halmos.exceptions import OutOfGasError  # noqa: E402

PROP = "C07"
O = z3.Int("o")
SRC = ("halmos.bytevec:ByteVec.slice", "halmos.bytevec:ByteVec.set_slice", "halmos.bytevec:ByteVec.set_byte", "halmos.bytevec:ByteVec.append", "halmos.bytevec:ByteVec.get_byte", "halmos.bytevec:ByteVec._load_chunk", "halmos.bytevec:ConcreteChunk.slice", "halmos.bytevec:Chunk.__getitem__")


class NS:
    def __init__(self, **kw):
        self.__dict__.update(kw)


def ie(x):
    return iexpr(x) if (is_sym(x) or isinstance(x, int)) else x


def mk_chunk(ctx, tag):
    """a ConcreteChunk that is a window of arbitrary position and positive length into ghost data"""
    L = SymInt(z3.Int(f"{tag}_len"))
    st = SymInt(z3.Int(f"{tag}_start"))
    n = SymInt(z3.Int(f"{tag}_datalen"))
    ctx.assume(z3.And(L.e >= 1, st.e >= 0, st.e + L.e <= n.e))
    ch = object.__new__(ConcreteChunk)
    ch.data = GhostData(tag, n)
    ch.start = st
    ch.length = L
    ch.data_byte_length = n
    return ch


def mk_layout(ctx, k, tag="m"):
    bv = object.__new__(ByteVec)
    bv.chunks = SymSortedDict()
    pos = 0
    for i in range(k):
        ch = mk_chunk(ctx, f"{tag}{i}")
        bv.chunks._items.append((pos, ch))
        pos = SymInt(ie(pos) + ch.length.e)
    bv.length = pos
    return bv


def chunk_byte(ch, j):
    """byte j (z3 Int) of a stored element, as a z3 Int in [0,255]"""
    if isinstance(ch, ByteVec):  # (a nested ByteVec stored as an element: still has a view)
        return view(ch, j)
    d = ch.data
    at = ie(ch.start) + j
    if isinstance(d, GhostData):
        return d.byte_expr(at)
    if isinstance(d, bytes):
        e = z3.IntVal(0)
        for idx in range(len(d) - 1, -1, -1):
            e = z3.If(at == idx, z3.IntVal(d[idx]), e)
        return e
    if z3.is_bv(d):
        nb = d.size() // 8
        e = z3.IntVal(0)
        for idx in range(nb - 1, -1, -1):
            e = z3.If(at == idx, z3.BV2Int(z3.Extract(d.size() - 1 - 8 * idx, d.size() - 8 - 8 * idx, d)), e)
        return e
    raise loader.BindingError(f"chunk data of unexpected type {type(d).__name__}")


def entries(bv):
    c = bv.chunks
    if isinstance(c, SymSortedDict):
        return list(c._items)
    return list(c.items())


def view(bv, o):
    e = z3.IntVal(0)
    for key, ch in reversed(entries(bv)):
        kz, ln = ie(key), ie(len_of(ch))
        e = z3.If(z3.And(o >= kz, o < kz + ln), chunk_byte(ch, o - kz), e)
    return e


def len_of(ch):
    return ch.length


def wf_facts(bv):
    """well-formedness of the representation, as z3 facts + a python flag for element types"""
    facts = []
    pos = z3.IntVal(0)
    ok_types = True
    for key, ch in entries(bv):
        if not isinstance(ch, Chunk):
            ok_types = False
        facts.append(ie(key) == pos)
        facts.append(ie(len_of(ch)) >= 1)
        pos = pos + ie(len_of(ch))
    facts.append(ie(bv.length) == pos)
    return z3.And(*facts), ok_types


def install(interp):
    from sortedcontainers import SortedDict

    interp.externals[SortedDict] = lambda i, *a, **k: SymSortedDict()
    interp.externals[hbv.SortedDict] = lambda i, *a, **k: SymSortedDict()


def guarded(interp, thunk, allowed=()):
    try:
        return True, thunk()
    except PathEnd:
        raise
    except allowed as e:
        return False, e
    except BaseException as e:
        if isinstance(e, _ENGINE):
            raise
        interp.ctx.oblige(f"no-internal-exception[{type(e).__name__}]", z3.BoolVal(False), info={"msg": str(e)[:200]})
        return None, e


def snapshot(bv):
    return [(k, c) for k, c in entries(bv)], bv.length


def unchanged(bv, snap):
    ents, ln = snap
    now = entries(bv)
    return len(now) == len(ents) and all(a[0] is b[0] and a[1] is b[1] for a, b in zip(now, ents)) and bv.length is ln


def nonneg(ctx, name):
    x = SymInt(z3.Int(name))
    ctx.assume(x.e >= 0)
    return x


# ---------------------------------------------------------------------------------------
def read_cases():
    out = []
    for k in range(0, 4):

        def harness_get(interp, k=k):
            ctx = interp.ctx
            install(interp)
            bv = mk_layout(ctx, k)
            off = nonneg(ctx, "offset")
            ok, r = guarded(interp, lambda: interp.call(ByteVec.__dict__["get_byte"], [bv, off], {}))
            if not ok:
                return
            ctx.oblige("get_byte(k) is the byte of the flat view at k (0 past the end)", ie(r) == view(bv, off.e))

        out.append(Case(f"{PROP}/bytevec.ByteVec.get_byte", f"{k} chunk(s)", harness_get, sources=SRC))

        def harness_slice(interp, k=k):
            ctx = interp.ctx
            install(interp)
            bv = mk_layout(ctx, k)
            snap = snapshot(bv)
            s, e = nonneg(ctx, "start"), nonneg(ctx, "stop")
            ok, r = guarded(interp, lambda: interp.call(ByteVec.__dict__["slice"], [bv, s, e], {}))
            if not ok:
                return
            wf, types_ok = wf_facts(r)
            ctx.oblige("slice: result is well-formed and made of immutable chunks", z3.And(wf, z3.BoolVal(types_ok and r is not bv and r.chunks is not bv.chunks)))
            ctx.oblige("slice: length is max(0, stop - start)", ie(r.length) == z3.If(e.e > s.e, e.e - s.e, 0))
            ctx.oblige("slice: byte i of the result is byte start+i of the original (zero past its end)", z3.Implies(z3.And(O >= 0, O < e.e - s.e), view(r, O) == view(bv, s.e + O)))
            ctx.oblige("slice: the original is untouched", z3.BoolVal(unchanged(bv, snap)))

        out.append(Case(f"{PROP}/bytevec.ByteVec.slice", f"{k} chunk(s)", harness_slice, replay=replay_model, sources=SRC))
    return out


def value_kinds(ctx, n_expr=None):
    """values that can be written: (name, builder(ctx, length SymInt) -> (value, xview(j), length z3))"""

    def ghost_chunk(ctx, L):
        ch = mk_chunk(ctx, "x")
        ctx.assume(ch.length.e == L.e)
        return ch, (lambda j: chunk_byte(ch, j))

    def bytevec2(ctx, L):
        v = mk_layout(ctx, 2, tag="x")
        ctx.assume(ie(v.length) == L.e)
        return v, (lambda j: view(v, j))

    return {"chunk": ghost_chunk, "ByteVec of two chunks": bytevec2}


def write_cases():
    out = []
    for k in range(0, 4):
        for vname in ("symbolic byte", "concrete byte"):

            def harness_set_byte(interp, k=k, vname=vname):
                ctx = interp.ctx
                install(interp)
                bv = mk_layout(ctx, k)
                old_len = bv.length
                old = lambda o: view_frozen(o)  # noqa: E731
                ents0 = entries(bv)
                view_frozen = (lambda ents, ln: (lambda o: view(NS(chunks=SymSortedDict(ents), length=ln), o)))(list(ents0), old_len)
                off = nonneg(ctx, "offset")
                if vname == "symbolic byte":
                    val = z3.BitVec("value_byte", 8)
                    vz = z3.BV2Int(val)
                else:
                    val, vz = 0x5A, z3.IntVal(0x5A)
                ok, _ = guarded(interp, lambda: interp.call(ByteVec.__dict__["set_byte"], [bv, off, val], {}))
                if not ok:
                    return
                wf, types_ok = wf_facts(bv)
                ctx.oblige("set_byte: representation stays well-formed, elements are immutable chunks", z3.And(wf, z3.BoolVal(types_ok)))
                ctx.oblige("set_byte: length is max(len, k+1)", ie(bv.length) == z3.If(off.e + 1 > ie(old_len), off.e + 1, ie(old_len)))
                ctx.oblige("set_byte: the byte at k is the value, every other byte is unchanged, the gap is zero-filled", z3.Implies(O >= 0, view(bv, O) == z3.If(O == off.e, vz, view_frozen(O))))

            out.append(Case(f"{PROP}/bytevec.ByteVec.set_byte", f"{k} chunk(s), {vname}", harness_set_byte, replay=replay_model, sources=SRC))

        for vname, build in value_kinds(None).items():

            def harness_set_slice(interp, k=k, build=build):
                ctx = interp.ctx
                install(interp)
                bv = mk_layout(ctx, k)
                old_len = bv.length
                view_frozen = (lambda ents, ln: (lambda o: view(NS(chunks=SymSortedDict(ents), length=ln), o)))(list(entries(bv)), old_len)
                s = nonneg(ctx, "start")
                L = SymInt(z3.Int("width"))
                ctx.assume(L.e >= 1)
                e = SymInt(s.e + L.e)
                value, xview = build(ctx, L)
                vsnap = snapshot(value) if isinstance(value, ByteVec) else None
                ok, _ = guarded(interp, lambda: interp.call(ByteVec.__dict__["set_slice"], [bv, s, e, value], {}))
                if not ok:
                    return
                wf, types_ok = wf_facts(bv)
                ctx.oblige("set_slice: representation stays well-formed", wf)
                ctx.oblige("set_slice: every stored element is an immutable Chunk (never the caller's mutable ByteVec)", z3.BoolVal(types_ok), info={"types": str(sorted({type(c).__name__ for _, c in entries(bv)}))})
                ctx.oblige("set_slice: length is max(len, stop)", ie(bv.length) == z3.If(e.e > ie(old_len), e.e, ie(old_len)))
                ctx.oblige("set_slice: bytes in [start, stop) are the value's, every other byte is unchanged, a gap is zero-filled", z3.Implies(O >= 0, view(bv, O) == z3.If(z3.And(O >= s.e, O < e.e), xview(O - s.e), view_frozen(O))))
                if vsnap is not None:
                    ctx.oblige("set_slice: the value written is not modified and the target keeps a container of its own", z3.BoolVal(unchanged(value, vsnap) and bv.chunks is not value.chunks))

            out.append(Case(f"{PROP}/bytevec.ByteVec.set_slice", f"{k} chunk(s), value = {vname}", harness_set_slice, replay=replay_aliasing if vname.startswith("ByteVec") else replay_model, sources=SRC))

        for vname, build in value_kinds(None).items():

            def harness_append(interp, k=k, build=build):
                ctx = interp.ctx
                install(interp)
                bv = mk_layout(ctx, k)
                old_len = bv.length
                view_frozen = (lambda ents, ln: (lambda o: view(NS(chunks=SymSortedDict(ents), length=ln), o)))(list(entries(bv)), old_len)
                L = SymInt(z3.Int("width"))
                ctx.assume(L.e >= 1)
                value, xview = build(ctx, L)
                vsnap = snapshot(value) if isinstance(value, ByteVec) else None
                ok, _ = guarded(interp, lambda: interp.call(ByteVec.__dict__["append"], [bv, value], {}))
                if not ok:
                    return
                wf, types_ok = wf_facts(bv)
                ctx.oblige("append: representation stays well-formed, elements are immutable chunks", z3.And(wf, z3.BoolVal(types_ok)))
                ctx.oblige("append: length grows by the length of the value", ie(bv.length) == ie(old_len) + L.e)
                if isinstance(value, ByteVec):
                    ctx.oblige("append: the receiver keeps a container of its own (it never adopts the container of the ByteVec it is given), and the value is not modified", z3.BoolVal(bv.chunks is not value.chunks and unchanged(value, vsnap)))
                ctx.oblige("append: old bytes unchanged, then the value's bytes", z3.Implies(O >= 0, view(bv, O) == z3.If(O < ie(old_len), view_frozen(O), z3.If(O < ie(old_len) + L.e, xview(O - ie(old_len)), 0))))

            out.append(Case(f"{PROP}/bytevec.ByteVec.append", f"{k} chunk(s), value = {vname}", harness_append, replay=replay_append_alias, sources=SRC))

    def harness_append_empty(interp):
        ctx = interp.ctx
        install(interp)
        bv = mk_layout(ctx, 2)
        snap = snapshot(bv)
        interp.call(ByteVec.__dict__["append"], [bv, b""], {})
        interp.call(ByteVec.__dict__["append"], [bv, ByteVec()], {})
        ctx.oblige("append of nothing changes nothing (no empty chunk is stored)", z3.BoolVal(unchanged(bv, snap)))

    out.append(Case(f"{PROP}/bytevec.ByteVec.append", "empty values", harness_append_empty, sources=SRC))

    for k in range(0, 3):

        def harness_set_word(interp, k=k):
            ctx = interp.ctx
            install(interp)
            bv = mk_layout(ctx, k)
            old_len = bv.length
            view_frozen = (lambda ents, ln: (lambda o: view(NS(chunks=SymSortedDict(ents), length=ln), o)))(list(entries(bv)), old_len)
            off = nonneg(ctx, "offset")
            w = z3.BitVec("word", 256)
            ok, _ = guarded(interp, lambda: interp.call(ByteVec.__dict__["set_word"], [bv, off, w], {}))
            if not ok:
                return
            wf, types_ok = wf_facts(bv)
            ctx.oblige("set_word: representation stays well-formed", z3.And(wf, z3.BoolVal(types_ok)))
            j = O - off.e
            word_byte = z3.IntVal(0)
            for idx in range(31, -1, -1):
                word_byte = z3.If(j == idx, z3.BV2Int(z3.Extract(255 - 8 * idx, 248 - 8 * idx, w)), word_byte)
            ctx.oblige("set_word: the 32 bytes at the offset are the big-endian bytes of the word, the rest is unchanged", z3.Implies(O >= 0, view(bv, O) == z3.If(z3.And(O >= off.e, O < off.e + 32), word_byte, view_frozen(O))))

        out.append(Case(f"{PROP}/bytevec.ByteVec.set_word", f"{k} chunk(s)", harness_set_word, sources=SRC + ("halmos.bytevec:ByteVec.set_word",)))
    return out


def copy_cases():
    out = []

    def harness_copy(interp):
        ctx = interp.ctx
        bv = mk_layout(ctx, 3)
        real = ByteVec(b"\x01\x02")
        c = interp.call(ByteVec.__dict__["copy"], [real], {})
        ctx.oblige("copy: a fresh container with the same elements and length", z3.BoolVal(c is not real and c.chunks is not real.chunks and list(c.chunks.items()) == list(real.chunks.items()) and c.length == real.length))
        # symbolic layout: the copy shares only immutable chunks
        install(interp)
        snap = snapshot(bv)
        c2 = interp.call(ByteVec.__dict__["copy"], [bv], {})
        ctx.oblige("copy: same view as the original", z3.Implies(O >= 0, view(c2, O) == view(bv, O)))
        off = nonneg(ctx, "offset")
        csnap = snapshot(c2)
        interp.call(ByteVec.__dict__["set_byte"], [c2, off, 0x5A], {})
        ctx.oblige("frame: a later write to the copy does not change the original", z3.BoolVal(unchanged(bv, snap)))
        interp.call(ByteVec.__dict__["set_byte"], [bv, nonneg(ctx, "offset2"), 0x33], {})
        ctx.oblige("frame: a later write to the original does not change the copy", z3.Implies(O >= 0, view(c2, O) == z3.If(O == off.e, 0x5A, view(NS(chunks=SymSortedDict(csnap[0]), length=csnap[1]), O))))

    out.append(Case(f"{PROP}/bytevec.ByteVec.copy", "three chunks, writes on both sides", harness_copy, replay=replay_copy, sources=("halmos.bytevec:ByteVec.copy",) + SRC))

    def harness_immutable(interp):
        ctx = interp.ctx
        sf = loader.module_file("halmos.bytevec")
        bad = []
        for cls in ast.walk(sf.tree):
            if isinstance(cls, ast.ClassDef) and cls.name in ("Chunk", "ConcreteChunk", "SymbolicChunk"):
                for fn in cls.body:
                    if isinstance(fn, ast.FunctionDef) and fn.name != "__init__":
                        for n in ast.walk(fn):
                            tg = []
                            if isinstance(n, ast.Assign):
                                tg = n.targets
                            elif isinstance(n, (ast.AugAssign, ast.AnnAssign)):
                                tg = [n.target]
                            for t in tg:
                                if isinstance(t, ast.Attribute) and isinstance(t.value, ast.Name) and t.value.id == "self":
                                    bad.append(f"{cls.name}.{fn.name}: self.{t.attr}")
        ctx.oblige("chunks are immutable: no method of Chunk / ConcreteChunk / SymbolicChunk assigns a field after __init__", z3.BoolVal(not bad), info={"assignments": str(bad)[:200]})

    out.append(Case(f"{PROP}/bytevec.Chunk#immutable", "class scan", harness_immutable, sources=("halmos.bytevec:Chunk", "halmos.bytevec:ConcreteChunk", "halmos.bytevec:SymbolicChunk")))

    def harness_state(interp):
        ctx = interp.ctx
        calls = []

        class Mem:
            def slice(self, start, stop):
                calls.append(("slice", start, stop))
                return "<slice>"

            def set_slice(self, start, stop, value):
                calls.append(("set_slice", start, stop, value))

        st = object.__new__(hs.State)
        object.__setattr__(st, "memory", Mem())
        object.__setattr__(st, "stack", [])
        loc, size = nonneg(ctx, "loc"), nonneg(ctx, "size")
        ok, r = guarded(interp, lambda: interp.call(hs.State.__dict__["mslice"], [st, loc, size], {}), allowed=(OutOfGasError,))
        big = loc.e + size.e > hs.MAX_MEMORY_SIZE
        if ok:
            ctx.oblige("mslice: a read that returns stays within the memory limit", z3.Or(size.e == 0, z3.Not(big)))
            if calls:
                ctx.oblige("mslice: the range handed to the byte sequence is [loc, loc+size)", z3.And(ie(calls[0][1]) == loc.e, ie(calls[0][2]) == loc.e + size.e, z3.BoolVal(r == "<slice>" and len(calls) == 1)))
            else:
                ctx.oblige("mslice: only an empty read skips the byte sequence, and yields an empty sequence", z3.And(size.e == 0, z3.BoolVal(isinstance(r, ByteVec) and len(r) == 0)))
        elif ok is False:
            ctx.oblige("mslice: only an access beyond the memory limit is an out-of-gas halt, and it reads nothing", z3.And(big, z3.BoolVal(not calls)))
        data = NS(n=nonneg(ctx, "dlen"))
        interp.externals[("len", NS)] = lambda i, v: v.n
        calls.clear()
        ok2, _ = guarded(interp, lambda: interp.call(hs.State.__dict__["set_mslice"], [st, loc, data], {}), allowed=(OutOfGasError,))
        bigw = loc.e + data.n.e > hs.MAX_MEMORY_SIZE
        if ok2:
            if calls:
                ctx.oblige("set_mslice: writes the data at [loc, loc+len(data))", z3.And(ie(calls[0][1]) == loc.e, ie(calls[0][2]) == loc.e + data.n.e, z3.Not(bigw), z3.BoolVal(calls[0][3] is data and len(calls) == 1)))
            else:
                ctx.oblige("set_mslice: only an empty write skips the byte sequence", data.n.e == 0)
        elif ok2 is False:
            ctx.oblige("set_mslice: only a write beyond the memory limit is an out-of-gas halt, and it writes nothing", z3.And(bigw, z3.BoolVal(not calls)))

    out.append(Case(f"{PROP}/sevm.State.mslice+set_mslice", "symbolic location and size", harness_state, sources=("halmos.sevm:State.mslice", "halmos.sevm:State.set_mslice")))
    return out


# ---------------------------------------------------------------------------------------
# native replays / bounded stand-ins


def replay_aliasing(r):
    m = ByteVec(b"\x00" * 4)
    v = ByteVec(b"abcd")
    m.set_slice(0, 4, v)
    c = m.copy()
    v.set_byte(0, 0x21)
    if m.unwrap() != b"abcd" or c.unwrap() != b"abcd":
        return {"reproduced": True, "detail": f"m = ByteVec(4 zero bytes); v = ByteVec(b'abcd'); m.set_slice(0, 4, v) stored the caller's ByteVec itself; after v.set_byte(0, 0x21) the target reads {m.unwrap()!r} and a copy taken before reads {c.unwrap()!r}", "inputs": "aligned set_slice with a ByteVec value, then a write to the value"}
    return {"reproduced": False, "detail": "a write to the value after set_slice does not reach the target or its copies"}


def replay_append_alias(r):
    v = ByteVec(b"abcd")
    m = ByteVec()
    m.append(v)
    m.set_byte(0, 0x21)
    c = ByteVec(v)
    v.set_byte(1, 0x7E)
    if v.unwrap()[:1] != b"a" or c.unwrap() != b"abcd" or m.unwrap() != b"!bcd":
        return {"reproduced": True, "detail": f"v = ByteVec(b'abcd'); m = ByteVec(); m.append(v); m.set_byte(0, 0x21); c = ByteVec(v); v.set_byte(1, 0x7e): v reads {v.unwrap()!r} (expected b'a~cd'), m reads {m.unwrap()!r} (expected b'!bcd'), c reads {c.unwrap()!r} (expected b'abcd'): an empty receiver adopted the argument's chunk container", "inputs": "append of a ByteVec to an empty ByteVec, then writes on both"}
    return replay_model(r)


def replay_copy(r):
    m = ByteVec(b"abcd")
    c = m.copy()
    c.set_byte(0, 0x21)
    m.set_byte(3, 0x7E)
    if m.unwrap() != b"abc~" or c.unwrap() != b"!bcd":
        return {"reproduced": True, "detail": f"m = ByteVec(b'abcd'); c = m.copy(); c.set_byte(0, 0x21); m.set_byte(3, 0x7e): m reads {m.unwrap()!r} (expected b'abc~'), c reads {c.unwrap()!r} (expected b'!bcd')", "inputs": "copy, then one write on each side"}
    return replay_aliasing(r)


def model_run(seed, steps, maxlen=96):
    """random operation sequence on a real ByteVec against a bytearray model; returns a witness or None"""
    rnd = random.Random(seed)
    bv = ByteVec()
    model = bytearray()
    copies = []
    log = []
    for _ in range(steps):
        op = rnd.choice(["set_byte", "set_slice", "set_slice_bv", "append", "slice", "get_byte", "copy", "set_word", "get_word", "unwrap"])
        if op == "set_byte":
            k, v = rnd.randrange(maxlen), rnd.randrange(256)
            bv.set_byte(k, v)
            if k >= len(model):
                model.extend(b"\x00" * (k - len(model) + 1))
            model[k] = v
            log.append((op, k, v))
        elif op in ("set_slice", "set_slice_bv"):
            s = rnd.randrange(maxlen)
            n = rnd.randrange(1, 24)
            data = bytes(rnd.randrange(256) for _ in range(n))
            if op == "set_slice_bv":
                cut = rnd.randrange(0, n + 1)
                val = ByteVec(data[:cut])
                val.append(data[cut:])
            else:
                val = data
            bv.set_slice(s, s + n, val)
            if s + n > len(model):
                model.extend(b"\x00" * (s + n - len(model)))
            model[s : s + n] = data
            log.append((op, s, n))
            if op == "set_slice_bv" and len(val):
                val.set_byte(0, (data[0] + 1) % 256)  # the caller goes on using its value
        elif op == "append":
            data = bytes(rnd.randrange(256) for _ in range(rnd.randrange(0, 9)))
            bv.append(data)
            model.extend(data)
            log.append((op, len(data)))
        elif op == "slice":
            s, e = rnd.randrange(maxlen + 8), rnd.randrange(maxlen + 8)
            got = bv.slice(s, e).unwrap()
            want = bytes(model[s:e]).ljust(max(0, e - s), b"\x00") if e > s else b""
            if got != want:
                return {"witness": f"seed {seed}: {log} then slice({s},{e})", "detail": f"got {got!r}, flat array gives {want!r}"}
        elif op == "get_byte":
            k = rnd.randrange(maxlen + 8)
            got = bv.get_byte(k)
            want = model[k] if k < len(model) else 0
            if got != want:
                return {"witness": f"seed {seed}: {log} then get_byte({k})", "detail": f"got {got!r}, flat array gives {want}"}
        elif op == "copy":
            copies.append((bv.copy(), bytes(model)))
        elif op == "set_word":
            k, w = rnd.randrange(maxlen), rnd.getrandbits(256)
            bv.set_word(k, w)
            if k + 32 > len(model):
                model.extend(b"\x00" * (k + 32 - len(model)))
            model[k : k + 32] = w.to_bytes(32, "big")
            log.append((op, k))
        elif op == "get_word":
            k = rnd.randrange(maxlen + 8)
            got = bv.get_word(k)
            want = int.from_bytes(bytes(model[k : k + 32]).ljust(32, b"\x00"), "big")
            if got != want:
                return {"witness": f"seed {seed}: {log} then get_word({k})", "detail": f"got {got!r}, flat array gives {want}"}
        else:
            got = bv.unwrap()
            if got != bytes(model) or len(bv) != len(model):
                return {"witness": f"seed {seed}: {log} then unwrap()", "detail": f"got {got!r} (len {len(bv)}), flat array is {bytes(model)!r}"}
        for c, snap in copies:
            if c.unwrap() != snap:
                return {"witness": f"seed {seed}: {log}", "detail": f"a copy taken earlier changed: {c.unwrap()!r} != {snap!r}"}
    return None


def replay_model(r):
    for seed in range(200):
        try:
            w = model_run(seed, 40)
        except Exception as e:  # an internal exception of the real code on a legal operation sequence
            w = {"witness": f"seed {seed} (random operation sequence, see model_run)", "detail": f"the real ByteVec raised {type(e).__name__}: {e}"}
        if w:
            return {"reproduced": True, "detail": f"{w['detail']} after {w['witness']}", "inputs": w["witness"]}
    return {"reproduced": False, "detail": "real ByteVec agrees with a flat zero-extended bytearray on 200 random operation sequences"}


def _bounded_model(tier, seed):
    n = 300 if tier == "quick" else 5000
    fails = []
    for s in range(n):
        try:
            w = model_run(seed * 100003 + s, 60)
        except Exception as e:
            w = {"witness": f"seed {seed * 100003 + s}", "detail": f"the real ByteVec raised {type(e).__name__}: {e}"}
        if w:
            fails.append(w)
            break
    return {"tool": "native differential testing of the real ByteVec against a bytearray model (writes, appends, slices, words, copies, unwrap; concrete contents)", "bound": f"{n} random sequences of 60 operations, offsets < 104", "cases": n, "failures": fails}


# ---------------------------------------------------------------------------------------
# the chunk contract (both chunk classes): a chunk is a window into immutable backing data


def chunk_contract_cases():
    out = []

    def harness_concrete_slice(interp):
        ctx = interp.ctx
        ch = mk_chunk(ctx, "c")
        ch.length = SymInt(z3.Int("c_len0"))
        ctx.assume(z3.And(ch.length.e >= 0, ch.start.e + ch.length.e <= ch.data.n.e))
        a, b = nonneg(ctx, "a"), nonneg(ctx, "b")
        ctx.assume(z3.And(a.e <= b.e, b.e <= ch.length.e))
        ok, r = guarded(interp, lambda: interp.call(ConcreteChunk.__dict__["slice"], [ch, a, b], {}))
        if ok:
            ctx.oblige("ConcreteChunk.slice(a, b) is the window [start+a, start+b) of the same backing data", z3.And(z3.BoolVal(type(r) is ConcreteChunk and r.data is ch.data), ie(r.start) == ch.start.e + a.e, ie(r.length) == b.e - a.e))
        off = nonneg(ctx, "off")
        ok, g = guarded(interp, lambda: interp.call(ConcreteChunk.__dict__["get_byte"], [ch, off], {}), allowed=(IndexError,))
        if ok:
            ctx.oblige("ConcreteChunk.get_byte(k) is byte start+k of the backing data, only for k < length", z3.And(off.e < ch.length.e, ie(g) == ch.data.byte_expr(ch.start.e + off.e)))
        elif ok is False:
            ctx.oblige("ConcreteChunk.get_byte raises IndexError only out of range", off.e >= ch.length.e)

    out.append(Case(f"{PROP}/bytevec.ConcreteChunk#window", "slice and get_byte, symbolic window", harness_concrete_slice, sources=("halmos.bytevec:ConcreteChunk.slice", "halmos.bytevec:ConcreteChunk.get_byte", "halmos.bytevec:ConcreteChunk.__init__")))

    def harness_symbolic_slice(interp):
        ctx = interp.ctx
        N = 16
        d = z3.BitVec("sdata", 8 * N)
        ch = object.__new__(SymbolicChunk)
        ch.data, ch.data_byte_length = d, N
        ch.start, ch.length = nonneg(ctx, "s_start"), nonneg(ctx, "s_len")
        ctx.assume(ch.start.e + ch.length.e <= N)
        a, b = nonneg(ctx, "a"), nonneg(ctx, "b")
        ctx.assume(z3.And(a.e <= b.e, b.e <= ch.length.e))
        ok, r = guarded(interp, lambda: interp.call(SymbolicChunk.__dict__["slice"], [ch, a, b], {}))
        if ok:
            ctx.oblige("SymbolicChunk.slice(a, b) is the window [start+a, start+b) of the same backing term", z3.And(z3.BoolVal(type(r) is SymbolicChunk and r.data is d), ie(r.start) == ch.start.e + a.e, ie(r.length) == b.e - a.e))

    out.append(Case(f"{PROP}/bytevec.SymbolicChunk#window", "slice, symbolic window", harness_symbolic_slice, replay=replay_symbolic_reslice, sources=("halmos.bytevec:SymbolicChunk.slice", "halmos.bytevec:SymbolicChunk.__init__")))

    def harness_symbolic_read(interp):
        ctx = interp.ctx
        N = 5
        d = z3.BitVec("sdata", 8 * N)

        def byte(k):
            return z3.Extract(8 * (N - k) - 1, 8 * (N - k - 1), d)

        for st in range(N + 1):
            for ln in range(N - st + 1):
                ch = SymbolicChunk(d, st, ln)
                for k in range(ln):
                    g = interp.call(SymbolicChunk.__dict__["get_byte"], [ch, k], {})
                    ctx.oblige(f"SymbolicChunk.get_byte[window {st}+{ln}, offset {k}] is byte start+k of the backing term", g == byte(st + k))
                try:
                    interp.call(SymbolicChunk.__dict__["get_byte"], [ch, ln], {})
                    oob = False
                except IndexError:
                    oob = True
                ctx.oblige(f"SymbolicChunk.get_byte[window {st}+{ln}] raises IndexError at offset = length", z3.BoolVal(oob))
                if ln:
                    u = interp.call(SymbolicChunk.__dict__["unwrap"], [ch], {})
                    want = z3.Concat(*[byte(st + k) for k in range(ln)]) if ln > 1 else byte(st)
                    ctx.oblige(f"SymbolicChunk.unwrap[window {st}+{ln}] is the big-endian concatenation of the window's bytes", z3.BoolVal(z3.is_bv(u) and u.size() == 8 * ln) if not (z3.is_bv(u) and u.size() == 8 * ln) else u == want)

    out.append(Case(f"{PROP}/bytevec.SymbolicChunk#window", "get_byte and unwrap, every window of a 5-byte term", harness_symbolic_read, replay=replay_symbolic_reslice, sources=("halmos.bytevec:SymbolicChunk.get_byte", "halmos.bytevec:SymbolicChunk.unwrap")))


    def harness_concretize(interp):
        """Chunk.concretize: substituting symbols does not move the window: byte k of the result is byte start+k of the
        substituted backing term, length unchanged (full and partial substitutions, every window of a 5-byte term)"""
        ctx = interp.ctx
        N = 5
        hi, lo = z3.BitVec("hi", 16), z3.BitVec("lo", 24)
        d = z3.Concat(hi, lo)
        V_hi, V_lo = z3.BitVecVal(0xA1B2, 16), z3.BitVecVal(0xC3D4E5, 24)
        full = {hi: V_hi, lo: V_lo}
        partial = {hi: V_hi}
        conc = {}
        for name, sub in (("every symbol fixed", full), ("some symbols fixed", partial), ("nothing to substitute", {z3.BitVec("other", 8): z3.BitVecVal(1, 8)})):
            want_term = z3.simplify(z3.substitute(d, *sub.items()))
            for st in range(N + 1):
                for ln in range(1, N - st + 1):
                    ch = SymbolicChunk(d, st, ln)
                    r = interp.call(Chunk.__dict__["concretize"], [ch, sub], {})
                    okk = isinstance(r, Chunk) and len(r) == ln
                    ctx.oblige(f"concretize[{name}; window {st}+{ln}]: a chunk of the same length", z3.BoolVal(okk), info={"len": len(r) if isinstance(r, Chunk) else -1})
                    if not okk:
                        continue
                    for k in range(ln):
                        want = z3.Extract(8 * (N - st - k) - 1, 8 * (N - st - k - 1), want_term)
                        got = r.get_byte(k)
                        got = z3.BitVecVal(got, 8) if isinstance(got, int) else got
                        ctx.oblige(f"concretize[{name}; window {st}+{ln}]: byte {k} is byte start+k of the substituted data", got == want)

    out.append(Case(f"{PROP}/bytevec.Chunk.concretize", "every window of a 5-byte term", harness_concretize, replay=replay_concretize_window, sources=("halmos.bytevec:Chunk.concretize",)))

    # State.__deepcopy__: the copy owns a copy of the memory and a copy of the stack, for every memory (also an empty one)
    for label in ("empty memory", "one chunk", "two chunks"):

        def harness_state_copy(interp, label=label):
            import copy

            ctx = interp.ctx
            mem = ByteVec()
            if label != "empty memory":
                mem.append(b"\x01\x02")
            if label == "two chunks":
                mem.append(z3.BitVec("w", 256))
            st = hs.State(stack=[1, 2, 3], memory=mem)
            new = interp.call(hs.State.__dict__["__deepcopy__"], [st, {}], {})
            ctx.oblige("the copy of a state owns its own memory container (also when the memory is still empty)", z3.BoolVal(new.memory is not mem and new.memory.chunks is not mem.chunks))
            ctx.oblige("the copy has the same memory contents and length", z3.BoolVal(list(new.memory.chunks.items()) == list(mem.chunks.items()) and new.memory.length == mem.length))
            ctx.oblige("the copy owns its own stack with the same items", z3.BoolVal(new.stack is not st.stack and new.stack == st.stack and new is not st))

        out.append(Case(f"{PROP}/sevm.State.__deepcopy__", label, harness_state_copy, replay=replay_state_copy, sources=("halmos.sevm:State.__deepcopy__",)))
    return out


def replay_state_copy(r):
    import copy

    st = hs.State()
    new = copy.deepcopy(st)
    new.memory.set_word(0, 0xAA)
    if len(st.memory) != 0:
        return {"reproduced": True, "detail": f"st = State() (empty memory); c = deepcopy(st); c.memory.set_word(0, 0xaa): the original's memory now has length {len(st.memory)} and reads {st.memory.get_word(0):#x} at 0 (a fork or call-return copy taken before the first memory write aliases the original)", "inputs": "deepcopy of a State with empty memory, then a write to the copy"}
    return {"reproduced": False, "detail": "a write to the copy of an empty-memory state does not reach the original"}


def replay_concretize_window(r):
    p = z3.BitVec("p", 256)
    V = z3.BitVecVal(int.from_bytes(bytes(range(1, 33)), "big"), 256)
    cd = ByteVec(b"\xaa\xbb\xcc\xdd")
    cd.append(p)
    got = cd.slice(20, 28).concretize({p: V})
    want = bytes(range(1, 33))[16:24]
    if len(got) != 8 or got.unwrap() != want:
        return {"reproduced": True, "detail": f"calldata = selector ++ p, path condition p == 0x0102..20: calldata.slice(20, 28).concretize(p := V) has length {len(got)} and reads {got.unwrap()!r}; the flat array gives the 8 bytes {want!r}", "inputs": "slice(20, 28) of a symbolic word, concretized"}
    return {"reproduced": False, "detail": "a concretized slice keeps its window"}


def replay_symbolic_reslice(r):
    x = z3.BitVec("x", 256)
    m = ByteVec()
    m.set_word(0, x)
    m.set_byte(4, 0xAA)
    m.set_byte(10, 0xBB)
    got = m.get_byte(7)
    want = z3.Extract(255 - 8 * 7, 248 - 8 * 7, x)
    s_ = z3.Solver()
    s_.add(got != want if z3.is_expr(got) else z3.BoolVal(True))
    if s_.check() == z3.sat:
        return {"reproduced": True, "detail": f"MSTORE(0, x); MSTORE8(4, 0xaa); MSTORE8(10, 0xbb): byte 7 reads {got}, the flat array has byte 7 of x ({want})", "inputs": "set_word(0, x); set_byte(4, 0xaa); set_byte(10, 0xbb); get_byte(7)"}
    return {"reproduced": False, "detail": "twice-split symbolic word reads the right bytes"}


def replay_setitem_stop0(r):
    bv = ByteVec(b"abcdef")
    try:
        bv[0:0] = b""
    except Exception as e:  # noqa
        return {"reproduced": True, "detail": f"bv = ByteVec(b'abcdef'); bv[0:0] = b'' raises {type(e).__name__}: {e} (the empty write at offset 0 is a no-op on a flat byte array)", "inputs": "bv[0:0] = b''"}
    ok = bv.unwrap() == b"abcdef" and bv[0:0].unwrap() == b""
    return {"reproduced": not ok, "detail": f"bv[0:0] = b'' leaves {bv.unwrap()!r}"}


def subscript_cases():
    """the subscript forms are the named operations with python's slice defaults: a missing bound is 0 / the length, a bound that
    IS given (0 included) is taken as given"""
    out = []

    def harness(interp):
        ctx = interp.ctx
        for a in (None, 0, 2, 6):
            for b in (None, 0, 2, 6):
                bv = ByteVec(b"abcdef")
                seen = []
                interp.contracts["halmos.bytevec:ByteVec.set_slice"] = lambda i, args, kw: seen.append(tuple(args[1:]) + tuple(kw.values()))
                interp.contracts["halmos.bytevec:ByteVec.slice"] = lambda i, args, kw: seen.append(tuple(args[1:]) + tuple(kw.values()))
                val = b"xy"
                want = (0 if a is None else a, 6 if b is None else b)
                interp.call(ByteVec.__dict__["__setitem__"], [bv, slice(a, b), val], {})
                ctx.oblige(f"bv[{a}:{b}] = v is set_slice({want[0]}, {want[1]}, v)", z3.BoolVal(len(seen) == 1 and seen[0][:2] == want and seen[0][2] is val), info={"seen": str(seen)})
                seen.clear()
                if want[0] <= want[1]:
                    interp.call(ByteVec.__dict__["__getitem__"], [bv, slice(a, b)], {})
                    ctx.oblige(f"bv[{a}:{b}] is slice({want[0]}, {want[1]})", z3.BoolVal(len(seen) == 1 and seen[0][:2] == want), info={"seen": str(seen)})

    out.append(Case(f"{PROP}/bytevec.ByteVec.__setitem__", "every combination of missing / zero / inner / end bounds on a 6-byte sequence", harness, replay=replay_setitem_stop0, sources=("halmos.bytevec:ByteVec.__setitem__", "halmos.bytevec:ByteVec.__getitem__")))
    return out


def code_window_ref():
    """code is one of the byte sequences: a Contract built over a chunk window reads the window's bytes and zeros past its end (C19's unit)"""
    from contracts import c19
    from contracts.common import rewrap

    from contracts import c01

    return rewrap(PROP, c19.init_cases() + c19.decode_cases(), "code-is-the-window") + rewrap(PROP, c01.memory_cases(), "calldata-reads-zero-past-its-end", lambda c: c.unit.endswith("#CALLDATACOPY"))


def build_cases(tier="quick"):
    return code_window_ref() + subscript_cases() + read_cases() + write_cases() + copy_cases() + chunk_contract_cases()


def bounded():
    return [Bounded("differential bytearray model", _bounded_model)]


ASSUMPTIONS = [
    "pyvc (VC generator, Python-subset semantics) is trusted",
    "BOUNDED IN THE NUMBER OF CHUNKS: target layouts have 0..3 chunks and ByteVec values 2 chunks; chunk lengths, window positions, offsets and contents are universally quantified (symbolic), so the proofs are unbounded in sizes but not in the number of chunks. Layouts with more chunks are covered by the bounded differential stand-in only",
    "sortedcontainers.SortedDict is replaced by the ghost SymSortedDict implementing its documented contract (bisect_right, peekitem, sliceable keys/items/values views whose slices are copies, item assignment/deletion, copy); SortedDict itself is trusted",
    "chunks are windows into immutable ghost byte strings (ConcreteChunk over bytes); SymbolicChunk is exercised by set_byte / set_word (bit-vector data of 1 and 32 bytes) and by the bounded stand-in; unwrap / get_word / concretize build python bytes or z3 concatenations and are covered by the bounded stand-in only",
    "writes past MAX_MEMORY_SIZE are excluded by State.mslice/set_mslice (proved) before they reach the byte sequence",
]
TRUSTED = ["pyvc (this repository's verifier) incl. the ghost SymSortedDict", "z3 4.12.6 (LIA + UF)"]
TECHNIQUE = "abstract-view contracts (len, pointwise view) proved by executing the real AST on symbolic chunk layouts (ghost sorted container with symbolic keys, ghost byte strings), quantifier-free LIA+UF VCs in one arbitrary offset; syntactic immutability frame; bounded differential stand-in"
