"""C19 — bytecode decoding and jump-destination validity follow the EVM.

Units under contract (bodies from the AST of /repo/src/halmos/contract.py on every run):
  insn_len                      result = N(0, w) for every 0 <= w <= 255           (full domain)
  Contract.__get_jumpdests      loop invariant against the Yellow-Paper D_J (unbounded code length,
                                arbitrary bytes): pointwise in an arbitrary offset o
                                    o in D_J(c,0)  <=>  o in jumpdests  or  o in D_J(c,pc)
                                with D_J an uninterpreted predicate unfolded once at pc
  Contract.valid_jumpdests      returns (and caches) exactly what __get_jumpdests returns
  Contract.decode_instruction   pc >= len(code) decodes as STOP; negative pc is rejected

`_fastcode` / `_code` are replaced by ghost byte sequences (length = symbolic integer, byte k =
code(k) through an uninterpreted function, `is_int(k)` says whether byte k is concrete): this is the
contract of `bytes.__getitem__/__len__` and the assumed contract of `ByteVec.__getitem__/__len__`
(C07) — flat byte array view.  The Contract invariant "_fastcode is the concrete first chunk of
_code" appears as: both read the same code(k), and k < len(_fastcode) => is_int(k).

Bounded stand-in (never counted as proved): PUSH operand decoding, slices, STOP past the end and the
jumpdest set, natively on the real Contract for every byte string up to a length bound over a reduced
alphabet, with every concrete-prefix/symbolic-suffix split, against specs/dj.py.
"""
from __future__ import annotations

import ast
import itertools
import random

import z3

from pyvc import loader
from pyvc.interp import BreakSig, ContinueSig, PathEnd
from pyvc.pack import Bounded, Case
from pyvc.sym import SymBool, SymInt, iexpr
from specs import dj

loader.import_repo()
import halmos.contract as hc  # noqa: E402
from halmos.bytevec import ByteVec  # noqa: E402

PROP = "C19"
CODE = z3.Function("code", z3.IntSort(), z3.IntSort())
ISINT = z3.Function("is_int", z3.IntSort(), z3.BoolSort())
INDJ = z3.Function("in_D_J", z3.IntSort(), z3.IntSort(), z3.BoolSort())  # in_D_J(i, o): o in D_J(c, i)
O = z3.Int("o")
NC = z3.Int("len_code")
NF = z3.Int("len_fastcode")


def N_spec(i, w):
    return z3.If(z3.And(w >= dj.PUSH1, w <= dj.PUSH32), i + w - dj.PUSH1 + 2, i + 1)


def unfold(i):
    """defining equation of D_J at position i (Yellow Paper 9.4.3), for the fixed offset o"""
    w = CODE(i)
    nxt = N_spec(i, w)
    return INDJ(i, O) == z3.If(i >= NC, False, z3.If(w == dj.JUMPDEST, z3.Or(O == i, INDJ(nxt, O)), INDJ(nxt, O)))


class GhostBytes:
    """abstract byte sequence: length n, byte k = code(k); all_int: every byte is a concrete int"""

    def __init__(self, n, all_int, tag):
        self.n = n
        self.all_int = all_int
        self.tag = tag

    def __bool__(self):  # harness assumes n > 0
        return True


class GhostSet:
    def __init__(self):
        self.arr = z3.K(z3.IntSort(), False)

    def add(self, x):  # replaced by the external below
        raise NotImplementedError


def _ghost_len(interp, v):
    return v.n


def _ghost_getitem(interp, obj, k):
    if isinstance(k, slice):
        from pyvc.sym import Unmodelled

        raise Unmodelled("slice of ghost bytes")
    ki = iexpr(k)
    inb = interp.truth(SymBool(z3.And(ki >= 0, ki < iexpr(obj.n))))
    if not inb:
        raise IndexError("index out of range")
    if obj.all_int or interp.truth(SymBool(ISINT(ki))):
        interp.ctx.assume(z3.And(CODE(ki) >= 0, CODE(ki) <= 255))
        return SymInt(CODE(ki))
    return z3.BitVec(interp.ctx.fresh("symbolic_byte"), 8)


def _ghost_set(interp, *a):
    assert not a
    return GhostSet()


def _ghost_add(interp, s, x):
    s.arr = z3.Store(s.arr, iexpr(x), True)


EXTERNALS = {("len", GhostBytes): _ghost_len, ("getitem", GhostBytes): _ghost_getitem, set: _ghost_set, GhostSet.add: _ghost_add}

GET_JD = hc.Contract.__dict__["_Contract__get_jumpdests"]
QUAL_JD = "halmos.contract:Contract.__get_jumpdests"


def _while_lines():
    sf, node = loader.func_node(GET_JD)
    ws = [n for n in ast.walk(node) if isinstance(n, ast.While)]
    if len(ws) != 1:
        raise loader.BindingError(f"expected exactly one while loop in Contract.__get_jumpdests, found {len(ws)}")
    return ws[0].lineno


def inv(pc, S):
    return z3.And(pc >= 0, INDJ(0, O) == z3.Or(z3.Select(S.arr, O), INDJ(pc, O)))


def while_spec(interp, s, env):
    """invariant rule for the scanning loop: (1) the invariant holds on entry; (2) from an
    arbitrary state satisfying it and the loop test, one execution of the real body re-establishes
    it (or leaves through `break` with the state untouched); (3) after the loop: invariant and
    negated test.  Modified variables: pc, jumpdests."""
    ctx = interp.ctx
    S = env.lookup("jumpdests")
    if type(S) is not GhostSet:
        raise loader.BindingError("jumpdests is not built by set()")
    pc0 = env.lookup("pc")
    ctx.oblige("loop-invariant/entry", inv(iexpr(pc0), S))
    which = ctx.choose(2, "loop")
    pc = SymInt(z3.Int(ctx.fresh("pc")))
    S.arr = z3.Array(ctx.fresh("jumpdests"), z3.IntSort(), z3.BoolSort())
    env.store("pc", pc)
    ctx.assume(inv(pc.e, S))
    ctx.assume(unfold(pc.e))
    if which == 0:
        if not interp.truth(interp.eval(s.test, env)):
            raise PathEnd("")
        pre_pc = pc.e
        try:
            interp.exec_block(s.body, env)
        except BreakSig:
            # left through break: the state must be the one the iteration started from
            ctx.oblige("loop-break/state-unchanged", z3.And(iexpr(env.lookup("pc")) == pre_pc))
            return
        except ContinueSig:
            pass
        new_pc = iexpr(env.lookup("pc"))
        ctx.oblige("loop-variant/pc-increases", new_pc > pre_pc)
        ctx.assume(unfold(new_pc))
        ctx.oblige("loop-invariant/preserved", inv(new_pc, env.lookup("jumpdests")))
        ctx.cover("cover/loop-body")
        raise PathEnd("")
    if interp.truth(interp.eval(s.test, env)):
        raise PathEnd("")
    return


def mk_contract(ctx, shape):
    c = object.__new__(hc.Contract)
    c._jumpdests = None
    c.contract_name = c.filename = c.source_map = None
    ctx.assume(unfold(z3.IntVal(0)))
    if shape == "empty":
        c._code = ByteVec()
        c._fastcode = None
        c._insn = []
        ctx.assume(NC == 0)
        return c
    ctx.assume(NC > 0)
    if shape == "prefix+concrete":
        ctx.assume(z3.And(NF > 0, NF <= NC))
        c._fastcode = GhostBytes(SymInt(NF), True, "fast")
        c._code = GhostBytes(SymInt(NC), True, "code")
    elif shape == "prefix+mixed":
        ctx.assume(z3.And(NF > 0, NF <= NC))
        c._fastcode = GhostBytes(SymInt(NF), True, "fast")
        c._code = GhostBytes(SymInt(NC), False, "code")
        k = z3.Int("k")
        ctx.assume(z3.ForAll([k], z3.Implies(z3.And(k >= 0, k < NF), ISINT(k))))
    elif shape == "symbolic-first":
        c._fastcode = None
        c._code = GhostBytes(SymInt(NC), False, "code")
        ctx.assume(z3.Not(ISINT(0)))
    else:
        raise ValueError(shape)
    return c


def jumpdest_cases():
    line = _while_lines()
    out = []
    for shape in ("empty", "prefix+concrete", "prefix+mixed", "symbolic-first"):

        def harness(interp, shape=shape):
            ctx = interp.ctx
            c = mk_contract(ctx, shape)
            try:
                r = interp.call(GET_JD, [c], {})
            except PathEnd:
                raise
            except BaseException as e:
                from pyvc.interp import _ENGINE

                if isinstance(e, _ENGINE):
                    raise
                ctx.oblige(f"no-exception[{type(e).__name__}]", z3.BoolVal(False), info={"msg": str(e)[:200]})
                return
            if type(r) is GhostSet:
                member = z3.Select(r.arr, O)
            else:
                ctx.oblige("result-is-a-set", z3.BoolVal(isinstance(r, set)))
                member = z3.Or(*[O == x for x in r]) if r else z3.BoolVal(False)
            # never a destination that the EVM rejects (inside PUSH data / not a JUMPDEST)
            ctx.oblige("jumpdests-subset-of-D_J", z3.Implies(member, INDJ(0, O)))
            if shape in ("empty", "prefix+concrete"):
                # fully concrete code: never rejects a genuine JUMPDEST either
                ctx.oblige("D_J-subset-of-jumpdests", z3.Implies(INDJ(0, O), member))

        out.append(
            Case(
                f"{PROP}/contract.Contract.__get_jumpdests",
                shape,
                harness,
                externals=EXTERNALS,
                loop_specs={(QUAL_JD, line): while_spec},
                sources=("halmos.contract:Contract.__get_jumpdests", "halmos.contract:insn_len"),
                replay=replay_jumpdests,
            )
        )
    return out


def replay_jumpdests(r):
    """the verifier's model talks about an unbounded code through uninterpreted functions; the
    replay searches small concrete codes natively for a disagreement with the reference"""
    alphabet = [0x00, 0x5B, 0x5F, 0x60, 0x61, 0x7F, 0x80]
    for n in range(0, 6):
        for t in itertools.product(alphabet if n > 2 else range(256), repeat=n):
            code = bytes(t)
            got = hc.Contract(code).valid_jumpdests()
            if set(got) != dj.D_J(code):
                return {"reproduced": True, "detail": f"Contract({code.hex()!r}).valid_jumpdests() = {sorted(got)}, EVM D_J = {sorted(dj.D_J(code))}", "inputs": code.hex()}
    return {"reproduced": False, "detail": "no concrete code (all codes of length <= 2, length <= 5 over a reduced alphabet) disagrees with D_J"}


def insn_len_cases():
    def harness(interp):
        ctx = interp.ctx
        w = SymInt(z3.Int("w"))
        ctx.assume(z3.And(w.e >= 0, w.e <= 255))
        r = interp.call(hc.insn_len, [w], {})
        ctx.oblige("meaning", iexpr(r) == N_spec(z3.IntVal(0), w.e))

    def replay(r):
        for w in range(256):
            if hc.insn_len(w) != dj.insn_len(w):
                return {"reproduced": True, "detail": f"insn_len({w:#x}) = {hc.insn_len(w)}, EVM N(0,w) = {dj.insn_len(w)}", "inputs": w}
        return {"reproduced": False, "detail": "insn_len agrees with N(0,w) on all 256 opcodes"}

    return [Case(f"{PROP}/contract.insn_len", "w in [0,255]", harness, sources=("halmos.contract:insn_len",), replay=replay)]


def valid_jumpdests_cases():
    """valid_jumpdests returns what __get_jumpdests computes and caches it (callee by contract:
    the private scan is replaced by an opaque result)"""
    key = "halmos.contract:Contract.__get_jumpdests"

    def harness(interp):
        ctx = interp.ctx
        c = object.__new__(hc.Contract)
        c._jumpdests = None
        token = {"calls": 0}
        sentinel = GhostSet()

        def contract(i, args, kwargs):
            token["calls"] += 1
            return sentinel

        interp.contracts[key] = contract
        r1 = interp.call(hc.Contract.valid_jumpdests, [c], {})
        r2 = interp.call(hc.Contract.valid_jumpdests, [c], {})
        ctx.oblige("returns-scan-result", z3.BoolVal(r1 is sentinel and r2 is sentinel))
        ctx.oblige("scan-result-cached", z3.BoolVal(token["calls"] == 1 and c._jumpdests is sentinel))

    return [Case(f"{PROP}/contract.Contract.valid_jumpdests", "cache", harness, sources=("halmos.contract:Contract.valid_jumpdests",))]


def decode_past_end_cases():
    out = []

    def harness(interp):
        ctx = interp.ctx
        n = 3
        c = hc.Contract(b"\x60\x01\x00")
        pc = SymInt(z3.Int("pc"))
        which = ctx.choose(2 + n, "range")
        if which >= 2:
            # -len <= pc < 0: python lists take these as indices from the end, the EVM has no such pc
            k = -(which - 1)
            before = list(c._insn)
            try:
                interp.call(hc.Contract.decode_instruction, [c, k], {})
                ctx.oblige("negative-pc-rejected", z3.BoolVal(False), info={"pc": k})
            except ValueError:
                ctx.oblige("negative-pc-rejected", z3.BoolVal(True))
            ctx.oblige("negative-pc-leaves-the-instruction-cache-alone", z3.BoolVal(all(a is b for a, b in zip(before, c._insn)) and len(before) == len(c._insn)), info={"pc": k})
        elif which == 0:
            ctx.assume(pc.e >= n)
            r = interp.call(hc.Contract.decode_instruction, [c, pc], {})
            ctx.oblige("past-the-end-is-STOP", z3.BoolVal(r is hc.Instruction.STOP and r.opcode == dj.STOP))
        else:
            ctx.assume(pc.e < -n)
            try:
                interp.call(hc.Contract.decode_instruction, [c, pc], {})
                ctx.oblige("negative-pc-rejected", z3.BoolVal(False))
            except ValueError:
                ctx.oblige("negative-pc-rejected", z3.BoolVal(True))

    def replay_negative_pc(r):
        c = hc.Contract(bytes.fromhex("6001600201"))
        try:
            i = c.decode_instruction(-1)
        except ValueError:
            return {"reproduced": False, "detail": "decode_instruction(-1) raises ValueError"}
        j = c.decode_instruction(4)
        return {"reproduced": True, "detail": f"code 6001600201: decode_instruction(-1) returns {i} with pc={i.pc}, next_pc={i.next_pc}; afterwards decode_instruction(4) returns the cached object with pc={j.pc}, next_pc={j.next_pc} (a fresh Contract gives pc=4, next_pc=5)", "inputs": "decode_instruction(-1); decode_instruction(4)"}

    out.append(Case(f"{PROP}/contract.Contract.decode_instruction", "pc outside the code", harness, replay=replay_negative_pc, externals={("getitem", list): _list_getitem}, sources=("halmos.contract:Contract.decode_instruction",)))
    return out


def _list_getitem(interp, obj, k):
    """list.__getitem__ with a symbolic index: IndexError iff k >= len or k < -len"""
    from pyvc.sym import is_sym, Unmodelled

    if not is_sym(k):
        return obj[k]
    ki = iexpr(k)
    n = len(obj)
    if interp.truth(SymBool(z3.Or(ki >= n, ki < -n))):
        raise IndexError("list index out of range")
    raise Unmodelled("symbolic in-range list index")


# --------------------------------------------------------------------------------------
# instruction decoding: Contract.__getitem__, unwrapped_slice, slice, _decode_instruction
# (ghost code: the concrete prefix `_fastcode` as python bytes with python's clamping slice semantics,
#  `_code` as the flat zero-extended byte array of the C07 contract)


def byteval(k):
    """byte k of the code as the flat array sees it: 0 beyond the end"""
    return z3.If(z3.And(k >= 0, k < NC), CODE(k), 0)


def be_value(start, n):
    return z3.Sum([byteval(start + i) * (1 << (8 * (n - 1 - i))) for i in range(n)]) if n else z3.IntVal(0)


def _const_int(interp, e):
    e = z3.simplify(e)
    if z3.is_int_value(e):
        return e.as_long()
    return None


class GhostFast(GhostBytes):
    """python `bytes`: indexing raises IndexError out of range, slicing clamps to the length"""

    known = None  # (z3 index expr, concrete opcode) for the position whose byte is fixed by the case


def _ghost_fast_getitem(interp, obj, k):
    from pyvc.interp import SymBytes
    from pyvc.sym import Unmodelled

    ctx = interp.ctx
    n = iexpr(obj.n)
    if isinstance(k, slice):
        if k.step is not None or k.start is None or k.stop is None:
            raise Unmodelled("slice form")
        s, e = iexpr(k.start), iexpr(k.stop)
        if not interp.truth(SymBool(z3.And(s >= 0, e >= s))):
            raise Unmodelled("slice with negative or reversed bounds")
        if interp.truth(SymBool(e <= n)):
            ln = _const_int(interp, e - s)
        elif interp.truth(SymBool(s >= n)):
            return b""
        else:  # the slice runs over the end of the bytes object: python silently clamps it
            width = _const_int(interp, e - s)
            if width is None:
                raise Unmodelled("slice of symbolic width")
            ln = 1 + ctx.choose(width - 1, "clamped-length") if width > 1 else 0
            ctx.assume_checked(n - s == ln)
        if ln is None:
            raise Unmodelled("slice of symbolic width")
        if ln == 0:
            return b""
        for i in range(ln):
            ctx.assume(z3.And(CODE(s + i) >= 0, CODE(s + i) <= 255))
        return SymBytes(ln, SymInt(z3.Sum([CODE(s + i) * (1 << (8 * (ln - 1 - i))) for i in range(ln)])))
    ki = iexpr(k)
    if not interp.truth(SymBool(z3.And(ki >= 0, ki < n))):
        if interp.truth(SymBool(ki < 0)):
            raise Unmodelled("negative index into the concrete prefix")
        raise IndexError("index out of range")
    if obj.known is not None and z3.eq(z3.simplify(ki), z3.simplify(obj.known[0])) and obj.known[1] is not None:
        return obj.known[1]
    ctx.assume(z3.And(CODE(ki) >= 0, CODE(ki) <= 255))
    return SymInt(CODE(ki))


class GhostCode(GhostBytes):
    """the ByteVec `_code` through its C07 contract: get_byte / slice(...).unwrap() / len"""

    ghost_of = ByteVec
    known = None
    log = None

    def get_byte(self, k):
        from pyvc.interp import Interp

        interp = Interp.current
        ctx = interp.ctx
        ki = iexpr(k)
        self.log.append(("get_byte", k))
        if not interp.truth(SymBool(ki < iexpr(self.n))):
            return 0
        if self.known is not None and z3.eq(z3.simplify(ki), z3.simplify(self.known[0])) and self.known[1] is not None:
            return self.known[1]
        if self.all_int or interp.truth(SymBool(ISINT(ki))):
            ctx.assume(z3.And(CODE(ki) >= 0, CODE(ki) <= 255))
            return SymInt(CODE(ki))
        return z3.BitVec(ctx.fresh("symbolic_byte"), 8)

    def slice(self, start, stop):
        self.log.append(("slice", start, stop))
        return GhostCodeSlice(self, start, stop)


class GhostCodeSlice:
    ghost_of = ByteVec

    def __init__(self, code, start, stop):
        self.code, self.start, self.stop = code, start, stop
        self.term = None

    def unwrap(self):
        from pyvc.interp import Interp, SymBytes
        from pyvc.sym import Unmodelled

        interp = Interp.current
        ctx = interp.ctx
        s = iexpr(self.start)
        n = _const_int(interp, iexpr(self.stop) - s)
        if n is None:
            raise Unmodelled("unwrap of a code slice of symbolic width")
        if n == 0:
            return b""
        all_concrete = self.code.all_int or ctx.choose(2, "window-concrete") == 0
        if all_concrete:
            if not self.code.all_int:
                ctx.assume_checked(z3.And(*[z3.Or(s + i >= NC, ISINT(s + i)) for i in range(n)]))
            for i in range(n):
                ctx.assume(z3.And(CODE(s + i) >= 0, CODE(s + i) <= 255))
            return SymBytes(n, SymInt(be_value(s, n)))
        t = z3.BitVec(ctx.fresh(f"code_window_{n}"), 8 * n)
        self.term = t
        for i in range(n):
            ctx.assume(z3.And(CODE(s + i) >= 0, CODE(s + i) <= 255))
            ctx.assume(z3.Implies(z3.Or(s + i >= NC, ISINT(s + i)), z3.Extract(8 * (n - 1 - i) + 7, 8 * (n - 1 - i), t) == z3.Int2BV(byteval(s + i), 8)))
        return t


DECODE_EXTERNALS = {("len", GhostFast): _ghost_len, ("getitem", GhostFast): _ghost_fast_getitem, ("len", GhostCode): _ghost_len}


def mk_decode_contract(ctx, shape):
    c = object.__new__(hc.Contract)
    c._jumpdests = None
    c.contract_name = c.filename = c.source_map = None
    ctx.assume(NC > 0)
    log = []
    if shape == "concrete prefix, all concrete":
        ctx.assume(z3.And(NF > 0, NF <= NC))
        c._fastcode = GhostFast(SymInt(NF), True, "fast")
        c._code = GhostCode(SymInt(NC), True, "code")
    elif shape == "concrete prefix, symbolic bytes after it":
        ctx.assume(z3.And(NF > 0, NF <= NC))
        c._fastcode = GhostFast(SymInt(NF), True, "fast")
        c._code = GhostCode(SymInt(NC), False, "code")
        k = z3.Int("k")
        ctx.assume(z3.ForAll([k], z3.Implies(z3.And(k >= 0, k < NF), ISINT(k))))
    elif shape == "no concrete prefix":
        c._fastcode = None
        c._code = GhostCode(SymInt(NC), False, "code")
    else:
        raise ValueError(shape)
    c._code.log = log
    return c, log


DECODE_SHAPES = ("concrete prefix, all concrete", "concrete prefix, symbolic bytes after it", "no concrete prefix")


def decode_cases():
    from contracts.c06 import den_int, den_word

    out = []
    DEC = hc.Contract.__dict__["_decode_instruction"]
    for shape in DECODE_SHAPES:
        for n in range(0, 33):

            def harness(interp, shape=shape, n=n):
                ctx = interp.ctx
                c, log = mk_decode_contract(ctx, shape)
                pc = SymInt(z3.Int("pc"))
                ctx.assume(z3.And(pc.e >= 0, pc.e < NC, ISINT(pc.e)))
                if n:
                    op = 0x5F + n
                    ctx.assume(CODE(pc.e) == op)
                    known = (pc.e, op)
                else:
                    op = None
                    ctx.assume(z3.And(CODE(pc.e) >= 0, CODE(pc.e) <= 255, z3.Not(z3.And(CODE(pc.e) >= 0x60, CODE(pc.e) <= 0x7F))))
                    known = None
                if c._fastcode is not None:
                    c._fastcode.known = known
                c._code.known = known
                try:
                    insn = interp.call(DEC, [c, pc], {})
                except (PathEnd,):
                    raise
                except BaseException as e:  # noqa
                    from pyvc.interp import _ENGINE

                    if isinstance(e, _ENGINE):
                        raise
                    ctx.oblige(f"no-exception[{type(e).__name__}]", z3.BoolVal(False), info={"msg": str(e)[:200]})
                    return
                opv = insn.opcode
                ctx.oblige("decoded opcode is the code byte at pc", (iexpr(opv) == CODE(pc.e)) if not isinstance(opv, int) or n == 0 else z3.BoolVal(opv == op))
                ctx.oblige("decoded pc and next pc: pc' = pc + 1 + number of operand bytes", z3.And(iexpr(insn.pc) == pc.e, iexpr(insn.next_pc) == pc.e + 1 + n))
                if n == 0:
                    ctx.oblige("an instruction other than PUSH1..PUSH32 has no operand", z3.BoolVal(insn.operand is None))
                    return
                r = insn.operand
                ok_shape = type(r).__name__ == "HalmosBitVec" and r.size == 256
                ctx.oblige("PUSH operand is a 256-bit word", z3.BoolVal(ok_shape))
                if not ok_shape:
                    return
                iv = den_int(r)
                if iv is not None:
                    ctx.oblige(f"PUSH{n} operand = the {n} code bytes after the opcode, big-endian, zero beyond the end of the code", iv == be_value(pc.e + 1, n))
                else:
                    t = den_word(r)
                    ctx.oblige(f"PUSH{n} operand: high {256 - 8 * n} bits are zero", z3.Extract(255, 8 * n, t) == 0 if n < 32 else z3.BoolVal(True))
                    s0 = pc.e + 1
                    ctx.oblige(f"PUSH{n} operand: every concrete code byte (and the zero padding beyond the end) appears at its big-endian position", z3.And(*[z3.Implies(z3.Or(s0 + i >= NC, ISINT(s0 + i)), z3.Extract(8 * (n - 1 - i) + 7, 8 * (n - 1 - i), t) == z3.Int2BV(byteval(s0 + i), 8)) for i in range(n)]))

            out.append(Case(f"{PROP}/contract.Contract._decode_instruction", f"{shape}; " + (f"PUSH{n}" if n else "other opcode"), harness, externals=DECODE_EXTERNALS, replay=replay_decode, sources=("halmos.contract:Contract._decode_instruction", "halmos.contract:Contract.unwrapped_slice", "halmos.contract:Contract.__getitem__", "halmos.contract:insn_len")))

    # Contract.__getitem__: fast and slow path agree with the flat array
    for shape in DECODE_SHAPES:

        def harness_getitem(interp, shape=shape):
            ctx = interp.ctx
            c, log = mk_decode_contract(ctx, shape)
            k = SymInt(z3.Int("k"))
            ctx.assume(z3.And(k.e >= 0, z3.Or(k.e >= NC, ISINT(k.e))))
            r = interp.call(hc.Contract.__dict__["__getitem__"], [c, k], {})
            ctx.oblige("code[k] is byte k of the flat code array (0 beyond the end)", iexpr(r) == byteval(k.e) if not z3.is_expr(r) or z3.is_int(r) else z3.BoolVal(False))

        out.append(Case(f"{PROP}/contract.Contract.__getitem__", shape, harness_getitem, externals=DECODE_EXTERNALS, sources=("halmos.contract:Contract.__getitem__",)))

    # Contract.slice (CODECOPY): bytes [start, start+size) of the flat array
    for shape in DECODE_SHAPES[:2]:
        for size in (1, 4, 32):

            def harness_slice(interp, shape=shape, size=size):
                from halmos.exceptions import OutOfGasError

                ctx = interp.ctx
                c, log = mk_decode_contract(ctx, shape)
                start = SymInt(z3.Int("start"))
                ctx.assume(start.e >= 0)
                r = interp.call(hc.Contract.__dict__["slice"], [c, start, size], {})
                if isinstance(r, GhostCodeSlice):
                    ctx.oblige("slice (slow path) is the window [start, start+size) of the byte sequence", z3.And(iexpr(r.start) == start.e, iexpr(r.stop) == start.e + size))
                else:
                    ok = isinstance(r, ByteVec) and len(r) == size and len(r.chunks) == 1
                    ctx.oblige("slice (fast path) has exactly `size` bytes", z3.BoolVal(ok), info={"len": len(r) if isinstance(r, ByteVec) else -1})
                    if ok:
                        data = r.chunks.values()[0].data
                        from pyvc.interp import SymBytes

                        ctx.oblige("slice (fast path) holds the code bytes [start, start+size)", (data.sym.e if hasattr(data.sym, "e") else iexpr(data.sym)) == be_value(start.e, size) if type(data) is SymBytes else z3.BoolVal(False))

            out.append(Case(f"{PROP}/contract.Contract.slice", f"{shape}; size {size}", harness_slice, externals=DECODE_EXTERNALS, replay=replay_decode, sources=("halmos.contract:Contract.slice",)))
    return out


_REPLAY_DECODE = None


def replay_decode(r):
    """natively: the bounded decode stand-in searches a failing byte string for the real Contract"""
    global _REPLAY_DECODE
    if _REPLAY_DECODE is None:
        _REPLAY_DECODE = _bounded_decode("quick", 0)
    res = _REPLAY_DECODE
    if res["failures"]:
        f = res["failures"][0]
        return {"reproduced": True, "detail": f"{f.get('detail', '')} [{f.get('witness', '')}]"[:600], "inputs": str(f.get("witness", ""))[:200]}
    return {"reproduced": False, "detail": f"real Contract decodes all {res['cases']} enumerated byte strings like the reference"}


def init_cases():
    """Contract.__init__ establishes the invariant the fast paths rely on: `_fastcode` is exactly the bytes of the first
    chunk (a chunk is a *window* into its backing data) when that chunk is concrete, else None"""
    from pyvc.interp import GhostData
    from halmos.bytevec import ConcreteChunk, SymbolicChunk

    out = []
    for L in (1, 3):
        for whole in (False, True):

            def harness(interp, L=L, whole=whole):
                ctx = interp.ctx
                s0 = SymInt(z3.Int("chunk_start"))
                n = SymInt(z3.Int("data_len"))
                ctx.assume(z3.And(s0.e >= 0, s0.e + L <= n.e))
                if whole:
                    ctx.assume(z3.And(s0.e == 0, n.e == L))
                else:
                    ctx.assume(n.e > L)
                data = GhostData("backing", n)
                ch = object.__new__(ConcreteChunk)
                ch.data, ch.start, ch.length, ch.data_byte_length = data, s0, L, n
                code = ByteVec()
                code.chunks[0] = ch
                code.length = L
                c = object.__new__(hc.Contract)
                interp.call(hc.Contract.__dict__["__init__"], [c, code], {})
                f = c._fastcode
                ok = isinstance(f, GhostData)
                ctx.oblige("a code whose first chunk is concrete gets a concrete prefix", z3.BoolVal(ok and c._code is code), info={"type": type(f).__name__})
                if ok:
                    ctx.oblige("the concrete prefix has the length of the first chunk", iexpr(f.n) == L)
                    ctx.oblige("byte k of the concrete prefix is byte k of the first chunk, i.e. byte start+k of its backing data", z3.And(*[f.byte_expr(z3.IntVal(k)) == data.byte_expr(s0.e + k) for k in range(L)]))
                ctx.oblige("the decode cache has one slot per code byte and no jump destinations are cached yet", z3.BoolVal(len(c._insn) == L and all(x is None for x in c._insn) and c._jumpdests is None))

            out.append(Case(f"{PROP}/contract.Contract.__init__", f"first chunk = window of {L} byte(s) " + ("covering its whole backing data" if whole else "inside larger backing data"), harness, replay=replay_init_window, sources=("halmos.contract:Contract.__init__", "halmos.bytevec:ConcreteChunk.unwrap")))

    def harness_symbolic(interp):
        ctx = interp.ctx
        code = ByteVec(z3.BitVec("symcode", 64))
        c = object.__new__(hc.Contract)
        interp.call(hc.Contract.__dict__["__init__"], [c, code], {})
        ctx.oblige("a code that starts with symbolic bytes has no concrete prefix", z3.BoolVal(c._fastcode is None and len(c._insn) == 8))
        c2 = object.__new__(hc.Contract)
        interp.call(hc.Contract.__dict__["__init__"], [c2, ByteVec()], {})
        ctx.oblige("empty code: no concrete prefix, no decode slots", z3.BoolVal(c2._fastcode is None and c2._insn == []))

    out.append(Case(f"{PROP}/contract.Contract.__init__", "symbolic first chunk; empty code", harness_symbolic, sources=("halmos.contract:Contract.__init__",)))
    return out


def replay_init_window(r):
    big = ByteVec(bytes([0x60, 0x5B, 0x00, 0x5B, 0x01]))
    win = big.slice(2, 4)  # the two bytes 00 5b: a chunk window with start 2 inside a 5-byte buffer
    c = hc.Contract(win)
    got = [c[0], c[1]]
    dests = sorted(c.valid_jumpdests())
    if got != [0x00, 0x5B] or dests != [1]:
        return {"reproduced": True, "detail": f"Contract(ByteVec(60 5b 00 5b 01).slice(2, 4)): code bytes read as {[hex(x) if isinstance(x, int) else str(x) for x in got]} (expected 0x0, 0x5b) and valid jump destinations {dests} (expected [1])", "inputs": "Contract over a chunk window with start 2"}
    # a window that stops before the end of its buffer (memory.slice(0, n) with n < 32: CREATE init code, RETURNed code, vm.etch)
    mem = ByteVec(bytes([0x61, 0xAA, 0x5B, 0x5B, 0x00]))
    c2 = hc.Contract(mem.slice(0, 2))  # code = 61 aa: a PUSH2 with one operand byte; the EVM pads with zeros
    past = [c2[2], c2[3]]
    insn = c2.decode_instruction(0)
    operand = insn.operand
    operand = operand.unwrap() if hasattr(operand, "unwrap") else operand
    operand = int.from_bytes(operand, "big") if isinstance(operand, bytes) else operand
    dests2 = sorted(c2.valid_jumpdests())
    tail = c2.slice(0, 5).unwrap()
    tail = tail if isinstance(tail, bytes) else None
    if past != [0, 0] or operand != 0xAA00 or dests2 != [] or tail != bytes([0x61, 0xAA, 0, 0, 0]):
        return {"reproduced": True, "detail": f"Contract(ByteVec(61 aa 5b 5b 00).slice(0, 2)), i.e. the 2-byte code 61 aa: bytes past the end read as {past} (EVM: 0, 0), the truncated PUSH2 pushes {operand:#x} (EVM: 0xaa00), valid jump destinations {dests2} (EVM: none), code slice [0:5] = {tail.hex() if tail is not None else tail} (EVM: 61aa000000)", "inputs": "Contract over a chunk window that stops before the end of its buffer"}
    return {"reproduced": False, "detail": "a Contract built over a chunk window reads the window's bytes and zeros past its end"}


def replay_jumpdest_cache(r):
    """real SEVM.run with --symbolic-jump: a symbolic jump must not change which destinations of the code are valid"""
    import halmos.bitvec as hb
    from contracts.common import mk_ex, mk_sevm

    sevm = mk_sevm(symbolic_jump=True)
    # 0: PUSH1 5; 2: AND; 3: JUMP; 4: JUMPDEST; 5: JUMPDEST; 6: PUSH1 0x0a; 8: JUMP; 9: INVALID; 10: JUMPDEST; 11: STOP
    code = bytes([0x60, 5, 0x16, 0x56, 0x5B, 0x5B, 0x60, 0x0A, 0x56, 0xFE, 0x5B, 0x00])
    ex = mk_ex(sevm, code)
    ex.st.stack.append(hb.HalmosBitVec(z3.BitVec("w", 256)))
    before = sorted(ex.pgm.valid_jumpdests())
    try:
        outs = list(sevm.run(ex))
    except Exception as e:  # noqa
        return {"reproduced": None, "detail": f"replay could not run: {type(e).__name__}: {e}"}
    after = sorted(ex.pgm.valid_jumpdests())
    errs = [type(o.context.output.error).__name__ for o in outs if o.context.output.error is not None]
    if after != before or "InvalidJumpDestError" in errs and 10 in before:
        bad = [o for o in outs if type(o.context.output.error).__name__ == "InvalidJumpDestError"]
        return {"reproduced": True, "detail": f"program (w & 5) JUMP ... PUSH1 0x0a JUMP ... JUMPDEST@10 with --symbolic-jump: valid destinations of the code were {before} before the run and are {after} after it; {len(bad)} path(s) end with InvalidJumpDestError although the concrete jump to 10 is valid", "inputs": code.hex()}
    return {"reproduced": False, "detail": "the code's valid destinations are unchanged by a symbolic jump"}


def build_cases(tier="quick"):
    # the symbolic-JUMP arm (C02 pack): successors only at valid destinations, and the shared cached destination set is not modified
    from contracts import c02

    ref = [Case(f"{PROP}/sevm.SEVM.run#JUMP-symbolic", c.case, c.harness, replay=replay_jumpdest_cache, sources=c.sources) for c in c02.symbolic_jump_cases()]
    # code slices read as zero past the end: the CODECOPY arm asks the code for the whole range (C01 contract)
    from contracts import c01

    from contracts import c09

    ref += [Case(f"{PROP}/sevm.SEVM.create#init-code", c.case, c.harness, replay=c.replay, sources=c.sources) for c in c09.create_cases()]
    ref += [Case(f"{PROP}/sevm.SEVM.run#CODECOPY", c.case, c.harness, replay=c.replay, sources=c.sources) for c in c01.memory_cases() if c.unit.endswith("#CODECOPY")]
    # ... and so does EXTCODECOPY, for an account without code the whole range is past the end (C01 contract)
    ref += [Case(f"{PROP}/sevm.SEVM.run#EXTCODECOPY", c.case, c.harness, replay=c.replay, sources=c.sources) for c in c01.ext_cases() if c.unit.endswith("#EXTCODECOPY")]
    return insn_len_cases() + jumpdest_cases() + valid_jumpdests_cases() + decode_past_end_cases() + decode_cases() + init_cases() + jump_check_cases() + ref


# --------------------------------------------------------------------------------------
# jump-destination checks in sevm.py: JUMP arm, concrete-condition JUMPI arm, SEVM.jumpi


class GhostDests:
    """ex.pgm.valid_jumpdests(): an arbitrary set of offsets (uninterpreted membership predicate)"""

    VALID = z3.Function("is_valid_jumpdest", z3.IntSort(), z3.BoolSort())

    def __init__(self):
        self.queries = 0


def _ghost_dests_contains(interp, container, item):
    container.queries += 1
    return interp.truth(SymBool(GhostDests.VALID(iexpr(item))))


def replay_jumps(r):
    """real SEVM on small programs: a jump may only continue at a JUMPDEST instruction boundary"""
    from contracts.common import CALLVALUE, mk_ex, mk_sevm
    from halmos.exceptions import InvalidJumpDestError

    def run(code):
        sevm = mk_sevm()
        outs = list(sevm.run(mk_ex(sevm, bytes(code))))
        return [(type(o.context.output.error).__name__ if o.context.output.error else "ok", o.context.output.return_scheme, [str(c) for c in o.path.conditions]) for o in outs]

    STOP, JUMP, JUMPI, JUMPDEST, PUSH1, CALLVALUE_OP, RETURN, INVALID = 0x00, 0x56, 0x57, 0x5B, 0x60, 0x34, 0xF3, 0xFE
    probs = []
    # (program, description, predicate over the outcomes)
    progs = [
        ([PUSH1, 4, JUMP, INVALID, JUMPDEST, STOP], "JUMP to a JUMPDEST", lambda o: [x[0] for x in o] == ["ok"]),
        ([PUSH1, 3, JUMP, STOP, JUMPDEST, STOP], "JUMP to a non-JUMPDEST opcode", lambda o: [x[0] for x in o] == ["InvalidJumpDestError"]),
        ([PUSH1, 1, JUMP, STOP], "JUMP into PUSH data (0x01 is the operand)", lambda o: [x[0] for x in o] == ["InvalidJumpDestError"]),
        ([PUSH1, 0x5B, PUSH1, 1, JUMP, STOP], "JUMP onto a 0x5b byte that is PUSH data", lambda o: [x[0] for x in o] == ["InvalidJumpDestError"]),
        ([PUSH1, 9, JUMP, STOP], "JUMP past the end of the code", lambda o: [x[0] for x in o] == ["InvalidJumpDestError"]),
        ([PUSH1, 1, PUSH1, 6, JUMPI, INVALID, JUMPDEST, STOP], "JUMPI (true) to a JUMPDEST", lambda o: [x[0] for x in o] == ["ok"]),
        ([PUSH1, 1, PUSH1, 5, JUMPI, STOP, JUMPDEST, STOP], "JUMPI (true) to a non-JUMPDEST", lambda o: [x[0] for x in o] == ["InvalidJumpDestError"]),
        ([PUSH1, 0, PUSH1, 5, JUMPI, STOP, JUMPDEST, STOP], "JUMPI (false) with an invalid target falls through", lambda o: [x[0] for x in o] == ["ok"]),
        ([CALLVALUE_OP, PUSH1, 5, JUMPI, STOP, JUMPDEST, STOP], "symbolic JUMPI to a JUMPDEST", lambda o: sorted(x[0] for x in o) == ["ok", "ok"]),
        ([CALLVALUE_OP, PUSH1, 4, JUMPI, STOP, JUMPDEST, STOP], "symbolic JUMPI to a non-JUMPDEST: only the jumping direction fails", lambda o: sorted(x[0] for x in o) == ["InvalidJumpDestError", "ok"] and all(x[2] for x in o)),
        ([CALLVALUE_OP, PUSH1, 2, JUMPI, STOP], "symbolic JUMPI into PUSH data", lambda o: sorted(x[0] for x in o) == ["InvalidJumpDestError", "ok"]),
        ([CALLVALUE_OP, PUSH1, 0x40, JUMPI, STOP], "symbolic JUMPI past the end", lambda o: sorted(x[0] for x in o) == ["InvalidJumpDestError", "ok"]),
    ]
    for code, desc, pred in progs:
        try:
            o = run(code)
        except Exception as e:  # noqa
            return {"reproduced": True, "detail": f"{desc}: program {bytes(code).hex()} raised {type(e).__name__}: {e}", "inputs": bytes(code).hex()}
        if not pred(o):
            return {"reproduced": True, "detail": f"{desc}: program {bytes(code).hex()} gives paths {o}", "inputs": bytes(code).hex()}
    return {"reproduced": False, "detail": "real SEVM handles the replay programs as the EVM does"}


def jump_check_cases():
    from contracts import jumpi_unit as JU
    from contracts.c06 import mk_bv, run_dispatch_chain, select_arm
    import halmos.bitvec as hb
    import halmos.sevm as hs
    from halmos.exceptions import InvalidJumpDestError
    from pyvc.interp import Env

    out = []

    # --- SEVM.jumpi (symbolic condition): every solver answer, both kinds of target
    for ct in JU.RES:
        for cf in JU.RES:

            def harness(interp, ct=ct, cf=cf):
                ctx = interp.ctx
                o = JU.observe(interp, ct, cf, "visited")
                if o is None:
                    return
                kinds = [JU.classify(o, s_, added) for s_, added in o.succ]
                jumped = [s_ for (s_, added), k in zip(o.succ, kinds) if JU.is_exactly(added[-1][0], o.c) and s_.context.output.error is None] if o.succ else []
                ctx.oblige("execution continues at the target only if it is a valid jump destination", z3.BoolVal(o.valid or not jumped))
                ctx.oblige("a genuine JUMPDEST is never rejected", z3.BoolVal(not (o.valid and (o.raised is not None or "true-error" in kinds))))
                ctx.oblige("jump continues at the JUMPDEST (or just after it)", z3.BoolVal(all(s_.pc in (JU.TARGET, JU.TARGET + 1) for s_ in jumped)))
                if not o.valid and ct != "unsat":
                    took = o.raised is not None or "true-error" in kinds or JU.JID in o.logged
                    ctx.oblige("jump to an invalid destination ends that direction with InvalidJumpDestError (unless the loop bound cut it)", z3.BoolVal(took and not jumped))

            out.append(Case(f"{PROP}/sevm.SEVM.jumpi", f"check(c)={ct},check(not c)={cf}", harness, replay=replay_jumps, sources=JU.SOURCES))

    # --- JUMP / JUMPI arms of SEVM.run with a concrete (but arbitrary) target and condition
    sf, fn, first = run_dispatch_chain()
    for opname, opcode in (("JUMP", hs.OP_JUMP), ("JUMPI", hs.OP_JUMPI)):
        conds = ("none",) if opname == "JUMP" else ("true", "false", "nonzero-word", "zero-word")
        for cnd in conds:

            def harness(interp, opname=opname, opcode=opcode, cnd=cnd):
                ctx = interp.ctx
                from contracts.common import mk_ex, mk_sevm

                sevm = mk_sevm()
                ex = mk_ex(sevm, bytes([opcode, 0]))
                state = ex.st
                marker = hb.HalmosBitVec(0xDEAD)
                state.stack.append(marker)
                if opname == "JUMPI":
                    cv = {"true": hb.HalmosBool(True), "false": hb.HalmosBool(False), "nonzero-word": None, "zero-word": hb.HalmosBitVec(0)}[cnd]
                    if cv is None:
                        cv = mk_bv(ctx, "condword", "int")
                        ctx.assume(cv._value.e != 0, cv._value.view[0] != 0)
                    state.stack.append(cv)
                target = mk_bv(ctx, "target", "int")
                state.stack.append(target)
                ex.fetch_instruction()
                dests = GhostDests()
                advanced = []

                class Pgm:
                    def valid_jumpdests(self):
                        return dests

                ex.pgm = Pgm()
                interp.contracts["halmos.sevm:Exec.advance"] = lambda i, a, k: advanced.append(k.get("pc", a[1] if len(a) > 1 else None))
                interp.externals[("contains", GhostDests)] = _ghost_dests_contains
                insn = ex.insn
                env = Env({"self": sevm, "ex": ex, "state": state, "insn": insn, "opcode": insn.opcode, "stack": hs.Worklist()}, None, hs.__dict__)
                body = select_arm(interp, first, env)
                kind, payload, _ = interp.exec_fragment(body, env, qual="halmos.sevm:SEVM.run#arm")
                tv = iexpr(target._value)
                valid = GhostDests.VALID(tv)
                falls = cnd in ("false", "zero-word")
                if falls:
                    ctx.oblige("condition zero: falls through to the next instruction, target not validated as a jump", z3.BoolVal(kind == "continue" and advanced == [insn.next_pc] and env.lookup("next_ex") is ex), info={"kind": kind, "advanced": str(advanced)})
                    return
                if kind == "raise":
                    ctx.oblige("InvalidJumpDestError only for an invalid target", z3.And(z3.BoolVal(isinstance(payload, InvalidJumpDestError)), z3.Not(valid)), info={"exc": type(payload).__name__})
                    ctx.oblige("nothing advanced when the jump fails", z3.BoolVal(advanced == []))
                    return
                ctx.oblige("jump taken: arm ends with `continue` and the same state goes on", z3.BoolVal(kind == "continue" and len(advanced) == 1 and env.lookup("next_ex") is ex), info={"kind": kind})
                ctx.oblige("jump taken only to a valid jump destination", valid)
                if len(advanced) == 1:
                    ctx.oblige("execution resumes just after the JUMPDEST", iexpr(advanced[0]) == tv + 1)
                ctx.oblige("stack: operands consumed", z3.BoolVal(state.stack == [marker]))

            out.append(Case(f"{PROP}/sevm.SEVM.run#{opname}", f"cond={cnd}", harness, replay=replay_jumps, sources=("halmos.sevm:SEVM.run",)))
    return out


# --------------------------------------------------------------------------------------
# bounded stand-in


def _bounded_decode(tier, seed):
    alphabet = [0x00, 0x01, 0x5B, 0x5F, 0x60, 0x61, 0x7F, 0xFF]
    maxlen = 4 if tier == "quick" else 5
    rnd = random.Random(seed)
    failures = []
    cases = 0
    codes = [bytes(t) for n in range(maxlen + 1) for t in itertools.product(alphabet, repeat=n)]
    for _ in range(200 if tier == "quick" else 3000):
        codes.append(bytes(rnd.choice(alphabet + [rnd.randrange(256)]) for _ in range(rnd.randrange(5, 4096 if tier != "quick" else 300))))

    def fail(w, msg):
        if len(failures) < 5:
            failures.append({"witness": w, "detail": msg})

    for code in codes:
        cases += 1
        c = hc.Contract(code)
        if set(c.valid_jumpdests()) != dj.D_J(code):
            fail(code.hex()[:80], f"valid_jumpdests {sorted(c.valid_jumpdests())[:8]} != D_J {sorted(dj.D_J(code))[:8]}")
        pcs = range(len(code) + 3) if len(code) <= 8 else [rnd.randrange(len(code) + 3) for _ in range(8)]
        for pc in pcs:
            want = dj.decode(code, pc)
            insn = hc.Contract(code).decode_instruction(pc)
            got_operand = None if insn.operand is None else insn.operand.value
            if want[0] != insn.opcode or (want[1] is not None and (got_operand != want[1] or insn.next_pc != want[2])) or (pc < len(code) and insn.next_pc != want[2]):
                fail(f"{code.hex()[:80]}@{pc}", f"decode_instruction -> ({insn.opcode:#x}, {got_operand}, {insn.next_pc}), EVM -> {want}")
            for size in (0, 1, 2, 33):
                s = c.slice(pc, size).unwrap()
                s = s if isinstance(s, bytes) else None
                if s != dj.code_slice(code, pc, size):
                    fail(f"{code.hex()[:80]}[{pc}:+{size}]", f"slice -> {s!r}, EVM -> {dj.code_slice(code, pc, size)!r}")
            b = c[pc]
            if b != (code[pc] if pc < len(code) else 0):
                fail(f"{code.hex()[:80]}[{pc}]", f"byte {b} != {code[pc] if pc < len(code) else 0}")
        # concrete prefix + symbolic suffix at every split (short codes only)
        if len(code) <= maxlen:
            for split in range(len(code) + 1):
                bv = ByteVec(code[:split])
                bv.append(z3.BitVec("sym_suffix", 16))
                m = hc.Contract(bv)
                got = set(m.valid_jumpdests())
                # spec restricted to the maximal concretely decodable prefix
                want_j, i = set(), 0
                while i < split:
                    if code[i] == dj.JUMPDEST:
                        want_j.add(i)
                    i = dj.N(i, code[i])
                cases += 1
                if got != want_j:
                    fail(f"{code[:split].hex()}+sym16", f"valid_jumpdests {sorted(got)} != {sorted(want_j)}")
    return {"tool": "native enumeration against specs/dj.py", "bound": f"all byte strings of length <= {maxlen} over {len(alphabet)} opcodes (every decoding class), random strings, every concrete/symbolic split", "cases": cases, "failures": failures}


def ground_concrete_valued_bytes():
    """the scan and the decoder agree on what a concrete byte is: a byte held as a concrete z3 value inside a symbolic chunk is
    decoded (decode_instruction) and must be scanned alike.  Exhaustive family (evaluated natively): every code of up to 5 bytes over
    {JUMPDEST, PUSH1, STOP, <symbolic byte>} in two representations (one term; a concrete first chunk followed by one term)"""
    import itertools

    from halmos.exceptions import NotConcreteError

    SYM = "sym"
    bad, n = [], 0

    def term(bs, tag):
        parts = [z3.BitVec(f"s{tag}_{k}", 8) if b is SYM else z3.BitVecVal(b, 8) for k, b in enumerate(bs)]
        return parts[0] if len(parts) == 1 else z3.Concat(*parts)

    def ref(bs):
        out, pc = set(), 0
        while pc < len(bs):
            b = bs[pc]
            if b is SYM:
                break
            if b == 0x5B:
                out.add(pc)
            pc += 2 if b == 0x60 else 1
        return out

    for ln in range(1, 6):
        for bs in itertools.product((0x5B, 0x60, 0x00, SYM), repeat=ln):
            if SYM not in bs:
                continue
            reps = [("one term", lambda: hc.Contract(term(bs, "a")))]
            if bs[0] is not SYM and ln > 1:
                reps.append(("concrete first byte + one term", lambda: hc.Contract(ByteVec([bytes([bs[0]]), term(bs[1:], "b")]))))
            for rname, mk in reps:
                n += 1
                c = mk()
                got = set(c.valid_jumpdests())
                want = ref(bs)
                # cross-check against the decoder: every position the scan should reach decodes to that opcode
                dec_ok = True
                pc = 0
                while pc < ln and bs[pc] is not SYM:
                    try:
                        dec_ok = dec_ok and c.decode_instruction(pc).opcode == bs[pc]
                    except NotConcreteError:
                        pass  # a PUSH1 whose operand is symbolic
                    pc += 2 if bs[pc] == 0x60 else 1
                if (got != want or not dec_ok) and len(bad) < 3:
                    bad.append((["sym" if b is SYM else hex(b) for b in bs], rname, sorted(got), sorted(want)))
    return [(f"valid_jumpdests = JUMPDEST bytes at instruction boundaries up to the first symbolic opcode, on all {n} codes of the family (concrete-valued bytes of symbolic chunks included)", not bad, f"first disagreement (code, representation, got, expected): {str(bad[:1])[:300]}")]


def ground_long_code():
    """nothing about decoding depends on a size limit: for codes longer than the EIP-170 deployment limit (test contracts, init code and etched
    code are not bound by it) every pc decodes to its own byte, and only a pc at or beyond the end is the implicit STOP"""
    bad = []
    for n in (0x5FFF, 0x6000, 0x6001, 0x6005, 0xC008):
        code = bytearray([0x5B] * n)
        code[-1] = 0xFE  # INVALID as the last instruction
        if n > 0x6002:
            code[0x6001] = 0x60  # PUSH1 beyond 24 KiB ...
            code[0x6002] = 0x5B  # ... whose operand is not a jump destination
        c = hc.Contract(bytes(code))
        for pc in sorted({0, 0x5FFE, 0x5FFF, 0x6000, 0x6001, 0x6003, n - 2, n - 1} & set(range(n))):
            insn = c.decode_instruction(pc)
            if insn.opcode != code[pc] or insn.pc != pc:
                bad.append((hex(n), hex(pc), insn.opcode, code[pc]))
        for pc in (n, n + 1, n + 0x6000):
            if c.decode_instruction(pc) is not hc.Instruction.STOP:
                bad.append((hex(n), hex(pc), "not STOP"))
        dests = c.valid_jumpdests()
        want = {i for i in range(n) if code[i] == 0x5B} - ({0x6002} if n > 0x6002 else set())
        if dests != want:
            bad.append((hex(n), "jumpdests differ", len(dests ^ want)))
    return [("codes longer than 24576 bytes: every pc decodes to its own byte, past-the-end is STOP, jump destinations are exact", not bad, str(bad[:3]))]


def grounds():
    from pyvc.pack import Ground

    return [Ground(f"{PROP}/contract.Contract.decode_instruction#long-code", ground_long_code, sources=("halmos.contract:Contract.__init__", "halmos.contract:Contract.decode_instruction")), Ground(f"{PROP}/contract.Contract.__get_jumpdests#concrete-valued-bytes", ground_concrete_valued_bytes, sources=("halmos.contract:Contract.__get_jumpdests", "halmos.contract:Contract._decode_instruction"))]


def bounded():
    return [Bounded("decode+slice+jumpdests enumeration", _bounded_decode)]


ASSUMPTIONS = [
    "pyvc (VC generator, Python-subset semantics of DESIGN 2.3) is trusted; path covers guard vacuity",
    "ByteVec.__getitem__/__len__ and bytes.__getitem__/__len__ are modelled by a flat byte-array view (ghost sequence): byte k = code(k), IndexError outside [0,len) for bytes; the ByteVec side of this is the C07 contract, which is not proved in this round",
    "Contract invariant `_fastcode` = concrete first chunk of `_code` is assumed in the scan proof (established by Contract.__init__, exercised only by the bounded stand-in)",
    "with symbolic bytes in the code only soundness (jumpdests subset of D_J under every valuation) is proved; completeness is proved for fully concrete code",
    "D_J is an uninterpreted predicate constrained by its Yellow-Paper defining equation at the positions the proof visits; termination of the scan is shown by the variant obligation pc' > pc",
    "PUSH operand extraction, byte reads and slices are proved on ghost code (python bytes with clamping slices for the concrete prefix, the flat zero-extended array of the C07 contract for the byte sequence; unwrap of a window returns bytes when every byte in it is concrete, else a term constrained bytewise) for every PUSH width and arbitrary pc / code length; the decode cache of decode_instruction (a python list) is not under contract; the jump checks of sevm.py (JUMP arm, concrete JUMPI arm, SEVM.jumpi) are proved against an arbitrary valid-destination set, with Exec.check / create_branch / Exec.advance used through their contracts",
]
TRUSTED = ["pyvc (this repository's verifier)", "z3 4.12.6 SMT semantics (LIA + UF + arrays)", "specs/dj.py (Yellow Paper 9.4.3 transcription)"]
