"""A concrete single-frame reference EVM, transcribed from the Yellow Paper (sections 9.4, appendix H)
and EIPs 145, 211, 1153, 3855, 5656.  Nothing here is derived from /repo.  Used for native replays
of C01 counterexamples and for the bounded differential stand-in (random programs).

Not modelled: gas (a memory access reaching beyond mem_limit is reported as out-of-gas, as a node with
a finite gas limit would; programs used for comparison keep offsets either small or astronomically
large so that the exact limit does not matter), calls and creations (programs containing them are outside this reference), logs are
collected but not compared.
"""
from __future__ import annotations

from specs.evm_word import PY

try:
    from eth_hash.auto import keccak
except Exception:  # pragma: no cover
    keccak = None

M = 1 << 256
STACK_LIMIT = 1024

OPS = {
    0x00: "STOP", 0x01: "ADD", 0x02: "MUL", 0x03: "SUB", 0x04: "DIV", 0x05: "SDIV", 0x06: "MOD", 0x07: "SMOD", 0x08: "ADDMOD", 0x09: "MULMOD", 0x0A: "EXP", 0x0B: "SIGNEXTEND",
    0x10: "LT", 0x11: "GT", 0x12: "SLT", 0x13: "SGT", 0x14: "EQ", 0x15: "ISZERO", 0x16: "AND", 0x17: "OR", 0x18: "XOR", 0x19: "NOT", 0x1A: "BYTE", 0x1B: "SHL", 0x1C: "SHR", 0x1D: "SAR",
    0x20: "SHA3", 0x30: "ADDRESS", 0x32: "ORIGIN", 0x33: "CALLER", 0x34: "CALLVALUE", 0x35: "CALLDATALOAD", 0x36: "CALLDATASIZE", 0x37: "CALLDATACOPY", 0x38: "CODESIZE", 0x39: "CODECOPY",
    0x3B: "EXTCODESIZE", 0x3C: "EXTCODECOPY", 0x3F: "EXTCODEHASH", 0x3D: "RETURNDATASIZE", 0x3E: "RETURNDATACOPY", 0x50: "POP", 0x51: "MLOAD", 0x52: "MSTORE", 0x53: "MSTORE8", 0x54: "SLOAD", 0x55: "SSTORE", 0x56: "JUMP", 0x57: "JUMPI", 0x58: "PC", 0x59: "MSIZE",
    0x5B: "JUMPDEST", 0x5C: "TLOAD", 0x5D: "TSTORE", 0x5E: "MCOPY", 0x5F: "PUSH0", 0xF3: "RETURN", 0xFD: "REVERT", 0xFE: "INVALID",
}
ARITY = {"ADD": 2, "MUL": 2, "SUB": 2, "DIV": 2, "SDIV": 2, "MOD": 2, "SMOD": 2, "ADDMOD": 3, "MULMOD": 3, "EXP": 2, "SIGNEXTEND": 2, "LT": 2, "GT": 2, "SLT": 2, "SGT": 2, "EQ": 2, "ISZERO": 1,
         "AND": 2, "OR": 2, "XOR": 2, "NOT": 1, "BYTE": 2, "SHL": 2, "SHR": 2, "SAR": 2}


class Halt(Exception):
    def __init__(self, kind, data=b""):
        self.kind, self.data = kind, data


def jumpdests(code):
    out, i = set(), 0
    while i < len(code):
        op = code[i]
        if op == 0x5B:
            out.add(i)
        i += 1 + (op - 0x5F if 0x60 <= op <= 0x7F else 0)
    return out


class Result:
    def __init__(self, kind, data, stack, memory, storage, transient, active_words, written_len, read_expanded):
        self.kind, self.data, self.stack, self.memory, self.storage, self.transient = kind, data, stack, memory, storage, transient
        self.active_words, self.written_len, self.read_expanded = active_words, written_len, read_expanded

    def __repr__(self):
        return f"Result({self.kind}, data={self.data.hex()}, storage={self.storage})"


def run(code, calldata=b"", address=0, caller=0, origin=0, value=0, storage=None, mem_limit=1 << 20, max_steps=10000):
    """returns Result; kind in {'stop','return','revert','invalid','underflow','overflow','badjump','oog','oob','steps','unsupported'}"""
    stack, mem = [], bytearray()
    storage = dict(storage or {})
    transient = {}
    active = 0  # active memory in words (reads and writes)
    read_expanded = False
    pc, steps = 0, 0
    dests = jumpdests(code)

    def pop():
        if not stack:
            raise Halt("underflow")
        return stack.pop()

    def push(v):
        if len(stack) >= STACK_LIMIT:
            raise Halt("overflow")
        stack.append(v % M)

    def touch(off, size, write):
        nonlocal active, read_expanded
        if size == 0:
            return
        if off + size > mem_limit:
            raise Halt("oog")
        words = (off + size + 31) // 32
        if words > active:
            active = words
            if not write:
                read_expanded = True
        if write and off + size > len(mem):
            mem.extend(b"\x00" * (off + size - len(mem)))

    def mread(off, size):
        touch(off, size, False)
        return bytes(mem[off : off + size]).ljust(size, b"\x00") if size else b""

    def mwrite(off, data):
        touch(off, len(data), True)
        mem[off : off + len(data)] = data

    def pad(src, off, size):
        return bytes(src[off : off + size]).ljust(size, b"\x00") if off < len(src) else b"\x00" * size

    try:
        while True:
            steps += 1
            if steps > max_steps:
                raise Halt("steps")
            op = code[pc] if pc < len(code) else 0x00
            name = OPS.get(op)
            nxt = pc + 1
            if 0x60 <= op <= 0x7F:
                n = op - 0x5F
                push(int.from_bytes(bytes(code[pc + 1 : pc + 1 + n]).ljust(n, b"\x00"), "big"))
                nxt = pc + 1 + n
            elif 0x80 <= op <= 0x8F:
                n = op - 0x7F
                if len(stack) < n:
                    raise Halt("underflow")
                push(stack[-n])
            elif 0x90 <= op <= 0x9F:
                n = op - 0x8F
                if len(stack) < n + 1:
                    raise Halt("underflow")
                stack[-1], stack[-1 - n] = stack[-1 - n], stack[-1]
            elif 0xA0 <= op <= 0xA4:
                off, size = pop(), pop()
                for _ in range(op - 0xA0):
                    pop()
                mread(off, size)  # (logs are not compared)
            elif name is None:
                raise Halt("unsupported" if op in (0x31, 0x3A, 0x40, 0x41, 0x42, 0x43, 0x44, 0x45, 0x46, 0x47, 0x48, 0x5A, 0xF0, 0xF1, 0xF2, 0xF4, 0xF5, 0xFA, 0xFF) else "invalid")
            elif name in ARITY:
                args = [pop() for _ in range(ARITY[name])]
                push(PY[name](*args))
            elif name == "STOP":
                raise Halt("stop")
            elif name == "SHA3":
                off, size = pop(), pop()
                push(int.from_bytes(keccak(mread(off, size)), "big"))
            elif name == "ADDRESS":
                push(address)
            elif name == "ORIGIN":
                push(origin)
            elif name == "CALLER":
                push(caller)
            elif name == "CALLVALUE":
                push(value)
            elif name == "CALLDATALOAD":
                off = pop()
                push(int.from_bytes(pad(calldata, off, 32), "big"))
            elif name == "CALLDATASIZE":
                push(len(calldata))
            elif name == "CALLDATACOPY":
                dst, off, size = pop(), pop(), pop()
                if size:
                    touch(dst, size, True)
                    mwrite(dst, pad(calldata, off, size))
            elif name == "CODESIZE":
                push(len(code))
            elif name == "CODECOPY":
                dst, off, size = pop(), pop(), pop()
                if size:
                    touch(dst, size, True)
                    mwrite(dst, pad(code, off, size))
            elif name == "EXTCODESIZE":
                a = pop() % (1 << 160)
                push(len(code) if a == address else 0)  # single-frame world: no other account has code
            elif name == "EXTCODECOPY":
                a, dst, off, size = pop() % (1 << 160), pop(), pop(), pop()
                if size:
                    touch(dst, size, True)
                    mwrite(dst, pad(code if a == address else b"", off, size))
            elif name == "EXTCODEHASH":
                a = pop() % (1 << 160)
                push(int.from_bytes(keccak(bytes(code)), "big") if a == address else 0)  # other accounts do not exist
            elif name == "RETURNDATASIZE":
                push(0)
            elif name == "RETURNDATACOPY":
                dst, off, size = pop(), pop(), pop()
                if off + size > 0:
                    raise Halt("oob")
            elif name == "POP":
                pop()
            elif name == "MLOAD":
                off = pop()
                push(int.from_bytes(mread(off, 32), "big"))
            elif name == "MSTORE":
                off, v = pop(), pop()
                mwrite(off, v.to_bytes(32, "big"))
            elif name == "MSTORE8":
                off, v = pop(), pop()
                mwrite(off, bytes([v & 0xFF]))
            elif name == "SLOAD":
                push(storage.get(pop(), 0))
            elif name == "SSTORE":
                k, v = pop(), pop()
                storage[k] = v
            elif name == "TLOAD":
                push(transient.get(pop(), 0))
            elif name == "TSTORE":
                k, v = pop(), pop()
                transient[k] = v
            elif name == "JUMP":
                d = pop()
                if d not in dests:
                    raise Halt("badjump")
                nxt = d
            elif name == "JUMPI":
                d, c = pop(), pop()
                if c:
                    if d not in dests:
                        raise Halt("badjump")
                    nxt = d
            elif name == "PC":
                push(pc)
            elif name == "MSIZE":
                push(active * 32)
            elif name == "JUMPDEST":
                pass
            elif name == "MCOPY":
                dst, src, size = pop(), pop(), pop()
                if size:
                    touch(src, size, False)
                    touch(dst, size, True)
                    mwrite(dst, mread(src, size))
            elif name == "PUSH0":
                push(0)
            elif name in ("RETURN", "REVERT"):
                off, size = pop(), pop()
                raise Halt(name.lower(), mread(off, size))
            elif name == "INVALID":
                raise Halt("invalid")
            else:  # pragma: no cover
                raise Halt("unsupported")
            pc = nxt
    except Halt as h:
        return Result(h.kind, h.data, stack, bytes(mem), storage, transient, active, len(mem), read_expanded)
