"""EVM word operations, transcribed from the Yellow Paper (appendix H) — three renderings of the
same table: pure Python integers (used by replay), z3 integers (int form) and SMT-LIB
bit-vectors (bv form).  Nothing here is derived from /repo.

Arguments are in *stack order* of the instruction (top of stack first).
"""
from __future__ import annotations

import z3

from pyvc.sym import POW, POW2


def M(size=256):
    return 1 << size


# ----------------------------------------------------------------------------- pure python


def to_signed(x, size=256):
    return x - (1 << size) if x >> (size - 1) else x


def py_sdiv(a, b, size=256):
    if b == 0:
        return 0
    sa, sb = to_signed(a, size), to_signed(b, size)
    q = abs(sa) // abs(sb)
    if (sa < 0) != (sb < 0):
        q = -q
    return q % M(size)


def py_smod(a, b, size=256):
    if b == 0:
        return 0
    sa, sb = to_signed(a, size), to_signed(b, size)
    r = abs(sa) % abs(sb)
    if sa < 0:
        r = -r
    return r % M(size)


def py_signextend(k, x):
    if k >= 31:
        return x
    bits = 8 * (k + 1)
    low = x & ((1 << bits) - 1)
    if low >> (bits - 1):
        return (low | (M() - (1 << bits))) % M()
    return low


def py_byte(i, x):
    if i >= 32:
        return 0
    return (x >> (8 * (31 - i))) & 0xFF


def py_sar(s, x, size=256):
    sx = to_signed(x, size)
    if s >= size:
        return (M(size) - 1) if sx < 0 else 0
    return (sx >> s) % M(size)


PY = {
    "ADD": lambda a, b, size=256: (a + b) % M(size),
    "SUB": lambda a, b, size=256: (a - b) % M(size),
    "MUL": lambda a, b, size=256: (a * b) % M(size),
    "DIV": lambda a, b, size=256: 0 if b == 0 else a // b,
    "SDIV": py_sdiv,
    "MOD": lambda a, b, size=256: 0 if b == 0 else a % b,
    "SMOD": py_smod,
    "ADDMOD": lambda a, b, n, size=256: 0 if n == 0 else (a + b) % n,
    "MULMOD": lambda a, b, n, size=256: 0 if n == 0 else (a * b) % n,
    "EXP": lambda a, b, size=256: pow(a, b, M(size)),
    "SIGNEXTEND": lambda k, x, size=256: py_signextend(k, x),
    "LT": lambda a, b, size=256: int(a < b),
    "GT": lambda a, b, size=256: int(a > b),
    "SLT": lambda a, b, size=256: int(to_signed(a, size) < to_signed(b, size)),
    "SGT": lambda a, b, size=256: int(to_signed(a, size) > to_signed(b, size)),
    "EQ": lambda a, b, size=256: int(a == b),
    "ISZERO": lambda a, size=256: int(a == 0),
    "AND": lambda a, b, size=256: a & b,
    "OR": lambda a, b, size=256: a | b,
    "XOR": lambda a, b, size=256: a ^ b,
    "NOT": lambda a, size=256: (~a) % M(size),
    "BYTE": lambda i, x, size=256: py_byte(i, x),
    "SHL": lambda s, x, size=256: 0 if s >= size else (x << s) % M(size),
    "SHR": lambda s, x, size=256: 0 if s >= size else x >> s,
    "SAR": py_sar,
    # non-instruction helpers used by method-level contracts
    "ULE": lambda a, b, size=256: int(a <= b),
    "UGE": lambda a, b, size=256: int(a >= b),
}

# ----------------------------------------------------------------------------- SMT-LIB form


def _b2w(c, size):
    return z3.If(c, z3.BitVecVal(1, size), z3.BitVecVal(0, size))


def bv_addmod(a, b, n, size=256):
    ext = 8
    s = z3.ZeroExt(ext, a) + z3.ZeroExt(ext, b)
    return z3.If(n == 0, z3.BitVecVal(0, size), z3.Extract(size - 1, 0, z3.URem(s, z3.ZeroExt(ext, n))))


def bv_mulmod(a, b, n, size=256):
    p = z3.ZeroExt(size, a) * z3.ZeroExt(size, b)
    return z3.If(n == 0, z3.BitVecVal(0, size), z3.Extract(size - 1, 0, z3.URem(p, z3.ZeroExt(size, n))))


def bv_signextend_const(k, x):
    """k is a python int here (the instruction's first operand when it is concrete)"""
    if k >= 31:
        return x
    bits = 8 * (k + 1)
    return z3.SignExt(256 - bits, z3.Extract(bits - 1, 0, x))


def bv_signextend(k, x):
    r = x
    for kk in range(30, -1, -1):
        r = z3.If(k == kk, bv_signextend_const(kk, x), r)
    return r


def bv_byte(i, x):
    r = z3.BitVecVal(0, 256)
    for k in range(31, -1, -1):
        r = z3.If(i == k, z3.ZeroExt(248, z3.Extract(8 * (31 - k) + 7, 8 * (31 - k), x)), r)
    return r


BVEXP = {}


def bv_exp_uf(size):
    f = BVEXP.get(size)
    if f is None:
        f = BVEXP[size] = z3.Function(f"spec_exp_{size}", z3.BitVecSort(size), z3.BitVecSort(size), z3.BitVecSort(size))
    return f


BV = {
    "ADD": lambda a, b, size=256: a + b,
    "SUB": lambda a, b, size=256: a - b,
    "MUL": lambda a, b, size=256: a * b,
    "DIV": lambda a, b, size=256: z3.If(b == 0, z3.BitVecVal(0, size), z3.UDiv(a, b)),
    "SDIV": lambda a, b, size=256: z3.If(b == 0, z3.BitVecVal(0, size), a / b),
    "MOD": lambda a, b, size=256: z3.If(b == 0, z3.BitVecVal(0, size), z3.URem(a, b)),
    "SMOD": lambda a, b, size=256: z3.If(b == 0, z3.BitVecVal(0, size), z3.SRem(a, b)),
    "ADDMOD": bv_addmod,
    "MULMOD": bv_mulmod,
    "EXP": lambda a, b, size=256: bv_exp_uf(size)(a, b),
    "SIGNEXTEND": lambda k, x, size=256: bv_signextend(k, x),
    "LT": lambda a, b, size=256: z3.ULT(a, b),
    "GT": lambda a, b, size=256: z3.UGT(a, b),
    "SLT": lambda a, b, size=256: a < b,
    "SGT": lambda a, b, size=256: a > b,
    "EQ": lambda a, b, size=256: a == b,
    "ISZERO": lambda a, size=256: a == 0,
    "AND": lambda a, b, size=256: a & b,
    "OR": lambda a, b, size=256: a | b,
    "XOR": lambda a, b, size=256: a ^ b,
    "NOT": lambda a, size=256: ~a,
    "BYTE": lambda i, x, size=256: bv_byte(i, x),
    "SHL": lambda s, x, size=256: x << s,
    "SHR": lambda s, x, size=256: z3.LShR(x, s),
    "SAR": lambda s, x, size=256: x >> s,
    "ULE": lambda a, b, size=256: z3.ULE(a, b),
    "UGE": lambda a, b, size=256: z3.UGE(a, b),
}
BOOL_RESULT = {"LT", "GT", "SLT", "SGT", "EQ", "ISZERO", "ULE", "UGE"}

# ----------------------------------------------------------------------------- integer form


def i_signed(a, size):
    return z3.If(a >= (1 << (size - 1)), a - (1 << size), a)


def i_abs(a):
    return z3.If(a < 0, -a, a)


def i_sdiv(a, b, size=256):
    sa, sb = i_signed(a, size), i_signed(b, size)
    q = i_abs(sa) / i_abs(sb)
    q = z3.If((sa < 0) != (sb < 0), -q, q)
    return z3.If(b == 0, z3.IntVal(0), q % M(size))


def i_smod(a, b, size=256):
    sa, sb = i_signed(a, size), i_signed(b, size)
    r = i_abs(sa) % i_abs(sb)
    r = z3.If(sa < 0, -r, r)
    return z3.If(b == 0, z3.IntVal(0), r % M(size))


INT = {
    "ADD": lambda a, b, size=256: (a + b) % M(size),
    "SUB": lambda a, b, size=256: (a - b) % M(size),
    "MUL": lambda a, b, size=256: (a * b) % M(size),
    "DIV": lambda a, b, size=256: z3.If(b == 0, z3.IntVal(0), a / b),
    "SDIV": i_sdiv,
    "MOD": lambda a, b, size=256: z3.If(b == 0, z3.IntVal(0), a % b),
    "SMOD": i_smod,
    "ADDMOD": lambda a, b, n, size=256: z3.If(n == 0, z3.IntVal(0), (a + b) % n),
    "MULMOD": lambda a, b, n, size=256: z3.If(n == 0, z3.IntVal(0), (a * b) % n),
    "EXP": lambda a, b, size=256: POW(a, b) % M(size),
    "LT": lambda a, b, size=256: a < b,
    "GT": lambda a, b, size=256: a > b,
    "SLT": lambda a, b, size=256: i_signed(a, size) < i_signed(b, size),
    "SGT": lambda a, b, size=256: i_signed(a, size) > i_signed(b, size),
    "EQ": lambda a, b, size=256: a == b,
    "ISZERO": lambda a, size=256: a == 0,
    "NOT": lambda a, size=256: M(size) - 1 - a,
    "SHL": lambda s, x, size=256: z3.If(s >= size, z3.IntVal(0), (x * POW2(s)) % M(size)),
    "SHR": lambda s, x, size=256: z3.If(s >= size, z3.IntVal(0), x / POW2(s)),
    "ULE": lambda a, b, size=256: a <= b,
    "UGE": lambda a, b, size=256: a >= b,
}

# ----------------------------------------------------------------------------- abstractions


def definitions(sevm_module):
    """exact definitions D_f of the arithmetic abstractions declared in halmos.sevm
    (DESIGN 3.1), as (FuncDeclRef, body over Var(0), Var(1)) pairs for z3.substitute_funs.
    f_evm_exp is replaced by the uninterpreted specification function spec_exp (so that both
    sides talk about the same, arbitrary-but-fixed, exponentiation)."""
    out = []

    def two(f, mk):
        s = f.domain(0)
        x, y = z3.Var(0, s), z3.Var(1, s)
        out.append((f, mk(x, y, s.size())))

    zero = lambda n: z3.BitVecVal(0, n)  # noqa
    two(sevm_module.f_div, lambda x, y, n: z3.If(y == 0, zero(n), z3.UDiv(x, y)))
    for f in sevm_module.f_mod.values():
        two(f, lambda x, y, n: z3.If(y == 0, zero(n), z3.URem(x, y)))
    for f in sevm_module.f_mul.values():
        two(f, lambda x, y, n: x * y)
    two(sevm_module.f_sdiv, lambda x, y, n: z3.If(y == 0, zero(n), x / y))
    two(sevm_module.f_smod, lambda x, y, n: z3.If(y == 0, zero(n), z3.SRem(x, y)))
    two(sevm_module.f_exp, lambda x, y, n: bv_exp_uf(n)(x, y))
    return out


def interpret(term, defs):
    return z3.substitute_funs(term, *defs)
