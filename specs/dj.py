"""Yellow Paper (9.4.3) code decoding, pure Python reference over concrete byte strings.

N(i, w)   = i + w - PUSH1 + 2  for w in [PUSH1, PUSH32], else i + 1
D_J(c, i) = {}                              if i >= |c|
            {i} u D_J(c, N(i, c[i]))        if c[i] = JUMPDEST
            D_J(c, N(i, c[i]))              otherwise
opcode past the end is STOP; a PUSH operand is c[i+1 .. i+n] with zeros past |c| (right padded),
read big-endian.
"""
PUSH0, PUSH1, PUSH32, JUMPDEST, STOP = 0x5F, 0x60, 0x7F, 0x5B, 0x00


def N(i, w):
    return i + w - PUSH1 + 2 if PUSH1 <= w <= PUSH32 else i + 1


def insn_len(w):
    return N(0, w)


def D_J(c, i=0):
    out = set()
    while i < len(c):
        if c[i] == JUMPDEST:
            out.add(i)
        i = N(i, c[i])
    return out


def decode(c, pc):
    """(opcode, operand or None, next_pc)"""
    if pc >= len(c):
        return STOP, None, None
    w = c[pc]
    nxt = N(pc, w)
    if nxt - pc > 1:
        data = bytes(c[pc + 1 : nxt])
        data = data + b"\x00" * (nxt - pc - 1 - len(data))
        return w, int.from_bytes(data, "big"), nxt
    return w, None, nxt


def code_slice(c, start, size):
    out = bytes(c[start : start + size])
    return out + b"\x00" * (size - len(out))
