"""ghost containers for the byte-sequence proofs (C07)

SymSortedDict  stands for sortedcontainers.SortedDict with (possibly symbolic) integer keys.  The
               entries are kept in key order; every order/equality question about keys is decided
               by branching in the interpreter (interp.truth), so each run of a harness fixes one
               relative order of all keys involved and all orders are explored.  The contract
               modelled is the documented one of SortedDict: bisect_right, peekitem, sliceable
               keys()/items()/values() views (slices are copies), item assignment / deletion, copy.
GhostData      stands for an immutable `bytes` object of unknown content and (possibly symbolic)
               length: byte k is the uninterpreted function data_<name>(k) with range [0, 255].
"""
from __future__ import annotations

import ast

import z3

from .interp import ConstData, GhostData, Interp  # noqa: F401
from .sym import EngineError, SymInt, iexpr, is_sym


def _truth(x):
    return Interp.current.truth(x)


def _cmp(op, a, b):
    return Interp.current.compare(op, a, b)


class SymSortedDict:
    accepts_symbolic_keys = True

    def __init__(self, items=None):
        self._items = list(items or [])  # [(key, value)] in strictly increasing key order

    # -- SortedDict API used by the verified code
    def bisect_right(self, x):
        idx = 0
        for k, _ in self._items:
            if _truth(_cmp(ast.LtE, k, x)):
                idx += 1
            else:
                break
        return idx

    def peekitem(self, index=-1):
        return self._items[index]

    def keys(self):
        return [k for k, _ in self._items]

    def values(self):
        return [v for _, v in self._items]

    def items(self):
        return list(self._items)

    def copy(self):
        return SymSortedDict(self._items)

    def __len__(self):
        return len(self._items)

    def __bool__(self):
        return bool(self._items)

    def __iter__(self):
        return iter(self.keys())

    def _position(self, key):
        """(index, found): index of the entry with this key, or where it has to be inserted"""
        for i, (k, _) in enumerate(self._items):
            if k is key or _truth(_cmp(ast.Eq, k, key)):
                return i, True
            if _truth(_cmp(ast.Lt, key, k)):
                return i, False
        return len(self._items), False

    def __setitem__(self, key, value):
        i, found = self._position(key)
        if found:
            self._items[i] = (self._items[i][0], value)
        else:
            self._items.insert(i, (key, value))

    def __getitem__(self, key):
        i, found = self._position(key)
        if not found:
            raise KeyError(key)
        return self._items[i][1]

    def __delitem__(self, key):
        i, found = self._position(key)
        if not found:
            raise KeyError(key)
        del self._items[i]

    def __contains__(self, key):
        return self._position(key)[1]

    def get(self, key, default=None):
        i, found = self._position(key)
        return self._items[i][1] if found else default

    def __repr__(self):
        return f"SymSortedDict({len(self._items)} entries)"


