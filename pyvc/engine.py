"""path exploration driver and obligation discharge (z3 in-process, then z3-new / cvc5)"""
from __future__ import annotations

import os
import re
import subprocess
import tempfile
import time
import traceback

import z3

from .interp import Interp, PathCtx, PathEnd
from .sym import EngineError, Unmodelled

Z3_NEW = "z3-new"
CVC5 = "/usr/bin/cvc5"


class Result:
    """outcome of one obligation"""

    def __init__(self, ob, status, backend, seconds, model=None, form=None, detail=""):
        self.oid = ob.oid
        self.clause = ob.clause
        self.kind = ob.kind
        self.status = status  # discharged | refuted | unknown | covered | vacuous
        self.backend = backend
        self.seconds = seconds
        self.model = model or {}
        self.form = form
        self.detail = detail
        self.info = ob.info
        self.text = None

    def to_json(self):
        return {
            "id": self.oid,
            "clause": self.clause,
            "kind": self.kind,
            "status": self.status,
            "backend": self.backend,
            "seconds": round(self.seconds, 4),
            "form": self.form,
            "model": self.model,
            "detail": self.detail,
            "info": {k: str(v) for k, v in (self.info or {}).items()},
            "text": self.text,
        }


def explore(harness, *, unit, case="", contracts=None, externals=None, loop_specs=None, opts=None, max_paths=4000):
    """run `harness(interp)` once per path; returns (obligations, n_paths, notes)"""
    pending = [[]]
    obligations = []
    n_paths = 0
    notes = []
    ended = 0
    while pending:
        prefix = pending.pop()
        ctx = PathCtx(prefix, branch_timeout_ms=(opts or {}).get("branch_timeout_ms", 2000))
        ctx.unit = unit
        ctx.case = case
        interp = Interp(ctx, contracts, externals, loop_specs, opts)
        try:
            harness(interp)
            ctx.cover("cover/path-end")
        except PathEnd as p:
            ended += 1
            if p.reason:
                notes.append(f"path ended: {p.reason}")
        n_paths += 1
        obligations.extend(ctx.obligations)
        pending.extend(ctx.pending)
        if n_paths > max_paths:
            raise EngineError(f"{unit}/{case}: more than {max_paths} paths")
    return obligations, n_paths, notes


# --------------------------------------------------------------------------------------


def _model_to_dict(m):
    out = {}
    for d in m.decls():
        if d.arity() != 0:
            continue
        v = m[d]
        try:
            if z3.is_bv_value(v) or z3.is_int_value(v):
                out[d.name()] = v.as_long()
            elif z3.is_true(v):
                out[d.name()] = True
            elif z3.is_false(v):
                out[d.name()] = False
            else:
                out[d.name()] = str(v)
        except Exception:
            out[d.name()] = str(v)
    return out


def _smt2(hyps, goal):
    s = z3.Solver()
    for h in hyps:
        s.add(h)
    if goal is not None:
        s.add(z3.Not(goal))
    return s.to_smt2()


_model_line = re.compile(r"\(define-fun\s+(\S+)\s+\(\)\s+(\([^()]*\)|\S+)\s+(.*?)\)\s*$")


def _parse_value(txt):
    txt = txt.strip()
    if txt.startswith("#x"):
        return int(txt[2:], 16)
    if txt.startswith("#b"):
        return int(txt[2:], 2)
    m = re.match(r"\(_ bv(\d+) \d+\)", txt)
    if m:
        return int(m.group(1))
    m = re.match(r"\(- (\d+)\)", txt)
    if m:
        return -int(m.group(1))
    if txt.isdigit():
        return int(txt)
    if txt == "true":
        return True
    if txt == "false":
        return False
    return txt


def _parse_model_text(out):
    model = {}
    cur = None
    for line in out.splitlines():
        line = line.strip()
        m = _model_line.match(line)
        if m:
            model[m.group(1)] = _parse_value(m.group(3))
            continue
        m = re.match(r"\(define-fun\s+(\S+)\s+\(\)\s+(\([^()]*\)|\S+)\s*$", line)
        if m:
            cur = m.group(1)
            continue
        if cur is not None:
            model[cur] = _parse_value(line.rstrip(")").strip() if not line.startswith("(") else line[:-1] if line.endswith("))") else line)
            cur = None
    return model


def run_external(smt2, timeout_s, which=("z3-new", "cvc5"), want_model=True):
    """returns (status, backend, seconds, model_dict)"""
    text = smt2
    if "(check-sat)" not in text:
        text += "\n(check-sat)\n"
    best = ("unknown", None, 0.0, {})
    with tempfile.TemporaryDirectory(prefix="pyvc-") as d:
        for name in which:
            p = os.path.join(d, name + ".smt2")
            t = text
            if name == "cvc5":
                t = t.replace("bv2int", "bv2nat")
                t = "(set-logic ALL)\n" + t
                if want_model:
                    t = "(set-option :produce-models true)\n" + t
            if want_model:
                t = t + "\n(get-model)\n"
            with open(p, "w") as f:
                f.write(t)
            cmd = (
                [Z3_NEW, f"-T:{int(timeout_s) + 1}", p]
                if name == "z3-new"
                else [CVC5, f"--tlimit={int(timeout_s * 1000)}", "--strings-exp", p]
            )
            t0 = time.time()
            try:
                r = subprocess.run(cmd, capture_output=True, text=True, timeout=timeout_s + 5)
                out = r.stdout
            except subprocess.TimeoutExpired:
                out = "timeout"
            dt = time.time() - t0
            first = out.strip().splitlines()[0].strip() if out.strip() else ""
            if first == "unsat":
                return "unsat", name, dt, {}
            if first == "sat":
                model = _parse_model_text(out) if want_model else {}
                best = ("sat", name, dt, model)
                return best
    return best


_HEAVY = None
# widths at which the division lemmas (y != 0 => x udiv y <= x,  y != 0 => x urem y < y) are
# themselves discharged as obligations of the pack that uses them (lemma_cases below)
LEMMA_WIDTHS = {256}
USED_LEMMAS = set()


def _heavy_kinds():
    global _HEAVY
    if _HEAVY is None:
        names = ["Z3_OP_BUDIV", "Z3_OP_BUREM", "Z3_OP_BSDIV", "Z3_OP_BSREM", "Z3_OP_BSMOD", "Z3_OP_BUDIV_I", "Z3_OP_BUREM_I", "Z3_OP_BSDIV_I", "Z3_OP_BSREM_I", "Z3_OP_BSMOD_I", "Z3_OP_BMUL"]
        _HEAVY = {getattr(z3, n): n[6:].lower() for n in names if hasattr(z3, n)}
    return _HEAVY


def abstract_heavy(terms):
    """sound generalisation: division/remainder/non-linear multiplication become uninterpreted
    functions (the same one for the same operator and width everywhere); if the generalised
    obligation is valid so is the original.  Returns (terms', changed)."""
    heavy = _heavy_kinds()
    cache = {}
    ufs = {}
    changed = [False]
    lemma_instances = []
    used_lemmas = USED_LEMMAS

    def rec(t):
        k = t.get_id()
        r = cache.get(k)
        if r is not None:
            return r
        if not z3.is_app(t) or t.num_args() == 0:
            cache[k] = t
            return t
        kids = [rec(c) for c in t.children()]
        kind = t.decl().kind()
        if kind in heavy and z3.is_bv(t):
            nonconst = [c for c in kids if not z3.is_bv_value(c)]
            if kind != z3.Z3_OP_BMUL or len(nonconst) >= 2:
                w = t.size()
                r = kids[0]
                for c in kids[1:]:
                    key = (heavy[kind], w)
                    f = ufs.get(key)
                    if f is None:
                        f = ufs[key] = z3.Function(f"abs_{heavy[kind]}_{w}", z3.BitVecSort(w), z3.BitVecSort(w), z3.BitVecSort(w))
                    app = f(r, c)
                    if w in LEMMA_WIDTHS and heavy[kind] in ("budiv", "budiv_i"):
                        lemma_instances.append(z3.Implies(c != 0, z3.ULE(app, r)))
                        used_lemmas.add(("udiv-le", w))
                    if w in LEMMA_WIDTHS and heavy[kind] in ("burem", "burem_i"):
                        lemma_instances.append(z3.Implies(c != 0, z3.ULT(app, c)))
                        used_lemmas.add(("urem-lt", w))
                    r = app
                changed[0] = True
                cache[k] = r
                return r
        if all(a is b for a, b in zip(kids, t.children())):
            r = t
        else:
            r = t.decl()(*kids)
        cache[k] = r
        return r

    out = [rec(t) for t in terms]
    if lemma_instances:
        out = lemma_instances + out
    return out, changed[0]


def _check(hyps, goal, ms):
    s = z3.Solver()
    s.set("timeout", ms)
    for h in hyps:
        s.add(h)
    s.add(z3.Not(goal))
    return s, s.check()


def discharge_one(ob, tier="quick", inproc_ms=3000, ext_s=30):
    t0 = time.time()
    if ob.kind == "cover":
        s = z3.Solver()
        s.set("timeout", inproc_ms)
        for h in ob.hyps_i:
            s.add(h)
        for h in ob.hyps_b:
            s.add(h)
        r = s.check()
        if r == z3.sat:
            return Result(ob, "covered", "z3-4.12.6", time.time() - t0)
        if r == z3.unsat:
            return Result(ob, "vacuous", "z3-4.12.6", time.time() - t0, detail="path condition unsatisfiable")
        return Result(ob, "covered", "unknown-treated-as-reachable", time.time() - t0, detail="cover undecided")

    same_hyps = all(a is b for a, b in zip(ob.hyps_i, ob.hyps_b))
    if ob.goal_b is ob.goal_i:
        if same_hyps:
            forms = [("int", ob.hyps_i, ob.goal_i)]
        else:
            # one goal, two descriptions of the state: the bit-vector facts first (pure QF_BV
            # is the fast path), then everything known
            forms = [("bv", ob.hyps_b, ob.goal_b), ("int", list(ob.hyps_i) + [h for h, g in zip(ob.hyps_b, ob.hyps_i) if h is not g], ob.goal_i)]
    else:
        forms = [("int", ob.hyps_i, ob.goal_i), ("bv", ob.hyps_b, ob.goal_b)]
    sat_models = []
    # 1. simplifier
    for name, hyps, goal in forms:
        g = z3.simplify(goal)
        if z3.is_true(g):
            res = Result(ob, "discharged", "z3-simplifier", time.time() - t0, form=name)
            res.text = f"|- {goal.sexpr()[:300]}"
            return res
    # 2. in-process solver (generalised form first: cheap and sound when it says unsat)
    unknown_forms = []
    abstracted = {}
    for name, hyps, goal in forms:
        try:
            terms, changed = abstract_heavy(list(hyps) + [goal])
        except Exception:
            changed = False
        if changed:
            abstracted[name] = (terms[:-1], terms[-1])
            s, r = _check(terms[:-1], terms[-1], inproc_ms)
            if r == z3.unsat:
                res = Result(ob, "discharged", "z3-4.12.6", time.time() - t0, form=name + "/uf-generalised")
                res.text = (" & ".join(h.sexpr() for h in hyps[-3:]) + " |- " + goal.sexpr())[:600]
                return res
    for name, hyps, goal in forms:
        s, r = _check(hyps, goal, inproc_ms)
        if r == z3.unsat:
            res = Result(ob, "discharged", "z3-4.12.6", time.time() - t0, form=name)
            res.text = (" & ".join(h.sexpr() for h in hyps[-3:]) + " |- " + goal.sexpr())[:600]
            return res
        if r == z3.sat:
            sat_models.append((name, _model_to_dict(s.model()), "z3-4.12.6"))
        else:
            unknown_forms.append((name, hyps, goal))
    # 3. external back ends on the undecided forms
    for name, hyps, goal in unknown_forms:
        if name in abstracted:
            st, be, dt, model = run_external(_smt2(*abstracted[name]), ext_s, want_model=False)
            if st == "unsat":
                res = Result(ob, "discharged", be, time.time() - t0, form=name + "/uf-generalised")
                res.text = (" & ".join(h.sexpr() for h in hyps[-3:]) + " |- " + goal.sexpr())[:600]
                return res
        st, be, dt, model = run_external(_smt2(hyps, goal), ext_s)
        if st == "unsat":
            res = Result(ob, "discharged", be, time.time() - t0, form=name)
            res.text = (" & ".join(h.sexpr() for h in hyps[-3:]) + " |- " + goal.sexpr())[:600]
            return res
        if st == "sat":
            sat_models.append((name, model, be))
    # 4. linked attempt: both descriptions together (bridge facts are definitional)
    if len(forms) == 2 and (unknown_forms or sat_models):
        hyps = list(ob.hyps_i) + list(ob.hyps_b) + list(ob.links)
        goal = z3.Or(ob.goal_i, ob.goal_b)
        s = z3.Solver()
        s.set("timeout", inproc_ms)
        for h in hyps:
            s.add(h)
        s.add(z3.Not(goal))
        if s.check() == z3.unsat:
            return Result(ob, "discharged", "z3-4.12.6", time.time() - t0, form="int+bv")
    if sat_models:
        # prefer the bit-vector form's model (inputs are bit-vector constants there)
        sat_models.sort(key=lambda x: 0 if x[0] == "bv" else 1)
        name, model, be = sat_models[0]
        merged = {}
        for _, m, _ in reversed(sat_models):
            merged.update(m)
        res = Result(ob, "refuted", be, time.time() - t0, model=merged, form=name)
        res.text = (ob.goal_b if name == "bv" else ob.goal_i).sexpr()[:600]
        return res
    return Result(ob, "unknown", None, time.time() - t0, detail="all back ends undecided")


def discharge(obligations, tier="quick"):
    ext_s = 30 if tier == "quick" else 300
    inproc = 3000 if tier == "quick" else 10000
    out = []
    for ob in obligations:
        r = discharge_one(ob, tier, inproc, ext_s)
        if r.status == "unknown":
            # the solver budgets are wall time: on a loaded machine a query that normally takes a fraction of a
            # second can run out of it.  An undecided obligation is asked once more with a larger budget before it is
            # reported as undecided (exit 2); a verdict is never taken from a timeout.
            r2 = discharge_one(ob, tier, inproc * 5, ext_s * 2)
            if r2.status != "unknown":
                r2.detail = ((r2.detail or "") + " [decided on the second attempt with a larger budget]").strip()
                r = r2
        out.append(r)
    return out


def run_case(harness, **kw):
    """explore + discharge; returns dict (json-able) for the report"""
    tier = kw.pop("tier", "quick")
    unit = kw["unit"]
    case = kw.get("case", "")
    t0 = time.time()
    try:
        obligations, n_paths, notes = explore(harness, **kw)
    except Unmodelled as e:
        return {"unit": unit, "case": case, "error": "out-of-subset", "detail": str(e), "trace": traceback.format_exc()[-1500:], "results": [], "paths": 0}
    except EngineError as e:
        return {"unit": unit, "case": case, "error": "engine", "detail": f"{type(e).__name__}: {e}", "trace": traceback.format_exc()[-1500:], "results": [], "paths": 0}
    except Exception as e:  # harness bug
        return {"unit": unit, "case": case, "error": "engine", "detail": f"{type(e).__name__}: {e}", "trace": traceback.format_exc()[-2500:], "results": [], "paths": 0}
    results = discharge(obligations, tier)
    return {
        "unit": unit,
        "case": case,
        "error": None,
        "paths": n_paths,
        "notes": notes[:5],
        "results": [r.to_json() for r in results],
        "wall": round(time.time() - t0, 3),
    }


def lemma_obligations(prop):
    """the hint lemmas as obligations (bit-vector validity, proved by the external back ends)"""
    out = []
    for w in sorted(LEMMA_WIDTHS):
        x, y = z3.BitVec("x", w), z3.BitVec("y", w)
        out.append((f"{prop}/lemma.udiv-le/valid/@{w}", z3.Implies(y != 0, z3.ULE(z3.UDiv(x, y), x))))
        out.append((f"{prop}/lemma.urem-lt/valid/@{w}", z3.Implies(y != 0, z3.ULT(z3.URem(x, y), y))))
    return out


def prove_lemma(goal, timeout_s=120):
    t0 = time.time()
    st, be, dt, _ = run_external(_smt2([], goal), timeout_s, which=("z3-new",), want_model=False)
    return st == "unsat", be or "z3-new", time.time() - t0
