"""Locate code units in the *current* /repo source text.

Bodies always come from ast.parse of the file on disk (re-read on every run); real function
objects from the imported package are used only to find the matching AST node (file + first
line), for their globals, defaults and closure cells.
"""
from __future__ import annotations

import ast
import hashlib
import os
import sys

from .sym import EngineError

REPO_SRC = os.environ.get("VERIF_REPO_SRC", "/repo/src")
PKG_DIR = os.path.join(REPO_SRC, "halmos")


class BindingError(EngineError):
    pass


class SourceFile:
    def __init__(self, path):
        self.path = path
        with open(path, encoding="utf-8") as f:
            self.text = f.read()
        self.tree = ast.parse(self.text, filename=path)
        self.lines = self.text.splitlines()
        self.by_line = {}
        self.by_qual = {}
        self._index(self.tree, "")

    def _index(self, node, prefix):
        for child in ast.iter_child_nodes(node):
            if isinstance(child, (ast.FunctionDef, ast.AsyncFunctionDef)):
                q = prefix + child.name
                self.by_qual.setdefault(q, child)
                self.by_line[child.lineno] = child
                for d in child.decorator_list:
                    self.by_line.setdefault(d.lineno, child)
                child._qual = q
                self._index(child, q + ".<locals>.")
            elif isinstance(child, ast.ClassDef):
                q = prefix + child.name
                self.by_qual.setdefault(q, child)
                child._qual = q
                self._index(child, q + ".")
            elif isinstance(child, ast.Lambda):
                self.by_line.setdefault(("lambda", child.lineno, child.col_offset), child)
                self._index(child, prefix)
            else:
                self._index(child, prefix)

    def segment(self, node):
        return ast.get_source_segment(self.text, node) or ""

    def sha(self, node):
        return hashlib.sha256(self.segment(node).encode()).hexdigest()[:16]


_files: dict[str, SourceFile] = {}


def source_file(path) -> SourceFile:
    path = os.path.realpath(path)
    sf = _files.get(path)
    if sf is None:
        sf = _files[path] = SourceFile(path)
    return sf


def module_file(modname) -> SourceFile:
    """halmos.bitvec -> SourceFile of /repo/src/halmos/bitvec.py"""
    rel = modname.split(".")
    assert rel[0] == "halmos"
    p = os.path.join(REPO_SRC, *rel) + ".py"
    if not os.path.exists(p):
        p = os.path.join(REPO_SRC, *rel, "__init__.py")
    return source_file(p)


def is_repo_file(filename) -> bool:
    try:
        return os.path.realpath(filename).startswith(os.path.realpath(PKG_DIR) + os.sep)
    except Exception:
        return False


def is_repo_function(fn) -> bool:
    code = getattr(fn, "__code__", None)
    return code is not None and is_repo_file(code.co_filename)


def is_repo_class(cls) -> bool:
    mod = getattr(cls, "__module__", "") or ""
    return isinstance(cls, type) and (mod == "halmos" or mod.startswith("halmos."))


def func_node(fn):
    """AST node (FunctionDef/Lambda) of a real function object defined in the repo"""
    code = fn.__code__
    sf = source_file(code.co_filename)
    node = sf.by_line.get(code.co_firstlineno)
    if node is None or (not isinstance(node, ast.Lambda) and node.name != code.co_name):
        # lambdas: search by line
        for k, v in sf.by_line.items():
            if isinstance(k, tuple) and k[1] == code.co_firstlineno:
                return sf, v
        raise BindingError(f"cannot bind {fn.__qualname__} at {code.co_filename}:{code.co_firstlineno}")
    return sf, node


def find_unit(spec):
    """spec 'halmos.bitvec:HalmosBitVec.div' -> (SourceFile, node)"""
    mod, qual = spec.split(":")
    sf = module_file(mod)
    node = sf.by_qual.get(qual)
    if node is None:
        raise BindingError(f"unit {spec} not found in {sf.path}")
    return sf, node


def names_in(node):
    return {n.id for n in ast.walk(node) if isinstance(n, ast.Name)}


def find_dispatch_arm(fn_node, mention, nth=0):
    """the body of the `if/elif` arm inside fn_node whose *test* mentions the name `mention`
    (e.g. OP_ADDMOD); elif chains are nested If nodes in orelse."""
    hits = []
    for n in ast.walk(fn_node):
        if isinstance(n, ast.If) and mention in names_in(n.test):
            hits.append(n)
    if len(hits) <= nth:
        raise BindingError(f"no dispatch arm mentioning {mention}")
    hits.sort(key=lambda n: (n.lineno, n.col_offset))
    return hits[nth]


def import_repo():
    if REPO_SRC not in sys.path:
        sys.path.insert(0, REPO_SRC)
    import halmos  # noqa

    if not is_repo_file(halmos.__file__):
        raise BindingError(f"halmos imported from {halmos.__file__}, expected under {PKG_DIR}")
    return halmos
