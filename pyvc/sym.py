"""Symbolic Python values of the pyvc verifier.

SymInt  : a Python `int` whose value is unknown.  It carries
            e     – a z3 Int expression (the mathematical value), and optionally
            view  – (bv, W, exact): a z3 BitVec(W) expression with  value ≡ bv (mod 2^W);
                    exact=True additionally means 0 <= value < 2^W, i.e. value = bv2nat(bv).
          Both descriptions are facts about the same integer ("two-form" encoding, DESIGN 2.4/5):
          obligations may be discharged in the integer form or in the bit-vector form.
SymBool : a Python `bool` whose value is unknown: i (int-form z3 Bool), b (bv-form z3 Bool).
          i and b are equivalent descriptions of the same truth value.

Symbolic values refuse to be used by native (compiled) code: __bool__/__hash__/__index__/__eq__
raise EngineError, so a symbolic value that leaks into CPython is a checker error (exit 3),
never a silent wrong answer.
"""
from __future__ import annotations

import z3


class EngineError(BaseException):
    """checker/binding/modelling error: exit 3, never a pass and never a violation"""


class Unmodelled(EngineError):
    """construct or external outside the modelled subset (unit is out-of-subset)"""


def _leak(what):
    def f(self, *a, **k):
        raise EngineError(f"symbolic value leaked into native code via {what}: {self!r}")
    return f


class SymInt:
    __slots__ = ("e", "view")

    def __init__(self, e, view=None):
        assert z3.is_int(e), e
        self.e = e
        self.view = view  # (bv, W, exact)

    def __repr__(self):
        return f"SymInt({self.e})"

    __bool__ = _leak("__bool__")
    __hash__ = _leak("__hash__")
    __index__ = _leak("__index__")
    __int__ = _leak("__int__")
    __eq__ = _leak("__eq__")
    __lt__ = _leak("__lt__")
    __add__ = _leak("__add__")
    __radd__ = _leak("__radd__")
    __and__ = _leak("__and__")
    __rand__ = _leak("__rand__")


class SymBool:
    __slots__ = ("i", "b")

    def __init__(self, i, b=None):
        assert z3.is_bool(i), i
        self.i = i
        self.b = i if b is None else b

    def __repr__(self):
        return f"SymBool({self.i})"

    __bool__ = _leak("__bool__")
    __hash__ = _leak("__hash__")
    __index__ = _leak("__index__")
    __int__ = _leak("__int__")
    __eq__ = _leak("__eq__")


def is_sym(x):
    t = type(x)
    return t is SymInt or t is SymBool


def contains_sym(x, depth=3):
    """shallow scan of containers for symbolic values"""
    if is_sym(x):
        return True
    if depth and isinstance(x, (tuple, list, set, frozenset)):
        return any(contains_sym(y, depth - 1) for y in x)
    if depth and type(x) is dict:
        return any(contains_sym(k, depth - 1) or contains_sym(v, depth - 1) for k, v in x.items())
    return False


# --------------------------------------------------------------------------------------
# integer views


def iexpr(x):
    """int-form z3 expression of an int-like python/symbolic value"""
    if type(x) is SymInt:
        return x.e
    if type(x) is SymBool:
        return z3.If(x.i, z3.IntVal(1), z3.IntVal(0))
    if isinstance(x, int):
        return z3.IntVal(int(x))
    raise EngineError(f"iexpr: {x!r}")


def view_of(x, W):
    """(bv, exact) such that x ≡ bv (mod 2^W); None if no bit-vector view is known"""
    if type(x) is SymBool:
        return z3.If(x.b, z3.BitVecVal(1, W), z3.BitVecVal(0, W)), True
    if isinstance(x, int):
        x = int(x)
        return z3.BitVecVal(x % (1 << W), W), 0 <= x < (1 << W)
    if type(x) is SymInt:
        if x.view is None:
            return None
        bv, W0, exact = x.view
        if W0 == W:
            return bv, exact
        if W0 > W:
            return z3.Extract(W - 1, 0, bv), False if not exact else False
        if exact:
            return z3.ZeroExt(W - W0, bv), True
        return None
    raise EngineError(f"view_of: {x!r}")


def natural_width(x):
    if type(x) is SymInt and x.view is not None:
        return x.view[1]
    return None


def to_bv(x, W):
    """the bit-vector z3py would build for BitVecVal(x, W): x mod 2^W"""
    v = view_of(x, W)
    if v is not None:
        return z3.simplify(v[0]) if z3.is_bv_value(v[0]) else v[0]
    return z3.Int2BV(iexpr(x), W)


def mk_exact(bv):
    """SymInt for the unsigned value of a bit-vector expression"""
    W = bv.size()
    return SymInt(z3.BV2Int(bv, is_signed=False), (bv, W, True))


def int_input(name, W):
    """a symbolic int with 0 <= value < 2^W: Int constant <name>!i and BV constant <name>;
    returns (SymInt, [range facts])"""
    i = z3.Int(name + "!i")
    b = z3.BitVec(name, W)
    return SymInt(i, (b, W, True)), [i >= 0, i < (1 << W)]


def link_fact(name, W):
    return z3.Int(name + "!i") == z3.BV2Int(z3.BitVec(name, W), is_signed=False)


def free_int(name):
    return SymInt(z3.Int(name))


POW2 = z3.Function("pow2", z3.IntSort(), z3.IntSort())
POW = z3.Function("pow", z3.IntSort(), z3.IntSort(), z3.IntSort())
BITLEN = z3.Function("bit_length", z3.IntSort(), z3.IntSort())
